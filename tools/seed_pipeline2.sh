#!/bin/bash
# coordinator tool, round 2: the changes patch1..3 of /tmp/seed/<ID>/seed_out are stored as seeded/<ID>_3..5
id="$1"; shift
ks="${@:-1 2 3}"
for k in $ks; do
  [ -f /tmp/seed/$id/seed_out/patch$k.diff ] || continue
  ok=$((k+2))
  /verif/tools/confirm_seed.sh $id $k $ok > /verif/seeded/.${id}_$ok.confirm 2>&1
  cd /verif && tools/try_patch.sh seed${id}k$ok /verif/seeded/${id}_$ok/patch.diff $id > /verif/seeded/${id}_$ok/check_output.txt 2>&1
done
