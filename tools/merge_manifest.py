#!/usr/bin/env python3
"""Merge the suggested MANIFEST entries at the end of notes/CXX.md into MANIFEST.json (coordinator tool).
   usage: tools/merge_manifest.py C14 C15 ...   (no args: every notes/C*.md that has a check script)"""
import json, os, re, subprocess, sys
ROOT = os.path.dirname(os.path.dirname(os.path.abspath(__file__)))
m = json.load(open(os.path.join(ROOT, "MANIFEST.json")))
ids = sys.argv[1:] or sorted(f[:-3] for f in os.listdir(os.path.join(ROOT, "notes")) if re.fullmatch(r"C\d+\.md", f))
for pid in ids:
    path = os.path.join(ROOT, "notes", pid + ".md")
    if not os.path.exists(path) or not os.path.exists(os.path.join(ROOT, "checks", pid.lower() + ".py")):
        print("skip", pid); continue
    blocks = re.findall(r"```json\s*(\{.*?\})\s*```", open(path).read(), re.S)
    entry = None
    for b in reversed(blocks):
        try:
            e = json.loads(b)
        except ValueError:
            continue
        if e.get("property_id") == pid:
            entry = e; break
    if entry is None:
        print("no entry in", path); continue
    m["checks"] = [c for c in m["checks"] if c["property_id"] != pid] + [entry]
    m["not_applicable"] = [x for x in m.get("not_applicable", []) if x["property_id"] != pid]
    print("merged", pid)
m["checks"].sort(key=lambda c: c["property_id"])
m["engines"][0]["serves_properties"] = sorted(c["property_id"] for c in m["checks"])
log = subprocess.run(["git", "-C", "/repo", "log", "--format=%h %s"], stdout=subprocess.PIPE).stdout.decode().splitlines()
m["hooks"]["source_commits"] = [l.split()[0] for l in log if l.split(" ", 1)[1].startswith("hook:")][::-1]
json.dump(m, open(os.path.join(ROOT, "MANIFEST.json"), "w"), indent=1)
