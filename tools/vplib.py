"""Shared machinery of the feos verification checks (see DESIGN.md section 1).

Every check  checks/cXX.py  exposes  run(ctx) -> Result  and uses the helpers below to
  * build the harness binary against /repo's *current working tree* (hooks on: --cfg feos_verif),
  * run it (it executes the real implementation, traces programs, writes gen/*.v + impl.json),
  * build the Coq library (full .vo, never -vos) and compile the regenerated files with coqc,
  * apply the hygiene gate (no Admitted/Axiom/..., Print Assumptions allow-list),
  * write evidence/<ID>.json and, on failure, a replay + the VIOLATION line.
"""
import concurrent.futures
import json
import os
import re
import subprocess
import sys
import time

VERIF = os.path.dirname(os.path.dirname(os.path.abspath(__file__)))
# FV_SCRATCH=<dir> (see tools/mutant.sh): run against a scratch copy <dir>/repo of feos with a scratch harness,
# scratch cargo target and scratch outputs, leaving /repo, coq/gen, evidence/ and replays/ untouched.
SCRATCH = os.environ.get("FV_SCRATCH")
REPO = os.path.join(SCRATCH, "repo") if SCRATCH else "/repo"
COQ = os.path.join(VERIF, "coq")
THEORIES = os.path.join(COQ, "theories")
PROPS = os.path.join(COQ, "props")
GEN = os.path.join(SCRATCH, "gen") if SCRATCH else os.path.join(COQ, "gen")
HARNESS = os.path.join(SCRATCH, "harness") if SCRATCH else os.path.join(VERIF, "harness")
TARGET = os.path.join(SCRATCH, "target") if SCRATCH else os.path.join(VERIF, "build", "cargo-target")
LOGS = os.path.join(SCRATCH, "logs") if SCRATCH else os.path.join(VERIF, "build", "logs")
EVIDENCE = os.path.join(SCRATCH, "evidence") if SCRATCH else os.path.join(VERIF, "evidence")
REPLAYS = os.path.join(SCRATCH, "replays") if SCRATCH else os.path.join(VERIF, "replays")
KNOWN = os.path.join(VERIF, "known_findings.json")
NPROC = os.cpu_count() or 8

ENV = dict(os.environ, CARGO_NET_OFFLINE="true", FV_REPO=REPO)
if SCRATCH:
    ENV["CARGO_TARGET_DIR"] = TARGET

# axioms declared by the standard library / Flocq / Interval that theorems here may depend on
AXIOM_ALLOW = {
    "ClassicalDedekindReals.sig_forall_dec",
    "ClassicalDedekindReals.sig_not_dec",
    "FunctionalExtensionality.functional_extensionality_dep",
    "Classical_Prop.classic",
    "ClassicalEpsilon.constructive_indefinite_description",
    "ProofIrrelevance.proof_irrelevance",
    "Eqdep.Eq_rect_eq.eq_rect_eq",
    "JMeq.JMeq_eq",
    "PropExtensionality.propositional_extensionality",
    "ClassicalFacts.prop_extensionality",
    "Raxioms", "Rdefinitions",
}
# primitive ints/floats (kernel primitives and their specification axioms from the stdlib)
AXIOM_ALLOW_PREFIX = ("PrimFloat.", "FloatAxioms.", "Uint63.", "PrimInt63.", "FloatOps.", "Sint63.",
                      "PArray.", "Flocq.", "Coq.Floats.", "Coq.Numbers.Cyclic.Int63.", "SpecFloat.", "Uint63Axioms.",
                      "FloatLemmas.")


class Ctx:
    def __init__(self, pid, tier="quick", seed=None):
        self.id = pid
        self.tier = os.environ.get("VERIF_TIER", tier) if tier is None else tier
        self.seed = int(os.environ.get("VERIF_SEED", "1")) if seed is None else seed
        self.t0 = time.time()
        self.gen = os.path.join(GEN, pid)
        self.logs = os.path.join(LOGS, pid)
        os.makedirs(self.gen, exist_ok=True)
        os.makedirs(self.logs, exist_ok=True)
        os.makedirs(EVIDENCE, exist_ok=True)
        os.makedirs(REPLAYS, exist_ok=True)
        self.violations = []      # list of (replay_path, text)
        self.known_printed = []
        self.notes = []

    @property
    def full(self):
        return self.tier == "thorough"

    def log(self, name, text):
        p = os.path.join(self.logs, name)
        with open(p, "w") as f:
            f.write(text)
        return p

    def elapsed(self):
        return time.time() - self.t0


def sh(cmd, cwd=None, timeout=3600, env=None):
    """run a command, return (rc, stdout+stderr, seconds); rc 124 on timeout"""
    t = time.time()
    try:
        p = subprocess.run(cmd, cwd=cwd, env=env or ENV, stdout=subprocess.PIPE, stderr=subprocess.STDOUT,
                           timeout=timeout, shell=isinstance(cmd, str))
        return p.returncode, p.stdout.decode("utf-8", "replace"), time.time() - t
    except subprocess.TimeoutExpired as e:
        out = (e.stdout or b"").decode("utf-8", "replace")
        return 124, out + "\n[timeout after %ss]" % timeout, time.time() - t


# ---------------------------------------------------------------------------------------------
# building

def ensure_lock():
    """harness/Cargo.lock must be a copy of /repo/Cargo.lock plus the harness itself (offline)."""
    pass


def build_harness(binname, ctx=None):
    rc, out, secs = sh(["cargo", "build", "--release", "--offline", "--bin", binname], cwd=HARNESS, timeout=3000)
    if ctx:
        ctx.log("cargo_%s.log" % binname, out)
    if rc != 0:
        errs = [l for l in out.splitlines() if l.startswith("error")]
        raise InfraError("cargo build of harness bin %s failed:\n%s" % (binname, "\n".join(errs[:20]) or out[-2000:]))
    return os.path.join(TARGET, "release", binname)


def run_harness(binname, ctx, extra=(), timeout=3000, build=True):
    """build + run a harness binary; returns the parsed impl.json it wrote into ctx.gen"""
    exe = build_harness(binname, ctx) if build else os.path.join(TARGET, "release", binname)
    for f in os.listdir(ctx.gen):
        p = os.path.join(ctx.gen, f)
        if os.path.isfile(p):
            os.remove(p)
    cmd = [exe, "--out", ctx.gen, "--tier", ctx.tier, "--seed", str(ctx.seed)] + list(extra)
    rc, out, secs = sh(cmd, cwd=VERIF, timeout=timeout)
    ctx.log("harness_%s.log" % binname, out)
    if rc != 0:
        raise InfraError("harness %s exited %d:\n%s" % (binname, rc, out[-3000:]))
    with open(os.path.join(ctx.gen, "impl.json")) as f:
        return json.load(f)


COQPROJECT_HEAD = """-Q theories FeosVerif
-Q props FeosProps
-arg -w -arg -notation-overridden,-deprecated-hint-without-locality,-deprecated-instance-without-locality,-ambiguous-paths,-deprecated-syntactic-definition
"""


def _coqproject_text():
    lines = [COQPROJECT_HEAD.rstrip("\n")]
    for d in ("theories", "props"):
        dd = os.path.join(COQ, d)
        if os.path.isdir(dd):
            lines += ["%s/%s" % (d, f) for f in sorted(os.listdir(dd)) if f.endswith(".v")]
    return "\n".join(lines) + "\n"


def build_coq(ctx=None, targets=None):
    """(re)build the Coq library (full .vo, never -vos).  _CoqProject lists every theories/*.v and props/*.v and is
    regenerated (with the Makefile) whenever that set changes.  `targets`: .v paths whose .vo (and dependencies) are
    wanted; default: everything.  Serialised by a file lock so that concurrent checks do not race."""
    import fcntl
    os.makedirs(os.path.join(VERIF, "build"), exist_ok=True)
    with open(os.path.join(VERIF, "build", "coq.lock"), "w") as lk:
        fcntl.flock(lk, fcntl.LOCK_EX)
        want = _coqproject_text()
        cp = os.path.join(COQ, "_CoqProject")
        have = open(cp).read() if os.path.exists(cp) else ""
        if want != have or not os.path.exists(os.path.join(COQ, "Makefile")):
            with open(cp, "w") as f:
                f.write(want)
            rc, out, _ = sh(["coq_makefile", "-f", "_CoqProject", "-o", "Makefile"], cwd=COQ)
            if rc != 0:
                raise InfraError("coq_makefile failed: " + out)
        cmd = ["make", "-j%d" % NPROC]
        if targets:
            cmd += [os.path.relpath(t, COQ)[:-2] + ".vo" for t in targets]
        rc, out, secs = sh(cmd, cwd=COQ, timeout=3000)
    if ctx:
        ctx.log("coq_make.log", out)
    return rc == 0, out


def coqc_one(path, timeout=600, extra_q=(), out_vo=None):
    d = os.path.dirname(path)
    cmd = ["coqc", "-noglob", "-Q", THEORIES, "FeosVerif", "-Q", PROPS, "FeosProps"]
    for (dd, name) in extra_q:
        cmd += ["-Q", dd, name]
    if out_vo:
        cmd += ["-o", out_vo]
    cmd += ["-w", "-notation-overridden,-deprecated-hint-without-locality,-deprecated-instance-without-locality,-ambiguous-paths,-deprecated-syntactic-definition",
            os.path.basename(path)]
    rc, out, secs = sh(cmd, cwd=d, timeout=timeout)
    return {"file": path, "rc": rc, "out": out, "secs": secs}


def coqc_many(paths, ctx=None, timeout=600, extra_q=(), jobs=None):
    """compile independent generated files in parallel; returns {path: result}"""
    res = {}
    if jobs is None:
        # evaluations of large derivative programs need up to ~6 GB each (thorough tier): do not start more of them side by
        # side than the memory that is available right now can hold (the kernel kills them otherwise)
        per_job = 6.0 if (ctx is not None and getattr(ctx, "tier", "") == "thorough") else 2.5
        try:
            avail = [int(l.split()[1]) for l in open("/proc/meminfo") if l.startswith("MemAvailable:")][0] / 1048576.0
            jobs = max(2, min(NPROC, int(avail / per_job)))
        except Exception:
            jobs = NPROC
    with concurrent.futures.ThreadPoolExecutor(max_workers=jobs) as ex:
        futs = {ex.submit(coqc_one, p, timeout, extra_q): p for p in paths}
        for fu in concurrent.futures.as_completed(futs):
            r = fu.result()
            res[r["file"]] = r
            if ctx:
                ctx.log("coqc_" + os.path.basename(r["file"]) + ".log", r["out"])
    # a process killed by the kernel (out of memory while 16 evaluations ran side by side) before its time limit is not a
    # verdict: run those files again one after the other
    for pth, r in sorted(res.items()):
        if r["rc"] in (-9, 137) and r["secs"] < 0.9 * timeout:
            r2 = r
            for attempt in range(3):
                time.sleep(15 * attempt)
                r2 = coqc_one(pth, timeout, extra_q)
                if r2["rc"] not in (-9, 137):
                    break
            r2["retried_after_kill"] = True
            res[pth] = r2
            if ctx:
                ctx.log("coqc_" + os.path.basename(pth) + ".log", r2["out"])
    return res


# ---------------------------------------------------------------------------------------------
# reading Coq's output

def strip_comments(src):
    out = []
    depth = 0
    i = 0
    n = len(src)
    instr = False
    while i < n:
        if depth == 0 and src[i] == '"':
            instr = not instr
            out.append(src[i]); i += 1; continue
        if not instr and src.startswith("(*", i):
            depth += 1; i += 2; continue
        if not instr and depth > 0 and src.startswith("*)", i):
            depth -= 1; i += 2; continue
        if depth == 0:
            out.append(src[i])
        i += 1
    return "".join(out)


def evals(out):
    """all results printed by `Eval ... in` / `Compute`:  list of raw strings (text after '= ', before ': type')"""
    res = []
    cur = None
    for line in out.splitlines():
        if line.startswith("     = "):
            if cur is not None:
                res.append(cur)
            cur = line[7:]
        elif line.startswith("     : ") and cur is not None:
            res.append(cur)
            cur = None
        elif cur is not None:
            cur += " " + line.strip()
    if cur is not None:
        res.append(cur)
    return res


_tok = re.compile(r"""\s*(?:(?P<str>"(?:[^"]|"")*")|(?P<hex>-?0x[0-9a-fA-F.]+p[-+]?\d+)|(?P<num>-?\d+(?:\.\d+)?(?:e[-+]?\d+)?)|(?P<id>[A-Za-z_][A-Za-z_0-9.']*)|(?P<sym>[\[\]();,]|%[A-Za-z_]+))""")


def coq_parse(text):
    """parse a printed Coq value (lists, tuples, strings, numbers, hex floats, constructor applications)
    into Python: list / tuple / str / int / float / ('Ctor', args...) / 'Ctor'"""
    toks = []
    pos = 0
    text = text.strip()
    while pos < len(text):
        m = _tok.match(text, pos)
        if not m:
            raise ValueError("cannot tokenize at %r" % text[pos:pos + 40])
        pos = m.end()
        k = m.lastgroup
        v = m.group(k)
        if k == "sym" and v.startswith("%"):
            continue
        toks.append((k, v))
    p = [0]

    def peek():
        return toks[p[0]] if p[0] < len(toks) else (None, None)

    def nxt():
        t = toks[p[0]]; p[0] += 1; return t

    def atom():
        k, v = nxt()
        if k == "str":
            return v[1:-1].replace('""', '"')
        if k == "hex":
            return float.fromhex(v)
        if k == "num":
            return int(v) if re.fullmatch(r"-?\d+", v) else float(v)
        if k == "id":
            if v == "true":
                return True
            if v == "false":
                return False
            return ("@", v)
        if v == "[":
            items = []
            if peek()[1] == "]":
                nxt(); return items
            while True:
                items.append(expr())
                k2, v2 = nxt()
                if v2 == "]":
                    return items
                assert v2 == ";", "expected ; or ] got %r" % v2
        if v == "(":
            items = [expr()]
            while True:
                k2, v2 = nxt()
                if v2 == ")":
                    break
                assert v2 == ",", "expected , or ) got %r" % v2
                items.append(expr())
            return items[0] if len(items) == 1 else tuple(items)
        raise ValueError("unexpected token %r" % v)

    def expr():
        a = atom()
        if isinstance(a, tuple) and len(a) == 2 and a[0] == "@":
            args = []
            while peek()[0] in ("str", "hex", "num", "id") or peek()[1] in ("[", "("):
                x = atom()
                if isinstance(x, tuple) and len(x) == 2 and x[0] == "@":
                    x = x[1]
                args.append(x)
            return (a[1],) + tuple(args) if args else a[1]
        return a

    v = expr()
    if p[0] != len(toks):
        raise ValueError("trailing tokens in %r" % text[:80])
    return v


def tagged(out):
    """dict tag -> list of parsed payloads, for results printed as ("TAG", payload)"""
    d = {}
    for raw in evals(out):
        if raw.startswith('("'):
            try:
                v = coq_parse(raw)
            except Exception as e:  # keep raw text when it is not parseable
                m = re.match(r'\("([^"]*)",\s*(.*)\)\s*$', raw, re.S)
                if m:
                    d.setdefault(m.group(1), []).append(("unparsed", m.group(2), str(e)))
                continue
            if isinstance(v, tuple) and len(v) >= 2 and isinstance(v[0], str):
                d.setdefault(v[0], []).append(v[1] if len(v) == 2 else v[1:])
    return d


def coq_error(out):
    m = re.search(r"(File \"[^\"]+\", line \d+, characters [-\d]+:\s*\n)?Error:(.*?)(?:\n\n|\Z)", out, re.S)
    if not m:
        return None
    return ((m.group(1) or "") + "Error:" + m.group(2)).strip()[:1500]


def interval_of(v):
    """('Float.Ibnd', lo, hi) -> (lo, hi); 'Float.Inan' -> None.  lo/hi may be 'nan'/'neg_infinity' ids."""
    def f(x):
        if isinstance(x, (int, float)):
            return float(x)
        if x in ("nan",):
            return float("nan")
        if x in ("neg_infinity",):
            return float("-inf")
        if x in ("infinity",):
            return float("inf")
        raise ValueError("bound %r" % (x,))
    if isinstance(v, tuple) and v[0].endswith("Ibnd"):
        return (f(v[1]), f(v[2]))
    return None


# ---------------------------------------------------------------------------------------------
# hygiene

FORBIDDEN = re.compile(r"\b(Admitted|admit|Axiom|Axioms|Parameter|Parameters|Conjecture|Conjectures|Abort All|"
                       r"Unset\s+Guard\s+Checking|Unset\s+Positivity\s+Checking|Unset\s+Universe\s+Checking|"
                       r"bypass_check|Admit\s+Obligations|type-in-type|impredicative-set|Declare\s+Module|give_up)\b")
SECTION_ONLY = re.compile(r"^\s*(Variable|Variables|Hypothesis|Hypotheses|Context)\b")


def hygiene_file(path):
    """problems found in one .v file (forbidden vernacular; Variable/Hypothesis outside a Section)"""
    probs = []
    try:
        src = strip_comments(open(path).read())
    except OSError as e:
        return ["%s: unreadable (%s)" % (path, e)]
    # strings cannot hide vernacular that matters; drop them to avoid matching e.g. "admit" in a message
    src_ns = re.sub(r'"(?:[^"]|"")*"', '""', src)
    for m in FORBIDDEN.finditer(src_ns):
        line = src_ns.count("\n", 0, m.start()) + 1
        probs.append("%s:%d: forbidden `%s`" % (os.path.relpath(path, VERIF), line, m.group(0)))
    depth = 0
    for i, line in enumerate(src_ns.splitlines(), 1):
        if re.match(r"^\s*Section\b", line):
            depth += 1
        elif re.match(r"^\s*End\b", line) and depth > 0:
            depth -= 1
        elif depth == 0 and SECTION_ONLY.match(line):
            probs.append("%s:%d: `%s` outside a Section" % (os.path.relpath(path, VERIF), i, line.strip()[:40]))
    return probs


def hygiene(paths):
    probs = []
    for p in paths:
        probs += hygiene_file(p)
    # build flags: _CoqProject is generated from COQPROJECT_HEAD; an edited copy must not smuggle flags in
    cp = os.path.join(COQ, "_CoqProject")
    t = (open(cp).read() if os.path.exists(cp) else "") + COQPROJECT_HEAD
    if re.search(r"type-in-type|impredicative-set|bypass|-vos|-vok", t):
        probs.append("_CoqProject passes a forbidden flag")
    return probs


def library_files():
    fs = []
    for d in (THEORIES, PROPS):
        if os.path.isdir(d):
            fs += [os.path.join(d, f) for f in sorted(os.listdir(d)) if f.endswith(".v")]
    return fs


def assumptions(out):
    """parse all `Print Assumptions` blocks of a coqc log -> (n_closed, set of axiom names)"""
    closed = out.count("Closed under the global context")
    axioms = set()
    inblock = False
    for line in out.splitlines():
        if line.startswith("Axioms:"):
            inblock = True
            continue
        if inblock:
            m = re.match(r"^([A-Za-z_][\w.']*)\s*(:|$)", line)
            if m:
                axioms.add(m.group(1))
            elif line.startswith(" ") or line.strip() == "":
                continue
            else:
                inblock = False
    return closed, axioms


def axioms_ok(axioms):
    bad = []
    for a in sorted(axioms):
        if a in AXIOM_ALLOW or a.startswith(AXIOM_ALLOW_PREFIX):
            continue
        bad.append(a)
    return bad


THEOREM_RE = re.compile(r"^\s*(?:Local\s+|Global\s+|#\[[^\]]*\]\s*)*(Theorem|Lemma|Corollary|Example|Fact|Proposition|Remark)\s+([A-Za-z_][\w']*)", re.M)


def theorems_in(path):
    try:
        return [m.group(2) for m in THEOREM_RE.finditer(strip_comments(open(path).read()))]
    except OSError:
        return []


def count_obligations(paths):
    return sum(len(theorems_in(p)) for p in paths)


def deps_of(vfiles):
    """transitive closure of FeosVerif/FeosProps dependencies of the given library files (by Require lines)"""
    seen = []
    todo = list(vfiles)
    while todo:
        p = todo.pop()
        if p in seen or not os.path.exists(p):
            continue
        seen.append(p)
        src = strip_comments(open(p).read())
        for m in re.finditer(r"From\s+(FeosVerif|FeosProps)\s+Require\s+(?:Import|Export)?\s*([^.]*)\.", src):
            base = THEORIES if m.group(1) == "FeosVerif" else PROPS
            for name in m.group(2).split():
                todo.append(os.path.join(base, name + ".v"))
    return sorted(seen)


# ---------------------------------------------------------------------------------------------
# results

class InfraError(Exception):
    pass


def load_known(pid):
    """open known findings of a property: entries of known_findings.json (and known_findings/*.json while building)
    {"property": "C16", "status": "open"|"fixed", "key": {...what identifies the failing input/call site...}, "what": "..."}"""
    entries = []
    files = []
    kd = os.path.join(VERIF, "known_findings")
    if os.path.isdir(kd):
        files += [os.path.join(kd, f) for f in sorted(os.listdir(kd)) if re.fullmatch(r"C\d+\.json", f)]
    files.append(KNOWN)          # the merged file (tools/merge_known.py); duplicates of the per-property files are dropped below
    for fn in files:
        try:
            k = json.load(open(fn))
        except (OSError, ValueError):
            continue
        for e in k.get("findings", []):
            if e not in entries:
                entries.append(e)
    return [e for e in entries if e.get("property") == pid and e.get("status", "open") == "open"]


def report_known(ctx, entry):
    line = "KNOWN-FINDING: property=%s %s" % (ctx.id, entry["what"])
    if line not in ctx.known_printed:
        ctx.known_printed.append(line)
        print(line, flush=True)


def violation(ctx, what, replay, found_input=True):
    """record a violation: writes the replay file and prints the VIOLATION line"""
    n = len(ctx.violations) + 1
    path = os.path.join(os.path.relpath(REPLAYS, VERIF) if not SCRATCH else REPLAYS, "%s-%d.json" % (ctx.id, n))
    replay = dict(replay)
    replay.setdefault("property", ctx.id)
    replay.setdefault("what", what)
    replay.setdefault("tier", ctx.tier)
    replay.setdefault("seed", ctx.seed)
    replay["failing_input_found"] = bool(found_input)
    with open(os.path.join(VERIF, path), "w") as f:   # (an absolute `path` wins in os.path.join)
        json.dump(replay, f, indent=1, default=str)
    line = "VIOLATION property=%s replay=%s" % (ctx.id, path)
    if not found_input:
        line += " no-failing-input-found"
    print(line, flush=True)
    print("  (" + what[:300] + ")", flush=True)
    ctx.violations.append((path, what))


def write_evidence(ctx, level, coverage, assumptions_list):
    ev = {
        "property_id": ctx.id,
        "tier": ctx.tier,
        "seed": ctx.seed,
        "level": level,
        "coverage": coverage,
        "assumptions": assumptions_list,
        "wall_s": round(ctx.elapsed(), 2),
        "violations": len(ctx.violations),
    }
    if ctx.known_printed:
        ev["coverage"]["known_findings_reported"] = ctx.known_printed
    if ctx.notes:
        ev["coverage"]["notes"] = ctx.notes
    with open(os.path.join(EVIDENCE, ctx.id + ".json"), "w") as f:
        json.dump(ev, f, indent=1, default=str)
    return ev


COMMON_TRUSTED = [
    "Coq 8.16.1 kernel incl. the VM (vm_compute); native_compute is not used",
    "standard-library axioms reported by Print Assumptions (classical reals, classic, functional_extensionality_dep, primitive float/int specs)",
    "Interval 4.x / Flocq / Coquelicot libraries as installed",
    "harness: tracing number type Sym, program extraction/emission, exact dyadic printer (validated every run by interval translation validation)",
    "python comparator and Coq-output parser (tools/vplib.py)",
    "floating-point round-off is modelled away (real semantics); see DESIGN.md section 8",
]


def gate_library(ctx, prop_files, gen_files=()):
    """hygiene + library build for the given property files (and everything they depend on).
    returns (ok, lib_deps, problems)"""
    deps = deps_of(prop_files)
    probs = hygiene(deps + list(gen_files))
    ok, out = build_coq(ctx, targets=deps)
    if not ok:
        probs.append("Coq library does not build: " + (coq_error(out) or out[-800:]))
    return (not probs), deps, probs


def check_props(ctx, prop_files, gen_files=()):
    """The standard library gate of a check: hygiene, build, Print Assumptions allow-list of every props file.
    Reports a violation (no failing input) when anything is wrong.
    Returns dict(ok, deps, obligations, axioms)."""
    ok, deps, probs = gate_library(ctx, prop_files, gen_files)
    axioms = set()
    pa_ok = True
    err = None
    for pf in prop_files:
        r_ok, closed, ax, out = prop_assumptions(ctx, pf)
        pa_ok = pa_ok and r_ok
        axioms |= ax
        if not r_ok:
            err = coq_error(out)
        n_thm = len(theorems_in(pf))
        if r_ok and closed + out.count("Axioms:") < n_thm:
            probs.append("%s: %d theorems but only %d Print Assumptions reports" % (os.path.basename(pf), n_thm, closed + out.count("Axioms:")))
    bad_ax = axioms_ok(axioms)
    good = ok and pa_ok and not bad_ax and not probs
    if not good:
        violation(ctx, "hygiene gate / library build failed: %s %s %s" % (probs[:5], bad_ax, err or ""),
                  {"broken": "library (theories/props do not build, forbidden vernacular, or an axiom outside the allow-list)",
                   "problems": probs, "bad_axioms": bad_ax, "coq_error": err}, found_input=False)
    n = count_obligations(deps)
    return {"ok": good, "deps": deps, "obligations": n, "discharged": n if good else 0, "axioms": sorted(axioms),
            "library_files": [os.path.relpath(d, VERIF) for d in deps]}


def prop_assumptions(ctx, prop_file):
    """compile coq/props/<file> output is in the make log; re-run coqc on it to collect Print Assumptions"""
    tmp = os.path.join(VERIF, "build", "tmp")
    os.makedirs(tmp, exist_ok=True)
    r = coqc_one(prop_file, timeout=900, out_vo=os.path.join(tmp, os.path.basename(prop_file) + "o"))
    ctx.log("props_" + os.path.basename(prop_file) + ".log", r["out"])
    closed, ax = assumptions(r["out"])
    return r["rc"] == 0, closed, ax, r["out"]
