#!/bin/bash
# Run checks against a code change without touching /repo:
#   tools/try_patch.sh <name> <patch.diff> <ID> [<ID> ...]     (extra env, e.g. FV_ONLY, is passed through)
# creates a scratch worktree + harness (tools/mutant.sh), applies the patch there, runs `bin/fv check <ID>` for each ID
# with FV_SCRATCH set (outputs under /tmp/fvmut/<name>), prints the verdict lines, and removes the scratch copy.
name="$1"; patch="$2"; shift 2
cd /verif
eval $(tools/mutant.sh setup "$name")
if ! git -C "$FV_SCRATCH/repo" apply --3way "$patch" 2>/tmp/fvmut/$name.apply.log && ! git -C "$FV_SCRATCH/repo" apply "$patch" 2>>/tmp/fvmut/$name.apply.log; then
  echo "PATCH DOES NOT APPLY"; cat /tmp/fvmut/$name.apply.log; unset FV_SCRATCH; tools/mutant.sh clean "$name"; exit 3
fi
rc=0
for id in "$@"; do
  echo "== $id on $name"
  timeout 3600 bin/fv check "$id" --tier "${TIER:-quick}" > "/tmp/fvmut/$name.$id.out" 2>&1; r=$?
  echo "known-finding lines: $(grep -c '^KNOWN-FINDING' "/tmp/fvmut/$name.$id.out")"
  grep -E "^(VIOLATION|OK|ERROR)" "/tmp/fvmut/$name.$id.out" | cut -c1-400 | head -12
  grep -A1 "^VIOLATION" "/tmp/fvmut/$name.$id.out" | grep "^  (" | cut -c1-300 | head -6
  echo "exit=$r"; [ $r -ne 0 ] && rc=1
  mkdir -p "/tmp/fvmut/keep_$name"; cp -r "$FV_SCRATCH/replays" "/tmp/fvmut/keep_$name/" 2>/dev/null
done
unset FV_SCRATCH
tools/mutant.sh clean "$name"
exit $rc
