#!/usr/bin/env python3
"""coordinator tool: replace the seeded-change table of DESIGN.md section 12.6 by the output of tools/seed_table.py."""
import os, subprocess
ROOT = os.path.dirname(os.path.dirname(os.path.abspath(__file__)))
tab = subprocess.run(["python3", os.path.join(ROOT, "tools", "seed_table.py")], capture_output=True, text=True, check=True).stdout.rstrip("\n").split("\n")
p = os.path.join(ROOT, "DESIGN.md")
lines = open(p).read().split("\n")
a = next(i for i, l in enumerate(lines) if l.startswith("| seed | change |"))
b = a
while b < len(lines) and lines[b].startswith("|"):
    b += 1
lines[a:b] = tab
open(p, "w").write("\n".join(lines))
print("table rows:", len(tab) - 2)
