#!/bin/bash
# coordinator tool: confirm the seeded changes of one property and run the property's check against each
id="$1"; shift
ks="${@:-1 2}"
for k in $ks; do
  [ -f /tmp/seed/$id/seed_out/patch$k.diff ] || continue
  /verif/tools/confirm_seed.sh $id $k > /verif/seeded/.${id}_$k.confirm 2>&1
  cd /verif && tools/try_patch.sh seed${id}k$k /verif/seeded/${id}_$k/patch.diff $id > /verif/seeded/${id}_$k/check_output.txt 2>&1
done
