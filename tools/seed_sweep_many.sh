#!/bin/bash
# coordinator tool: re-run checks against many stored seeded changes re-using ONE scratch copy (incremental cargo builds)
#   tools/seed_sweep_many.sh <slot> <seedname>[:ID,ID..] ...
# for each seed: reset the scratch worktree, apply seeded/<name>/patch.diff (or patch_adapted.diff if present), run
# `bin/fv check <ID>` for the seed's own property (or the listed IDs), write seeded/<name>/check_output.txt
slot="$1"; shift
cd /verif
eval $(tools/mutant.sh setup "$slot")
for item in "$@"; do
  name="${item%%:*}"; ids="${item#*:}"; [ "$ids" = "$item" ] && ids="${name%%_*}"; ids="${ids//,/ }"
  out=/verif/seeded/$name/check_output.txt
  patch=/verif/seeded/$name/patch.diff; [ -f /verif/seeded/$name/patch_adapted.diff ] && patch=/verif/seeded/$name/patch_adapted.diff
  # (reset, not checkout: `git apply --3way` also updates the index)
  git -C "$FV_SCRATCH/repo" reset -q --hard HEAD; git -C "$FV_SCRATCH/repo" clean -fdq
  : > "$out"
  echo "patch: $(basename $patch) applied to /repo HEAD $(git -C /repo log -1 --format=%h) in a scratch worktree" >> "$out"
  if ! git -C "$FV_SCRATCH/repo" apply --3way "$patch" 2>>"$out" && ! git -C "$FV_SCRATCH/repo" apply "$patch" 2>>"$out"; then
    echo "PATCH DOES NOT APPLY" >> "$out"; echo "$name: PATCH DOES NOT APPLY"; continue
  fi
  rm -rf "$FV_SCRATCH/replays"
  for id in $ids; do
    echo "== $id on $name" >> "$out"
    timeout 5400 bin/fv check "$id" --tier quick > "/tmp/fvmut/$slot.$id.out" 2>&1; r=$?
    echo "known-finding lines: $(grep -c '^KNOWN-FINDING' "/tmp/fvmut/$slot.$id.out")" >> "$out"
    grep -E "^(VIOLATION|OK|ERROR)" "/tmp/fvmut/$slot.$id.out" | cut -c1-400 | head -12 >> "$out"
    grep -A1 "^VIOLATION" "/tmp/fvmut/$slot.$id.out" | grep "^  (" | cut -c1-300 | head -6 >> "$out"
    echo "exit=$r" >> "$out"
  done
  echo "$name: $(grep -cE '^VIOLATION' $out) violation lines; $(grep -E '^(OK|ERROR)' $out | head -2 | tr '\n' ' ')"
done
unset FV_SCRATCH
tools/mutant.sh clean "$slot"
