#!/bin/bash
# Scratch copy of feos + harness for trying a code change without touching /repo:
#   tools/mutant.sh setup <name>     -> /tmp/fvmut/<name>/{repo (git worktree of /repo HEAD), harness (copy, paths rewritten)}
#   export FV_SCRATCH=/tmp/fvmut/<name>;  edit /tmp/fvmut/<name>/repo/...;  bin/fv check CXX      (outputs go to $FV_SCRATCH)
#   tools/mutant.sh clean <name>     -> removes the worktree, the copy and its build output
set -e
cmd="$1"; name="$2"
[ -n "$cmd" ] && [ -n "$name" ] || { echo "usage: $0 setup|clean <name>"; exit 2; }
root=/tmp/fvmut/$name
case "$cmd" in
  setup)
    mkdir -p /tmp/fvmut
    [ -d "$root/repo" ] || git -C /repo worktree add --detach "$root/repo" HEAD >/dev/null
    rm -rf "$root/harness"; mkdir -p "$root/harness"
    cp -r /verif/harness/src /verif/harness/Cargo.toml /verif/harness/Cargo.lock /verif/harness/.cargo "$root/harness/"
    sed -i "s|path = \"/repo|path = \"$root/repo|g" "$root/harness/Cargo.toml"
    sed -i "s|^target-dir = .*|target-dir = \"$root/target\"|" "$root/harness/.cargo/config.toml"
    echo "export FV_SCRATCH=$root" ;;
  clean)
    git -C /repo worktree remove --force "$root/repo" 2>/dev/null || true
    rm -rf "$root"; git -C /repo worktree prune ;;
  *) echo "usage: $0 setup|clean <name>"; exit 2 ;;
esac
