"""json2coq_c15 — translator of the shipped parameter files into Coq data (property C15).

Reads every *.json under <repo>/parameters/{pcsaft,epcsaft,saftvrmie,saftvrqmie,ideal_gas} with an exact reader
(number literals are kept as text, never as floats), and writes into the output directory
  D_<file>.v   data only (records of theories/RecordsC15.v; numbers as (mantissa, exponent10))
  P_/S_/B_/G_/C_<...>.v  obligations  `<checker> data = true`  closed by vm_compute + instantiation of the lifting theorems
It also returns the canonical listing (file, index, identifiers, numeric leaves) that checks/c15.py compares with the
listing the real serde record types produce (harness c15).  python3 stdlib only.
"""
import json
import os
import re
from fractions import Fraction

DIRS = ["pcsaft", "epcsaft", "saftvrmie", "saftvrqmie", "ideal_gas"]

# record type of every shipped file (double entry: the harness has the same table; checks/c15.py compares them)
KINDS = {
    "pcsaft/eller2022.json": "pure:pcsaft",
    "pcsaft/esper2023.json": "pure:pcsaft",
    "pcsaft/gross2001.json": "pure:pcsaft",
    "pcsaft/gross2002.json": "pure:pcsaft",
    "pcsaft/gross2005_fit.json": "pure:pcsaft",
    "pcsaft/gross2005_literature.json": "pure:pcsaft",
    "pcsaft/gross2006.json": "pure:pcsaft",
    "pcsaft/loetgeringlin2018.json": "pure:pcsaft",
    "pcsaft/rehner2020.json": "pure:pcsaft",
    "pcsaft/gross2002_binary.json": "binary:pcsaft",
    "pcsaft/rehner2023_binary.json": "excluded",      # named in the property text
    "pcsaft/sauer2014_homo.json": "segment:pcsaft",
    "pcsaft/loetgeringlin2015_homo.json": "segment:pcsaft",
    "pcsaft/rehner2023_homo.json": "segment:pcsaft",
    "pcsaft/sauer2014_hetero.json": "segment:gcpcsaft",
    "pcsaft/rehner2023_hetero.json": "segment:gcpcsaft",
    "pcsaft/rehner2023_homo_binary.json": "binaryseg",
    "pcsaft/rehner2023_hetero_binary.json": "binaryseg",
    "pcsaft/gc_substances.json": "chemical",
    "pcsaft/sauer2014_smarts.json": "smarts",
    "epcsaft/held2014_w_permittivity_added.json": "pure:epcsaft",
    "epcsaft/held2014_binary.json": "binary:epcsaft",
    "saftvrmie/lafitte2013.json": "pure:saftvrmie",
    "saftvrqmie/aasen2019.json": "pure:saftvrqmie",
    "saftvrqmie/aasen2019_fh2.json": "pure:saftvrqmie",
    "saftvrqmie/hammer2023.json": "pure:saftvrqmie",
    "saftvrqmie/aasen2020_binary.json": "binary:saftvrqmie",
    "saftvrqmie/aasen2020_binary_fh2.json": "binary:saftvrqmie",
    "ideal_gas/joback1987.json": "segment:joback",
    "ideal_gas/poling2000.json": "pure:dippr",
}
# the pure collection(s) a binary file accompanies; each collection is a union of files
ACCOMPANIES = {
    "pcsaft/gross2002_binary.json": [["pcsaft/gross2001.json", "pcsaft/gross2002.json"]],
    "epcsaft/held2014_binary.json": [["epcsaft/held2014_w_permittivity_added.json"]],
    "saftvrqmie/aasen2020_binary.json": [["saftvrqmie/aasen2019.json"], ["saftvrqmie/hammer2023.json"]],
    "saftvrqmie/aasen2020_binary_fh2.json": [["saftvrqmie/aasen2019_fh2.json"]],
}
BINSEG_TABLE = {
    "pcsaft/rehner2023_homo_binary.json": "pcsaft/rehner2023_homo.json",
    "pcsaft/rehner2023_hetero_binary.json": "pcsaft/rehner2023_hetero.json",
}
HOMO_TABLES = ["pcsaft/sauer2014_homo.json", "pcsaft/loetgeringlin2015_homo.json", "pcsaft/rehner2023_homo.json"]
HETERO_TABLES = ["pcsaft/sauer2014_hetero.json", "pcsaft/rehner2023_hetero.json"]
JOBACK_TABLE = "ideal_gas/joback1987.json"
GC_SUBSTANCES = "pcsaft/gc_substances.json"
SMARTS = "pcsaft/sauer2014_smarts.json"
SMARTS_TABLES = HOMO_TABLES + HETERO_TABLES + [JOBACK_TABLE]
PURE_CHECKER = {"pure:pcsaft": ("saft_okb", "saft_ok", "saft_okb_sound"),
                "pure:epcsaft": ("saft_okb", "saft_ok", "saft_okb_sound"),
                "pure:saftvrmie": ("mie_okb", "mie_ok", "mie_okb_sound"),
                "pure:saftvrqmie": ("vrq_okb", "vrq_ok", "vrq_okb_sound"),
                "pure:dippr": ("(dippr_okb grid)", "(dippr_ok grid)", "(dippr_okb_sound grid)")}
ID_KINDS = ["cas", "name", "iupac_name", "smiles", "inchi", "formula"]
COQ_KIND = {"cas": "Kcas", "name": "Kname", "iupac_name": "Kiupac", "smiles": "Ksmiles", "inchi": "Kinchi", "formula": "Kformula"}
# Identifier kinds that must be duplicate free in every pure / chemical file (look-up may use any IdentifierOption).
# `formula` is never required to be unique (isomers share it).  Documented design exceptions (calibrated on the shipped
# tree): rehner2020.json holds six water parametrisations that differ only in `name`; the SAFT-VRQ Mie files hold
# para-/ortho-/normal hydrogen, which the README of that directory tells users to distinguish by `name` only.
UNIQUE_KINDS_DEFAULT = ["cas", "name", "iupac_name", "smiles", "inchi"]
UNIQUE_KINDS_EXCEPT = {
    "pcsaft/rehner2020.json": ["cas", "iupac_name", "smiles", "inchi"],
    "saftvrqmie/aasen2019.json": ["cas", "smiles", "inchi"],
    "saftvrqmie/aasen2019_fh2.json": ["cas", "smiles", "inchi"],
    "saftvrqmie/hammer2023.json": ["cas", "smiles", "inchi"],
}


def unique_kinds(rel):
    return [k for k in UNIQUE_KINDS_DEFAULT if k not in UNIQUE_KINDS_EXCEPT.get(rel, [])]

CHUNK = 150   # records per data chunk file (large collections are split so that coqc runs in parallel)


class Lit(str):
    """a JSON number literal, kept as text"""


class DupKey(Exception):
    pass


def _pairs(pairs):
    d = {}
    for k, v in pairs:
        if k in d:
            raise DupKey("duplicate key %r in an object" % k)
        d[k] = v
    return d


def load_exact(path):
    with open(path, encoding="utf-8") as f:
        txt = f.read()
    return json.loads(txt, parse_float=Lit, parse_int=Lit, object_pairs_hook=_pairs,
                      parse_constant=lambda c: (_ for _ in ()).throw(ValueError("constant %s" % c)))


_num = re.compile(r"^(-?)(\d+)(?:\.(\d+))?(?:[eE]([-+]?\d+))?$")


def dec_pair(lit):
    """exact (mantissa, exponent10) of a JSON number literal, mantissa without trailing zeros"""
    m = _num.match(lit)
    if not m:
        raise ValueError("not a JSON number: %r" % lit)
    sign, ip, fp, ex = m.group(1), m.group(2), m.group(3) or "", int(m.group(4) or 0)
    mant = int(ip + fp)
    e = ex - len(fp)
    if mant == 0:
        return (0, 0)
    while mant % 10 == 0:
        mant //= 10
        e += 1
    return (-mant if sign else mant, e)


def dec_fraction(lit):
    m, e = dec_pair(lit)
    return Fraction(m) * (Fraction(10) ** e)


def flatten(v, prefix, nums, strs):
    """same traversal as the harness: numeric leaves (path, literal), other leaves (path, text)"""
    def join(k):
        return k if prefix == "" else prefix + "." + k
    if v is None:
        return
    if isinstance(v, Lit):
        nums.append((prefix, v))
    elif isinstance(v, bool):
        strs.append((prefix, "true" if v else "false"))
    elif isinstance(v, str):
        strs.append((prefix, v))
    elif isinstance(v, list):
        for i, x in enumerate(v):
            flatten(x, join(str(i)), nums, strs)
    elif isinstance(v, dict):
        for k, x in v.items():
            flatten(x, join(k), nums, strs)
    else:
        raise ValueError("unexpected JSON value %r" % (v,))


def ident_list(idv):
    if not isinstance(idv, dict):
        raise ValueError("identifier is not an object: %r" % (idv,))
    for k in idv:
        if k not in ID_KINDS:
            raise ValueError("unknown identifier kind %r" % k)
    out = []
    for k in ID_KINDS:
        x = idv.get(k)
        if x is not None and not isinstance(x, str):
            raise ValueError("identifier %s is not a string" % k)
        out.append(x)
    return out


def listing_of(kind, data):
    """canonical listing of one file (what the Coq data will contain)"""
    if not isinstance(data, list):
        raise ValueError("top level is not a list")
    recs = []
    for r in data:
        if not isinstance(r, dict):
            raise ValueError("record is not an object")
        if kind.startswith("pure:"):
            nums, strs = [], []
            flatten(r["model_record"], "", nums, strs)
            mw = r.get("molarweight")
            if mw is not None and not isinstance(mw, Lit):
                raise ValueError("molarweight is not a number")
            recs.append({"ids": ident_list(r["identifier"]), "mw": mw, "nums": nums, "strs": strs,
                         "extra": sorted(set(r) - {"identifier", "molarweight", "model_record"})})
        elif kind.startswith("segment:"):
            nums, strs = [], []
            flatten(r["model_record"], "", nums, strs)
            if not isinstance(r["identifier"], str):
                raise ValueError("segment identifier is not a string")
            mw = r["molarweight"]
            if not isinstance(mw, Lit):
                raise ValueError("molarweight is not a number")
            recs.append({"id": r["identifier"], "mw": mw, "nums": nums, "strs": strs,
                         "extra": sorted(set(r) - {"identifier", "molarweight", "model_record"})})
        elif kind.startswith("binary:"):
            nums, strs = [], []
            flatten(r["model_record"], "", nums, strs)
            recs.append({"id1": ident_list(r["id1"]), "id2": ident_list(r["id2"]), "nums": nums, "strs": strs,
                         "extra": sorted(set(r) - {"id1", "id2", "model_record"})})
        elif kind == "binaryseg":
            if not (isinstance(r["id1"], str) and isinstance(r["id2"], str) and isinstance(r["model_record"], Lit)):
                raise ValueError("segment binary record malformed")
            recs.append({"id1": r["id1"], "id2": r["id2"], "nums": [("", r["model_record"])], "strs": [],
                         "extra": sorted(set(r) - {"id1", "id2", "model_record"})})
        elif kind == "chemical":
            segs = r["segments"]
            if not (isinstance(segs, list) and all(isinstance(s, str) for s in segs)):
                raise ValueError("segments malformed")
            bonds = r.get("bonds")
            if bonds is not None:
                bonds = [[int(b[0]), int(b[1])] for b in bonds]
                if any(len(b) != 2 or b[0] < 0 or b[1] < 0 for b in bonds):
                    raise ValueError("bond malformed")
            recs.append({"ids": ident_list(r["identifier"]), "segments": list(segs), "bonds": bonds,
                         "extra": sorted(set(r) - {"identifier", "segments", "bonds"})})
        elif kind == "smarts":
            mx = r.get("max")
            recs.append({"group": r["group"], "smarts": r["smarts"], "max": None if mx is None else int(mx),
                         "extra": sorted(set(r) - {"group", "smarts", "max"})})
        else:
            raise ValueError("no translation for kind %s" % kind)
    return recs


# ---------------------------------------------------------------------------------------------
# Coq emission

def cstr(s):
    return '"' + s.replace('"', '""') + '"'


def copt(s):
    return "None" if s is None else "(Some %s)" % cstr(s)


def cdec(lit):
    m, e = dec_pair(lit)
    return "(%d, %d)" % (m, e)


def cident(ids):
    return "(mk_ident %s)" % " ".join(copt(x) for x in ids)


def cfields(nums):
    return "[" + "; ".join("(%s, %s)" % (cstr(k), cdec(v)) for k, v in nums) + "]"


def crecord(kind, r):
    if kind.startswith("pure:"):
        mw = "None" if r["mw"] is None else "(Some %s)" % cdec(r["mw"])
        return "mk_pure %s %s %s" % (cident(r["ids"]), mw, cfields(r["nums"]))
    if kind.startswith("segment:"):
        return "mk_seg %s (Some %s) %s" % (cstr(r["id"]), cdec(r["mw"]), cfields(r["nums"]))
    if kind.startswith("binary:"):
        return "mk_bin %s %s %s" % (cident(r["id1"]), cident(r["id2"]), cfields(r["nums"]))
    if kind == "binaryseg":
        return "mk_binseg %s %s %s" % (cstr(r["id1"]), cstr(r["id2"]), cdec(r["nums"][0][1]))
    if kind == "chemical":
        b = "None" if r["bonds"] is None else "(Some [" + "; ".join("(%d, %d)%%N" % (x, y) for x, y in r["bonds"]) + "])"
        return "mk_chem %s [%s] %s" % (cident(r["ids"]), "; ".join(cstr(s) for s in r["segments"]), b)
    raise ValueError(kind)


COQ_TYPE = {"pure": "pure_rec", "segment": "seg_rec", "binary": "bin_rec", "binaryseg": "binseg_rec", "chemical": "chem_rec"}
# ideal-gas models: temperature grid (K) on which the heat capacity must be positive and the exact model is compared with
# IdealGas::ln_lambda3; constants of src/ideal_gas/{dippr,joback}.rs as exact rationals
IG_GRID = [200, 300, 450, 700, 1000]
IG_GRID_COQ = "[" + "; ".join("(%d # 1)%%Q" % t for t in IG_GRID) + "]"
IG_CMP = [200, 450, 1000]     # temperatures at which the exact ln Lambda^3 / c_p are printed for the comparison
IG_CMP_COQ = "[" + "; ".join("(%d # 1)%%Q" % t for t in IG_CMP) + "]"
DIPPR_R = "(831446261815324 # 100000000000)%Q"      # 8.31446261815324 * 1000
IG_T0 = "(29815 # 100)%Q"                           # 298.15
JOBACK_R = "((6022140857 # 1000000000) * (138064852 # 100000000))%Q"   # 6.022140857 * 1.38064852
QP = "(fun x : Q => (Qnum x, Zpos (Qden x)))"
HEAD = ("From Coq Require Import List String ZArith QArith.\nFrom FeosVerif Require Import RecordsC15 IdealGasC15.\n"
        "Import ListNotations.\nOpen Scope string_scope.\nOpen Scope Z_scope.\n")


def modname(rel):
    return re.sub(r"[^A-Za-z0-9]", "_", rel[:-5])


def write(path, text):
    with open(path, "w", encoding="utf-8") as f:
        f.write(text)


def emit_data(outdir, rel, kind, recs):
    """D_<mod>.v (and chunk files for large collections); returns (phase-0 files, phase-1 files)"""
    mod = "D_" + modname(rel)
    if kind == "smarts":
        txt = HEAD + "Definition data : list string := [%s].\n" % "; ".join(cstr(r["group"]) for r in recs)
        write(os.path.join(outdir, mod + ".v"), txt)
        return [], [mod]
    ty = COQ_TYPE[kind.split(":")[0]]
    if len(recs) <= CHUNK:
        body = ";\n  ".join(crecord(kind, r) for r in recs)
        write(os.path.join(outdir, mod + ".v"), HEAD + "Definition data : list %s := [\n  %s].\n" % (ty, body))
        return [], [mod]
    chunks = []
    for ci in range(0, len(recs), CHUNK):
        cm = "%s_c%d" % (mod, ci // CHUNK)
        body = ";\n  ".join(crecord(kind, r) for r in recs[ci:ci + CHUNK])
        write(os.path.join(outdir, cm + ".v"), HEAD + "Definition data : list %s := [\n  %s].\n" % (ty, body))
        chunks.append(cm)
    txt = HEAD + "From C15gen Require %s.\n" % " ".join(chunks)
    txt += "Definition data : list %s := %s.\n" % (ty, " ++ ".join(c + ".data" for c in chunks))
    write(os.path.join(outdir, mod + ".v"), txt)
    return chunks, [mod]


def req(mods):
    return "From C15gen Require %s.\n" % " ".join(mods)


def uniq_block(rel, ids_expr, kind_exceptions):
    """obligations: every kind of unique_kinds(rel) other than name is duplicate free in `ids_expr` (a list ident);
    returns (coq text, number of obligations)"""
    t = ""
    nob = 0
    for k in unique_kinds(rel):
        if k == "name":
            continue
        K = COQ_KIND[k]
        exc = kind_exceptions.get((rel, k), [])
        t += ('Eval vm_compute in ("DUPKIND", %s, %s, let ns := keys (get_kind %s) (%s) in filter (fun n => Nat.ltb 1 (List.length (filter (String.eqb n) ns))) ns).\n'
              % (cstr(rel), cstr(k), K, ids_expr))
        if exc:
            e = "[" + "; ".join(cstr(x) for x in exc) + "]"
            t += "Lemma uniq_%s : kind_uniqb %s %s (%s) = true.\nProof. vm_compute. reflexivity. Qed.\n" % (k, K, e, ids_expr)
            t += ("Theorem shipped_uniq_%s : NoDup (filter (fun v => negb (memb v %s)) (keys (get_kind %s) (%s))).\n"
                  "Proof. exact (kind_uniqb_sound _ _ _ uniq_%s). Qed.\n" % (k, e, K, ids_expr, k))
            # the full-strength statement is refuted by the listed values
            t += ("Lemma uniq_%s_full_strength_refuted : forallb (fun x => Nat.ltb 1 (List.length (filter (String.eqb x) (keys (get_kind %s) (%s))))) %s = true.\n"
                  "Proof. vm_compute. reflexivity. Qed.\n" % (k, K, ids_expr, e))
            nob += 3
        else:
            t += "Lemma uniq_%s : kind_uniqb %s [] (%s) = true.\nProof. vm_compute. reflexivity. Qed.\n" % (k, K, ids_expr)
            t += ("Theorem shipped_uniq_%s : NoDup (keys (get_kind %s) (%s))\n"
                  "  /\\ forall p x, In p (%s) -> get_kind %s p = Some x -> lookup (get_kind %s) x (%s) = Some p.\n"
                  "Proof. exact (kind_uniqb_lookup _ _ uniq_%s). Qed.\n" % (k, K, ids_expr, ids_expr, K, K, ids_expr, k))
            nob += 2
    return t, nob


def generate(params_dir, outdir, seg_exceptions=None, kind_exceptions=None):
    """translate everything.  seg_exceptions: {segment file: [segment ids recorded as known findings]}.
    returns dict(files=[{file, kind, records|error}], unknown=[...], phases=[[mods], [mods], [mods]], checks={mod: meta})"""
    seg_exceptions = seg_exceptions or {}
    kind_exceptions = kind_exceptions or {}
    os.makedirs(outdir, exist_ok=True)
    files, unknown, missing = [], [], []
    listing = {}
    for d in DIRS:
        dd = os.path.join(params_dir, d)
        for n in sorted(os.listdir(dd)) if os.path.isdir(dd) else []:
            if not n.endswith(".json"):
                continue
            rel = d + "/" + n
            kind = KINDS.get(rel)
            if kind is None:
                unknown.append(rel)
                files.append({"file": rel, "kind": "unknown"})
                continue
            e = {"file": rel, "kind": kind, "bytes": os.path.getsize(os.path.join(dd, n))}
            if kind != "excluded":
                try:
                    recs = listing_of(kind, load_exact(os.path.join(dd, n)))
                    e["records"] = recs
                    listing[rel] = recs
                except (ValueError, KeyError, TypeError, DupKey) as ex:
                    e["error"] = "%s: %s" % (type(ex).__name__, ex)
            files.append(e)
    for rel in KINDS:
        if not any(f["file"] == rel for f in files):
            missing.append(rel)
    phase0, phase1, phase2 = [], [], []
    checks = {}
    for rel, recs in listing.items():
        p0, p1 = emit_data(outdir, rel, KINDS[rel], recs)
        phase0 += p0
        phase1 += p1

    def have(*rels):
        return all(r in listing for r in rels)

    def D(rel):
        return "D_" + modname(rel)

    # --- pure collections
    for rel, recs in listing.items():
        kind = KINDS[rel]
        if kind.startswith("pure:"):
            okb, ok, sound = PURE_CHECKER[kind]
            mod = "P_" + modname(rel)
            t = HEAD + req([D(rel)]) + "Definition data := %s.data.\n" % D(rel)
            if kind == "pure:dippr":
                t += "Definition grid : list Q := %s.\nDefinition cmp_grid : list Q := %s.\n" % (IG_GRID_COQ, IG_CMP_COQ)
                t += ('Eval vm_compute in ("IG", %s, map (fun r => let cs := dippr_coefs r in (p_name r, %s (Qred (ig_log %s cs)), '
                      'map (fun t => (%s (ig_ratR %s %s cs t), %s (cpR cs t))) cmp_grid)) data).\n'
                      % (cstr(rel), QP, DIPPR_R, QP, DIPPR_R, IG_T0, QP))
            t += 'Eval vm_compute in ("COUNT", %s, List.length data).\n' % cstr(rel)
            t += 'Eval vm_compute in ("BADREC", %s, map (fun r => (p_name r, p_mw r, field "m" (p_fields r), field "sigma" (p_fields r), field "epsilon_k" (p_fields r))) (filter (fun r => negb (%s r)) data)).\n' % (cstr(rel), okb)
            t += 'Eval vm_compute in ("DUPNAMES", %s, let ns := names data in filter (fun n => Nat.ltb 1 (List.length (filter (String.eqb n) ns))) ns).\n' % cstr(rel)
            t += "Lemma check : collection_okb %s data = true.\nProof. vm_compute. reflexivity. Qed.\n" % okb
            t += ("Theorem shipped_ok : Forall %s data /\\ NoDup (names data)\n"
                  "  /\\ (forall r k, In r data -> p_name r = Some k -> lookup p_name k data = Some r).\n"
                  "Proof. exact (collection_okb_sound _ _ %s _ check). Qed.\n" % (ok, sound))
            ut, un = uniq_block(rel, "pure_ids data", kind_exceptions)
            t += ut
            write(os.path.join(outdir, mod + ".v"), t)
            phase2.append(mod)
            checks[mod] = {"what": "pure collection", "file": rel, "obligations": 2 + un}
        elif kind.startswith("segment:"):
            mod = "S_" + modname(rel)
            t = HEAD + req([D(rel)]) + "Definition data := %s.data.\n" % D(rel)
            t += 'Eval vm_compute in ("COUNT", %s, List.length data).\n' % cstr(rel)
            if kind == "segment:joback":
                okb, ok, sound = "jobackseg_okb", "jobackseg_ok", "jobackseg_okb_sound"
                nob = 2
            else:
                exc = "[" + "; ".join(cstr(x) for x in seg_exceptions.get(rel, [])) + "]"
                t += "Definition exc : list string := %s.\n" % exc
                okb, ok, sound = "(seg_okb exc)", "(seg_ok exc)", "(seg_okb_sound exc)"
                t += 'Eval vm_compute in ("NONPOS", %s, map s_id (filter (fun r => negb (seg_posb r)) data)).\n' % cstr(rel)
                nob = 2
                if seg_exceptions.get(rel):
                    # the full-strength statement (no exceptions) is refuted by the listed witnesses
                    t += ("Lemma full_strength_refuted : forallb (fun x => existsb (fun r => String.eqb (s_id r) x && negb (seg_posb r)) data) exc = true.\n"
                          "Proof. vm_compute. reflexivity. Qed.\n")
                    nob = 3
            t += 'Eval vm_compute in ("BADREC", %s, map s_id (filter (fun r => negb (%s r)) data)).\n' % (cstr(rel), okb)
            t += 'Eval vm_compute in ("DUPNAMES", %s, let ns := seg_ids data in filter (fun n => Nat.ltb 1 (List.length (filter (String.eqb n) ns))) ns).\n' % cstr(rel)
            t += "Lemma check : table_okb %s data = true.\nProof. vm_compute. reflexivity. Qed.\n" % okb
            t += ("Theorem shipped_ok : Forall %s data /\\ NoDup (seg_ids data).\n"
                  "Proof. exact (table_okb_sound _ _ %s _ check). Qed.\n" % (ok, sound))
            write(os.path.join(outdir, mod + ".v"), t)
            phase2.append(mod)
            checks[mod] = {"what": "segment table", "file": rel, "obligations": nob}
    # --- binary files
    for rel, colls in ACCOMPANIES.items():
        if rel not in listing:
            continue
        mod = "B_" + modname(rel)
        deps = [D(rel)] + [D(f) for c in colls for f in c if f in listing]
        t = HEAD + req(sorted(set(deps))) + "Definition data := %s.data.\n" % D(rel)
        t += 'Eval vm_compute in ("COUNT", %s, List.length data).\n' % cstr(rel)
        nob = 0
        for ci, c in enumerate(colls):
            if not have(*c):
                continue
            coll = " ++ ".join("%s.data" % D(f) for f in c)
            t += "Definition coll%d := names (%s).\n" % (ci, coll)
            t += ('Eval vm_compute in ("DANGLING", %s, %d, map (fun b => (i_name (b_id1 b), i_name (b_id2 b))) (filter (fun b => negb (bin_refs_okb coll%d [b])) data)).\n'
                  % (cstr(rel), ci, ci))
            t += "Lemma refs%d : bin_refs_okb coll%d data = true.\nProof. vm_compute. reflexivity. Qed.\n" % (ci, ci)
            t += "Theorem shipped_refs%d : bin_refs_ok coll%d data.\nProof. exact (bin_refs_okb_sound _ _ refs%d). Qed.\n" % (ci, ci, ci)
            nob += 2
            # every identifier kind: the whole binary identifier agrees with one record of the collection
            t += "Definition collids%d := pure_ids (%s).\n" % (ci, coll)
            t += ('Eval vm_compute in ("BADIDS", %s, %d, map (fun b => (map (fun k => get_kind k (b_id1 b)) all_kinds, map (fun k => get_kind k (b_id2 b)) all_kinds)) (filter (fun b => negb (bin_ids_okb collids%d [b])) data)).\n'
                  % (cstr(rel), ci, ci))
            t += "Lemma ids%d : bin_ids_okb collids%d data = true.\nProof. vm_compute. reflexivity. Qed.\n" % (ci, ci)
            t += "Theorem shipped_ids%d : bin_ids_ok collids%d data.\nProof. exact (bin_ids_okb_sound _ _ ids%d). Qed.\n" % (ci, ci, ci)
            nob += 2
            ukinds = [k for k in UNIQUE_KINDS_DEFAULT if all(k in unique_kinds(f) and not kind_exceptions.get((f, k)) for f in c)]
            for k in ukinds:
                K = COQ_KIND[k]
                t += "Lemma colluniq%d_%s : kind_nodupb %s collids%d = true.\nProof. vm_compute. reflexivity. Qed.\n" % (ci, k, K, ci)
                t += ("Theorem shipped_lookup%d_%s : Forall (fun r => forall b, b = b_id1 r \\/ b = b_id2 r -> forall x, get_kind %s b = Some x ->\n"
                      "    exists p, lookup (get_kind %s) x collids%d = Some p /\\ agrees b p) data.\n"
                      "Proof. exact (bin_lookup_any_kind _ _ %s ids%d colluniq%d_%s). Qed.\n" % (ci, k, K, K, ci, K, ci, ci, k))
                nob += 2
        t += ('Eval vm_compute in ("DUPPAIRS", %s, let ps := bin_pairs data in filter (fun p => Nat.ltb 1 (List.length (filter (same_pairb p) ps))) ps).\n' % cstr(rel))
        t += "Lemma pairs : pairs_distinctb (bin_pairs data) = true.\nProof. vm_compute. reflexivity. Qed.\n"
        t += ("Theorem shipped_pairs : ForallOrdPairs (fun p q => ~ same_pair p q) (bin_pairs data).\n"
              "Proof. exact (pairs_distinctb_sound _ pairs). Qed.\n")
        nob += 2
        write(os.path.join(outdir, mod + ".v"), t)
        phase2.append(mod)
        checks[mod] = {"what": "binary file", "file": rel, "obligations": nob, "collections": colls}
    for rel, table in BINSEG_TABLE.items():
        if not have(rel, table):
            continue
        mod = "B_" + modname(rel)
        t = HEAD + req([D(rel), D(table)]) + "Definition data := %s.data.\nDefinition ids := seg_ids %s.data.\n" % (D(rel), D(table))
        t += 'Eval vm_compute in ("COUNT", %s, List.length data).\n' % cstr(rel)
        t += ('Eval vm_compute in ("DANGLING", %s, 0, map (fun b => (bs_id1 b, bs_id2 b)) (filter (fun b => negb (binseg_refs_okb ids [b])) data)).\n' % cstr(rel))
        t += "Lemma refs : binseg_refs_okb ids data = true.\nProof. vm_compute. reflexivity. Qed.\n"
        t += ("Theorem shipped_refs : Forall (fun b => In (bs_id1 b) ids /\\ In (bs_id2 b) ids) data.\n"
              "Proof. exact (binseg_refs_okb_sound _ _ refs). Qed.\n")
        t += ('Eval vm_compute in ("DUPPAIRS", %s, let ps := binseg_pairs data in filter (fun p => Nat.ltb 1 (List.length (filter (same_pairb p) ps))) ps).\n' % cstr(rel))
        t += "Lemma pairs : pairs_distinctb (binseg_pairs data) = true.\nProof. vm_compute. reflexivity. Qed.\n"
        t += ("Theorem shipped_pairs : ForallOrdPairs (fun p q => ~ same_pair p q) (binseg_pairs data).\n"
              "Proof. exact (pairs_distinctb_sound _ pairs). Qed.\n")
        write(os.path.join(outdir, mod + ".v"), t)
        phase2.append(mod)
        checks[mod] = {"what": "segment binary file", "file": rel, "obligations": 4, "table": table}
    # --- group contribution
    if GC_SUBSTANCES in listing:
        mod = "C_" + modname(GC_SUBSTANCES)
        t = HEAD + req([D(GC_SUBSTANCES)]) + "Definition chems := %s.data.\n" % D(GC_SUBSTANCES)
        t += 'Eval vm_compute in ("COUNT", %s, List.length chems).\n' % cstr(GC_SUBSTANCES)
        t += 'Eval vm_compute in ("DUPNAMES", %s, let ns := chem_names chems in filter (fun n => Nat.ltb 1 (List.length (filter (String.eqb n) ns))) ns).\n' % cstr(GC_SUBSTANCES)
        t += "Lemma check : nodupb (chem_names chems) && (List.length (chem_names chems) =? List.length chems)%nat = true.\nProof. vm_compute. reflexivity. Qed.\n"
        t += ("Theorem shipped_ok : NoDup (chem_names chems).\n"
              "Proof. apply nodupb_NoDup. pose proof check as H. apply andb_prop in H. exact (proj1 H). Qed.\n")
        ut, un = uniq_block(GC_SUBSTANCES, "map c_id chems", kind_exceptions)
        t += ut
        write(os.path.join(outdir, mod + ".v"), t)
        phase2.append(mod)
        checks[mod] = {"what": "gc substances", "file": GC_SUBSTANCES, "obligations": 2 + un}
        for table in HOMO_TABLES:
            if table not in listing:
                continue
            mod = "G_" + modname(table)
            t = HEAD + req([D(GC_SUBSTANCES), D(table)]) + "Definition chems := %s.data.\nDefinition table := %s.data.\n" % (D(GC_SUBSTANCES), D(table))
            t += ('Eval vm_compute in ("GC", %s, map (fun c => match assemble table c with\n'
                  '  | Some h => Some (let q x := let y := Qred x in (Qnum y, Zpos (Qden y)) in (q (h_m h), q (h_s3 h / h_m h)%%Q, q (h_e h / h_m h)%%Q, q (h_mw h), h_polar h))\n'
                  '  | None => None end) chems).\n' % cstr(table))
            t += 'Eval vm_compute in ("BADREC", %s, map c_name (filter (fun c => negb (gc_okb table c)) chems)).\n' % cstr(table)
            t += "Lemma check : forallb (gc_okb table) chems = true.\nProof. vm_compute. reflexivity. Qed.\n"
            t += "Theorem shipped_ok : Forall (gc_ok table) chems.\nProof. exact (gc_all_sound _ _ check). Qed.\n"
            write(os.path.join(outdir, mod + ".v"), t)
            phase2.append(mod)
            checks[mod] = {"what": "gc assembly (homosegmented)", "file": table, "obligations": 2}
        for table in HETERO_TABLES + [JOBACK_TABLE]:
            if table not in listing:
                continue
            mod = "G_" + modname(table)
            t = HEAD + req([D(GC_SUBSTANCES), D(table)]) + "Definition chems := %s.data.\nDefinition ids := seg_ids %s.data.\n" % (D(GC_SUBSTANCES), D(table))
            t += 'Eval vm_compute in ("BADREC", %s, map c_name (filter (fun c => negb (chem_okb ids c)) chems)).\n' % cstr(table)
            t += "Lemma check : forallb (chem_okb ids) chems = true.\nProof. vm_compute. reflexivity. Qed.\n"
            t += "Theorem shipped_ok : Forall (chem_ok ids) chems.\nProof. exact (chem_all_sound _ _ check). Qed.\n"
            write(os.path.join(outdir, mod + ".v"), t)
            phase2.append(mod)
            checks[mod] = {"what": "gc assembly (structural)", "file": table, "obligations": 2}
    if GC_SUBSTANCES in listing and JOBACK_TABLE in listing:
        mod = "J_" + modname(JOBACK_TABLE)
        t = HEAD + req([D(GC_SUBSTANCES), D(JOBACK_TABLE)]) + "Definition chems := %s.data.\nDefinition table := %s.data.\n" % (D(GC_SUBSTANCES), D(JOBACK_TABLE))
        t += "Definition grid : list Q := %s.\nDefinition cmp_grid : list Q := %s.\n" % (IG_GRID_COQ, IG_CMP_COQ)
        t += ('Eval vm_compute in ("IGJ", %s, map (fun c => (c_name c, match joback_coefs table c with\n'
              '  | Some cs => Some (map (fun x => %s (Qred x)) cs, %s (Qred (ig_log %s cs)), map (fun t => (%s (ig_ratR %s %s cs t), %s (cpR cs t))) cmp_grid)\n'
              '  | None => None end)) chems).\n' % (cstr(JOBACK_TABLE), QP, QP, JOBACK_R, QP, JOBACK_R, IG_T0, QP))
        t += 'Eval vm_compute in ("BADREC", %s, map c_name (filter (fun c => negb (joback_gc_okb grid table c)) chems)).\n' % cstr(JOBACK_TABLE)
        t += "Lemma check : forallb (joback_gc_okb grid table) chems = true.\nProof. vm_compute. reflexivity. Qed.\n"
        t += "Theorem shipped_ok : Forall (joback_gc_ok grid table) chems.\nProof. exact (joback_gc_all_sound _ _ _ check). Qed.\n"
        write(os.path.join(outdir, mod + ".v"), t)
        phase2.append(mod)
        checks[mod] = {"what": "ideal-gas assembly (Joback)", "file": JOBACK_TABLE, "obligations": 2}
    if SMARTS in listing:
        tabs = [tb for tb in SMARTS_TABLES if tb in listing]
        mod = "C_" + modname(SMARTS)
        t = HEAD + req([D(SMARTS)] + [D(tb) for tb in tabs]) + "Definition groups := %s.data.\n" % D(SMARTS)
        for i, tb in enumerate(tabs):
            t += 'Eval vm_compute in ("DANGLING", %s, %d, filter (fun g => negb (memb g (seg_ids %s.data))) groups).\n' % (cstr(SMARTS), i, D(tb))
            t += "Lemma check%d : forallb (fun g => memb g (seg_ids %s.data)) groups = true.\nProof. vm_compute. reflexivity. Qed.\n" % (i, D(tb))
            t += ("Theorem shipped_ok%d : Forall (fun g => In g (seg_ids %s.data)) groups.\nProof. exact (groups_sound _ _ check%d). Qed.\n" % (i, D(tb), i))
        write(os.path.join(outdir, mod + ".v"), t)
        phase2.append(mod)
        checks[mod] = {"what": "smarts groups", "file": SMARTS, "obligations": 2 * len(tabs), "tables": tabs}
    return {"files": files, "unknown": unknown, "missing": missing, "phases": [phase0, phase1, phase2], "checks": checks}


if __name__ == "__main__":
    import sys
    r = generate(sys.argv[1], sys.argv[2])
    print(json.dumps({k: v for k, v in r.items() if k != "files"}, indent=1))
