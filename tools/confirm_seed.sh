#!/bin/bash
# Confirm a seeded change myself (coordinator tool): tools/confirm_seed.sh <ID> <k>
#  in the seeding worktree /tmp/seed/<ID>: apply seed_out/patch<k>.diff, run the repository's baseline test command
#  (cargo test --workspace --offline: must pass), run the demonstration (must FAIL), revert, run the demonstration (must PASS).
#  Writes /verif/seeded/<ID>_<k>/{patch.diff,demo.rs,meta.json,confirm.log}.
id="$1"; k="$2"; ok="${3:-$2}"   # ok: number under which the change is stored (round 2: k+2)
wt=/tmp/seed/$id; out=/verif/seeded/${id}_$ok
mkdir -p "$out"; cp "$wt/seed_out/patch$k.diff" "$out/patch.diff"; cp "$wt/seed_out/demo$k.rs" "$out/demo.rs" 2>/dev/null
[ -f "$wt/seed_out/meta$k.json" ] && cp "$wt/seed_out/meta$k.json" "$out/meta_agent.json"
export CARGO_TARGET_DIR=$wt/target CARGO_NET_OFFLINE=true
cd "$wt" || exit 2
git checkout -q -- . 2>/dev/null
demo=tests/seed_${id}_demo$k.rs
feat="all_models"; grep -q estimator "$out/demo.rs" "$out/patch.diff" 2>/dev/null && feat="all_models,estimator"
log="$out/confirm.log"; : > "$log"
git apply "$out/patch.diff" >> "$log" 2>&1 || { echo "APPLY FAILED" >> "$log"; }
echo "## baseline suite WITH the change" >> "$log"
timeout 3000 cargo test --workspace --offline --no-fail-fast 2>&1 | grep -E "^test result|FAILED|failed|error(\[|:)" | grep -v "seed_${id}_demo" >> "$log"
cp "$out/demo.rs" "$demo"
timeout 3000 cargo test --offline --features $feat --test seed_${id}_demo$k 2>&1 | grep -E "^test |^test result|error(\[|:)" > "$out/demo_with.txt"
git apply -R "$out/patch.diff" >> "$log" 2>&1
timeout 3000 cargo test --offline --features $feat --test seed_${id}_demo$k 2>&1 | grep -E "^test |^test result|error(\[|:)" > "$out/demo_without.txt"
rm -f "$demo"; git checkout -q -- . 2>/dev/null
echo "## demo WITH the change" >> "$log"; cat "$out/demo_with.txt" >> "$log"
echo "## demo WITHOUT the change" >> "$log"; cat "$out/demo_without.txt" >> "$log"
python3 - "$id" "$ok" "$out" <<'PY'
import json,sys,re
id,k,out=sys.argv[1:4]
log=open(out+"/confirm.log").read()
base=log.split("## demo WITH")[0]
suite_ok = ("test result: FAILED" not in base) and ("error" not in base.split("## baseline suite WITH the change")[-1].lower().replace("0 failed","")) and ("test result: ok" in base)
w=open(out+"/demo_with.txt").read(); wo=open(out+"/demo_without.txt").read()
demo_fails_with = "FAILED" in w or "failed" in w
demo_passes_without = ("test result: ok" in wo) and ("FAILED" not in wo)
meta={"property":id,"k":int(k),"existing_suite_passes_with_change":suite_ok,"demo_fails_with_change":demo_fails_with,"demo_passes_without_change":demo_passes_without,
      "ran":["cargo test --workspace --offline --no-fail-fast (with the change)","cargo test --offline --features ... --test seed_demo (with and without the change)"]}
try:
    a=json.load(open(out+"/meta_agent.json")); meta["summary"]=a.get("summary"); meta["needs"]=a.get("needs")
except Exception: pass
json.dump(meta,open(out+"/meta.json","w"),indent=1)
print(id,k,"suite_ok",suite_ok,"demo_fails_with",demo_fails_with,"demo_passes_without",demo_passes_without)
PY
