#!/usr/bin/env python3
"""coordinator tool: markdown table of the seeded changes (seeded/<ID>_<k>/) and which check output caught them."""
import glob, json, os, re
ROOT = os.path.dirname(os.path.dirname(os.path.abspath(__file__)))
rows = []
for d in sorted(glob.glob(os.path.join(ROOT, "seeded", "C*_*"))):
    name = os.path.basename(d)
    meta = {}
    for f in ("meta.json", "meta_agent.json"):
        try:
            meta.update({k: v for k, v in json.load(open(os.path.join(d, f))).items() if k not in meta or f == "meta.json"})
        except Exception:
            pass
    out = ""
    try:
        out = open(os.path.join(d, "check_output.txt")).read()
    except OSError:
        pass
    # one section per check that was run against the change: "== <ID> on <name>"
    secs = re.split(r"^== (C\d+) on .*$", out, flags=re.M)
    per = {}
    for i in range(1, len(secs) - 1, 2):
        per[secs[i]] = secs[i + 1]
    if not per and out:
        per[name.split("_")[0]] = out
    caught_by = [i for i, t in per.items() if re.search(r"^VIOLATION", t, re.M)]
    viol = re.findall(r"^VIOLATION.*$", out, re.M)
    what = re.findall(r"^  \((.*)$", out, re.M)
    caught = bool(viol)
    with_input = any("no-failing-input-found" not in v for v in viol)
    infra = bool(re.search(r"hygiene gate|inconsistent assumptions|library build failed|check crashed|PATCH DOES NOT APPLY|^ERROR", out, re.M))
    conf = "yes" if meta.get("existing_suite_passes_with_change") and meta.get("demo_fails_with_change") and meta.get("demo_passes_without_change") else \
           ("partly (%s/%s/%s)" % (meta.get("existing_suite_passes_with_change"), meta.get("demo_fails_with_change"), meta.get("demo_passes_without_change")))
    summ = (meta.get("summary") or "").replace("|", "/").replace("\n", " ")[:230]
    needs = (str(meta.get("needs") or "")).replace("|", "/").replace("\n", " ")[:160]
    rows.append("| %s | %s | %s | %s | %s | %s |" % (name, summ, needs, conf,
                (("**caught** by " + ", ".join(caught_by) + (" (failing input)" if with_input else " (no failing input)")) if caught else ("not run" if not out else ("no alarm (see note)" if meta.get("note") else "**missed**")))
                + (" [INFRA?]" if infra else ""),
                ((what[0][:200].replace("|", "/") if what else "") + ((" NOTE: " + meta["note"]) if meta.get("note") else ""))))
print("| seed | change | needs | confirmed (suite passes / demo fails with / passes without) | result of `bin/fv check` | first report |")
print("|---|---|---|---|---|---|")
print("\n".join(rows))
