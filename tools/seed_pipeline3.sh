#!/bin/bash
# coordinator tool, round 3: the changes patch1..2 of /tmp/seed/<ID>/seed_out are stored as seeded/<ID>_6..7 (confirmation only;
# the checks are run afterwards with tools/seed_sweep_many.sh)
id="$1"; shift
ks="${@:-1 2}"
for k in $ks; do
  [ -f /tmp/seed/$id/seed_out/patch$k.diff ] || continue
  ok=$((k+5))
  /verif/tools/confirm_seed.sh $id $k $ok > /verif/seeded/.${id}_$ok.confirm 2>&1
done
