#!/bin/bash
# coordinator tool: re-run the checks against stored seeded changes and refresh seeded/<name>/check_output.txt
#   tools/seed_sweep.sh <name> [<ID> ...]      (default: the property of the seed; extra IDs for cross-property catches)
name="$1"; shift
id="${name%%_*}"
ids="${@:-$id}"
cd /verif
tools/try_patch.sh sw$name /verif/seeded/$name/patch.diff $ids > /verif/seeded/$name/check_output.txt 2>&1
echo "$name: $(grep -cE '^VIOLATION' seeded/$name/check_output.txt) violation lines; $(grep -E '^(OK|PATCH|ERROR)' seeded/$name/check_output.txt | head -2 | tr '\n' ' ')"
