"""C08 — independent implementations of the same model agree.  DESIGN.md section 5, C08.

Deciding obligations:
  * generic containers (enum over all models, ideal-gas+residual wrapper) vs the bare model: the regenerated programs must be
    syntactically identical — `prog_eqb A B = true`, hence equal for ALL states (C08_identical_programs_agree);
  * closed-form association vs iterative solver: AssocC08.v proves the closed forms solve the site-balance equations (all
    strengths and densities), in (0,1], unique for the self-associating case;
  * Peng-Robinson vs the textbook closed form: PRTextbookC08.v proves (all states) that the coded Helmholtz energy differentiates to the
    textbook pressure; per sampled state an `interval` goal ties the pressure the State layer reports in Pa to the textbook formula
    in SI molar quantities (R = k_B N_A, a_i, b_i, kappa_i, alpha_i(T), mixing rules with k_ij), 1e-9 relative;
  * every other pair is first given to the verified AC-canonicaliser (coq/theories/Canon.v, C08_canonical_programs_agree): the
    outputs (contributions) it identifies are equal for ALL states by theorem — on this tree the hard-sphere and hard-chain
    contributions of ePC-SAFT without ions vs PC-SAFT (EXPECT_CANON; losing one is a violation); the remaining code paths differ by
    more than associativity/commutativity (distributed sums, constants folded in f64) and stay a labelled test;
  * every other pair (functional vs equation of state, ePC-SAFT without ions vs PC-SAFT, SAFT-VRQ Mie FH0 vs SAFT-VR Mie):
    LABELLED TEST, not a theorem for all states — value and all first derivatives of both regenerated programs are enclosed
    by the verified multi-precision evaluator at sampled states; the enclosures must agree within the pair's tolerance
    (enclosures that are disjoint beyond it prove a difference at that state, which is then the replay).
"""
import math
import os
from fractions import Fraction
import vplib as V

PROP_FILES = [os.path.join(V.PROPS, "C08.v")]
# relative tolerance of the enclosure comparison per pair: round-off free, so tight, except where the two code paths
# contain different numerical methods (quadrature / iteration to a tolerance)
TOL_DEFAULT = 1e-12
TOL = {
    "saftvrqmie_fh0_vs_saftvrmie_monomer": 1e-5,        # different hard-sphere diameter quadratures
    "association_closed_form_vs_iterative_water_2B": 1e-7,  # iterative solver converged to 1e-10
    "association_closed_form_vs_iterative_donor_acceptor": 1e-7,
    "association_closed_form_vs_iterative_csite": 1e-7,
}
F64_RTOL = 1e-5
# outputs that the canonicaliser must prove equal for all states
EXPECT_CANON = {"epcsaft_noions_vs_pcsaft_alkanes": ["Hard Sphere", "Hard Chain"],
                "epcsaft_noions_vs_pcsaft_water": ["Hard Sphere", "Hard Chain"]}
# pairs covered by an open known finding (keyed by the finding's "needs" text): exactly these pair names
KNOWN_PAIRS = {
    "a pure substance with both a dipole and a quadrupole moment": (
        "pcsaft_functional_wb_vs_eos_pure_dipole_quadrupole_one_molecule",
        "pcsaft_functional_aswb_vs_eos_pure_dipole_quadrupole_one_molecule"),
    "a mixture of two quadrupolar components with different sigma": ("pcsaft_functional_wb_vs_eos_quadrupolar_mixture",),
    "the non-default option dq_variant = DQ44 with a dipolar and a quadrupolar component": ("pcsaft_functional_wb_vs_eos_dq44",),
}


def by_prog(tags, key):
    d = {}
    for item in tags.get(key, []):
        if isinstance(item, tuple) and len(item) == 2 and isinstance(item[0], str) and item[0] != "unparsed":
            d[item[0]] = item[1]
    return d


def encl(v):
    if not (isinstance(v, tuple) and v and v[0] == "Some"):
        return None
    ml, el, (mu, eu) = v[1]
    lo = float(Fraction(ml) * Fraction(2) ** el)
    hi = float(Fraction(mu) * Fraction(2) ** eu)
    return (math.nextafter(lo, -math.inf), math.nextafter(hi, math.inf))


def run(ctx):
    only = ["--only", os.environ["FV_ONLY"]] if os.environ.get("FV_ONLY") else []
    impl = V.run_harness("c08", ctx, extra=only)
    gen_files = sorted(os.path.join(ctx.gen, f) for f in os.listdir(ctx.gen) if f.endswith(".v"))
    lib = V.check_props(ctx, PROP_FILES, gen_files)
    res = V.coqc_many(gen_files, ctx, timeout=2400)
    obligations, discharged = lib["obligations"], lib["discharged"]
    n_cmp = 0
    worst = {}
    samples = []
    identical = 0
    canon_rows = {}
    oracle_only = []
    for p in impl["pairs"]:
        name = p["name"]
        tol = TOL.get(name, TOL_DEFAULT)
        # (a non-finite value on one side only arrives as null: always a failure)
        f64_fail = [f for f in p["f64"]["failures"]
                    if f["a"] is None or f["b"] is None
                    or not abs(f["a"] - f["b"]) <= max(F64_RTOL, 10 * tol) * max(abs(f["a"]), abs(f["b"]))]
        if p.get("oracle_only"):
            # programs too large to regenerate on every change: plain f64 comparison at the sampled states only
            oracle_only.append(name)
            if f64_fail:
                V.violation(ctx, "%s: the two implementations differ in plain f64 at %s" % (name, f64_fail[0]["state"]),
                            {"broken": "oracle", "pair": name, "failing": f64_fail}, found_input=True)
            continue
        r = res[os.path.join(ctx.gen, name + ".v")]
        tags = V.tagged(r["out"])
        same = by_prog(tags, "SAME").get("P")
        if p["unsupported"][0] or p["unsupported"][1]:
            V.violation(ctx, "%s uses operations the lowering does not support" % name,
                        {"broken": "translator", "unsupported": p["unsupported"]}, found_input=False)
        if p["expect_identical"]:
            obligations += 1
            if r["rc"] == 0 and same is True and p["consts_identical"]:
                discharged += 1
                identical += 1
            else:
                V.violation(ctx, "%s: the container no longer evaluates the same program as the bare model "
                            "(prog_eqb = %s, constant tables identical = %s)" % (name, same, p["consts_identical"]),
                            {"broken": "gen/C08/%s.v: pair_identical" % name, "coq_error": V.coq_error(r["out"]),
                             "failing": f64_fail}, found_input=bool(f64_fail))
                continue
        elif r["rc"] != 0:
            V.violation(ctx, "coqc failed for %s" % name, {"broken": "gen/C08/%s.v" % name, "coq_error": V.coq_error(r["out"])},
                        found_input=False)
            continue
        canon_lost = []
        if p.get("canon_outputs"):
            flags = by_prog(tags, "CANON").get("P")
            names = p["canon_outputs"]
            row = dict(zip(names, flags)) if isinstance(flags, list) and len(flags) == len(names) else {}
            proved = [n for n in names if row.get(n) is True]
            if proved or name in EXPECT_CANON:
                canon_rows[name] = {"proved_equal_for_all_states": proved,
                                    "not_decided_by_the_canonicaliser": [n for n in names if row.get(n) is not True]}
            for n in EXPECT_CANON.get(name, []):
                obligations += 1
                if n in proved:
                    discharged += 1
                else:
                    canon_lost.append(n)
        ea0, eb0 = by_prog(tags, "EA0").get("P"), by_prog(tags, "EB0").get("P")
        ea1, eb1 = by_prog(tags, "EA1").get("P"), by_prog(tags, "EB1").get("P")
        bad = []
        if not p["with_derivatives"]:
            ea1 = eb1 = [[] for _ in p["states"]]
        if None in (ea0, eb0, ea1, eb1):
            V.violation(ctx, "enclosures missing for %s" % name, {"broken": "gen/C08/%s.v" % name, "coq_error": V.coq_error(r["out"])},
                        found_input=False)
            continue
        for si, st in enumerate(p["states"]):
            rows = [("A", ea0[si], eb0[si])] + [("dA/d%d" % i, ea1[si][i], eb1[si][i]) for i in range(p["nvars"] if p["with_derivatives"] else 0)]
            scale0 = None
            for (q, xa, xb) in rows:
                a, b = encl(xa), encl(xb)
                n_cmp += 1
                if a is None and b is None:
                    continue
                if a is None or b is None:
                    bad.append({"quantity": q, "state": st, "a": a, "b": b})
                    continue
                ma, mb = 0.5 * (a[0] + a[1]), 0.5 * (b[0] + b[1])
                t = tol * max(abs(ma), abs(mb)) + (a[1] - a[0]) + (b[1] - b[0])
                rel = abs(ma - mb) / (max(abs(ma), abs(mb)) + 1e-300)
                worst[name] = max(worst.get(name, 0.0), rel)
                if not abs(ma - mb) <= t:
                    bad.append({"quantity": q, "state": st, "a": list(a), "b": list(b), "relative_difference": rel, "tolerance": tol})
        if bad:
            kf = [e for e in V.load_known("C08") if name in KNOWN_PAIRS.get(e.get("key", {}).get("needs", ""), ())]
            if kf:
                V.report_known(ctx, kf[0])
                continue
            V.violation(ctx, "%s: the two implementations differ at a sampled state: %s (relative %.3g)"
                        % (name, bad[0]["quantity"], bad[0].get("relative_difference", float("nan"))),
                        {"broken": "verified enclosures of both regenerated programs (gen/C08/%s.v)" % name, "pair": name,
                         "mismatches": bad[:8], "f64_confirmation": f64_fail[:3]}, found_input=True)
        elif f64_fail:
            V.violation(ctx, "%s: the two implementations differ in plain f64 at %s" % (name, f64_fail[0]["state"]),
                        {"broken": "oracle", "pair": name, "failing": f64_fail}, found_input=True)
        elif canon_lost:
            V.violation(ctx, "%s: contributions %s of the two regenerated programs are no longer equal modulo associativity/"
                        "commutativity; no differing state found among the sampled ones" % (name, canon_lost),
                        {"broken": "gen/C08/%s.v: pair_agree (C08_canonical_programs_agree) for %s" % (name, canon_lost),
                         "canon": canon_rows.get(name)}, found_input=False)
        if len(samples) < 5:
            samples.append({"pair": name, "instructions": [p["ninstr_a"], p["ninstr_b"]], "syntactically_identical": same,
                            "state_TVN": p["states"][0] if p["states"] else None,
                            "A_enclosures": [encl(ea0[0]), encl(eb0[0])] if ea0 and eb0 else None})
    # --- Peng-Robinson: reported SI pressure vs the textbook closed form in SI (one `interval` goal per state)
    prtb = impl.get("pr_textbook", [])
    for g in prtb:
        obligations += 1
        r = res.get(os.path.join(ctx.gen, g["file"] + ".v"))
        if r is not None and r["rc"] == 0:
            discharged += 1
        else:
            V.violation(ctx, "Peng-Robinson: the pressure reported in SI units (%r Pa) is not the textbook closed form at T=%r K, "
                        "molar volume %r m^3/mol (%d components)" % (g["pressure_api_Pa"], g["state_TVN"][0], g["molar_volume_m3"], g["ncomp"]),
                        {"broken": "gen/C08/%s.v (interval goal: textbook Peng-Robinson pressure in SI)" % g["file"], "state": g,
                         "coq_error": V.coq_error(r["out"]) if r else None}, found_input=True)
    cov = {
        "obligations": obligations, "discharged": discharged,
        "peng_robinson_textbook_SI_goals": len(prtb),
        "checker_cmd": "make -C coq (coqc 8.16.1) ; coqc coq/gen/C08/<pair>.v",
        "trusted_base": V.COMMON_TRUSTED + ["Interval bigint backend at precision %d" % impl["prec"],
                                             "the list of pairs and how each member is constructed (harness/src/bin/c08.rs)"],
        "programs": 2 * (len(impl["pairs"]) - len(oracle_only)), "pairs": len(impl["pairs"]), "pairs_proved_identical": identical,
        "pairs_compared_by_enclosures_(labelled_test)": len(impl["pairs"]) - identical - len(oracle_only),
        "pairs_compared_in_plain_f64_only_(programs_too_large)": oracle_only,
        "contributions_proved_equal_for_all_states_by_canonicaliser": canon_rows,
        "disagreements_checked": n_cmp,
        "worst_relative_difference_per_pair": worst,
        "library_theorems": lib["obligations"], "library_files": lib["library_files"], "axioms_reported": lib["axioms"],
        "samples": samples,
        "rule": "pairs of code paths for one physical model; 2 (quick) / 4 (thorough) states per pair in the C01 state range; value and all "
                "first derivatives of both regenerated programs enclosed at 100 bits",
    }
    V.write_evidence(ctx, "proof", cov, [
        "only the container pairs and the association closed form are decided by theorems for all states; the other pairs are "
        "compared at sampled states (verified enclosures: a machine-checked comparison, not a proof of equality everywhere)",
        "Peng-Robinson: the derivative identity is proved for all states; the SI tie (units, constants, mixing rules) is an interval goal at sampled states",
    ])
