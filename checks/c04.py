"""C04 — pure-component phase equilibria satisfy the equilibrium conditions and are found.  DESIGN.md section 5, C04.

Deciding theorems (coq/props/C04.v over coq/theories/{PureVleC04,PureDiagramC04}.v), for an arbitrary smooth model a(rho):
  pure_t_fixed_point / pure_p_fixed_point     a reproduced pass (zero inner residual) has p_v = p_l = p and mu_v = mu_l
  pure_t_accept / pure_p_accept               the acceptance tests bound |p_v - p_l| and |mu_v - mu_l| (explicit constants)
  pure_t_returned_pressure, *_rho_linear      the returned (Newton-stepped) densities: linearised pressures equal, remainder bound
  from_states_ordered/_strict                 vapor less dense
  cascade_first_ok / cascade_ok_iff           pure_t returns the first successful start of [given; ideal gas; spinodal]
  diagram_last / _length_le / _all / _subseq / diagram_temps_strict   PhaseDiagram::pure for all npoints
Tie (route H, every run): a mirror of the loops (public State API) provides anchor values; every pass of the Coq model is evaluated with
`interval` on the exact inputs of that pass (gen/C04/pt_*.v, pp_*.v) and must enclose the anchors; the REAL iterate_pure_t (cfg hook) /
pure_p (public API) must return the result of the last pass and need exactly as many passes; from_states / cascade / diagram
temperatures are compared with `vm_compute` evaluations of the Q models (gen/C04/disc.v).
Partial (support search on the real code, not decided by proof): success for every shipped record on the grid of reduced temperatures,
conditions recomputed through independent public-API calls, T -> p -> T round trip, monotone phase diagrams.
"""
import json
import os
import vplib as V

PROP_FILES = [os.path.join(V.PROPS, "C04.v")]
FINAL_RTOL = 1e-10      # real result vs. last pass of the mirror (relative, densities and temperature)
DIA_RTOL = 1e-12        # diagram temperatures: model (exact rationals) vs. implementation
SCALE40 = float(2 ** 40)


def fkey(row, f):
    """identity of a support-search failure"""
    tr = f.get("tr")
    return (row["file"], row["index"], f["kind"] + (":" + f["init"] if f.get("init") else ""), None if tr is None else round(tr, 4))


# the default initialisation of the p-specified solve is only reached when the T-solve at that temperature succeeded:
# its known failures are keyed per record (any reduced temperature), everything else per (record, T_r)
PER_RECORD_KINDS = ("pure_p:none",)


def known_index():
    idx = {}
    for e in V.load_known("C04"):
        k = e.get("key", {})
        trs = k.get("tr")
        if trs is None:
            trs = [None]
        for tr in trs:
            idx[(k.get("file"), k.get("index"), k.get("kind"), None if tr is None else round(tr, 4))] = e
        if k.get("kind") in PER_RECORD_KINDS:
            idx[(k.get("file"), k.get("index"), k.get("kind"), "*")] = e
    return idx


def known_lookup(kidx, k):
    e = kidx.get(k)
    if e is None and k[2] in PER_RECORD_KINDS:
        e = kidx.get((k[0], k[1], k[2], "*"))
    return e


def rel(a, b):
    if a is None or b is None:
        return float("inf")
    return abs(a - b) / max(abs(b), 1e-300)


def check_pt(impl, res, ctx):
    bad_files, bad_real, n_goals, n_files, n_notes = [], [], 0, 0, 0
    worst = 0.0
    stats = {"passes": 0, "negative_branch_passes": 0, "inner_iterations_max": 0, "outcomes": {}}
    for c in impl["pt"]:
        n_files += 1
        out = res[os.path.join(ctx.gen, c["file"])]
        n_notes += len(c["notes"])
        m = c["mirror"]
        stats["passes"] += m["passes"]
        stats["negative_branch_passes"] += sum(1 for x in m["negative_branch"] if x)
        stats["inner_iterations_max"] = max([stats["inner_iterations_max"]] + m["inner_iterations"])
        stats["outcomes"][m["outcome"]] = stats["outcomes"].get(m["outcome"], 0) + 1
        case = {k: c[k] for k in ("file", "label", "T", "rho_v0", "rho_l0", "tol")}
        case["mirror"] = m
        case["real"] = c["real"]
        if out["rc"] == 0:
            n_goals += c["goals"]
        else:
            bad_files.append(dict(case, coq_error=V.coq_error(out["out"])))
        r = c["real"]
        errs = []
        if r["kind"] != m["outcome"]:
            errs.append("real iterate_pure_t ends with %r, the model run with %r" % (r["kind"], m["outcome"]))
        elif r["kind"] == "ok":
            # the pair of densities is compared as a set (a variant of the code that orders the returned phases with
            # from_states is equally accepted); that the vapor is the less dense one is required separately below
            mp = sorted([m["rho_v"], m["rho_l"]]) if None not in (m["rho_v"], m["rho_l"]) else [None, None]
            rp = sorted([r["rho_v"], r["rho_l"]])
            d = max(rel(rp[0], mp[0]), rel(rp[1], mp[1]))
            worst = max(worst, d)
            if not d <= FINAL_RTOL:
                errs.append("returned densities differ from the last pass of the model by %g (relative)" % d)
            if not (r["T_v"] == c["T"] and r["T_l"] == c["T"]):
                errs.append("returned phases are not at the specified temperature")
            if not r["cond"]["ordered"]:
                errs.append("returned vapor is not less dense than the liquid")
            ex, sh = c["real_max_iter_exact"], c["real_max_iter_one_less"]
            if ex is not None and ex["kind"] != "ok":
                errs.append("with max_iter = %d (the number of passes of the model) the real loop ends with %r" % (m["passes"], ex["kind"]))
            if sh is not None and sh["kind"] != "notconverged":
                errs.append("with max_iter = %d (one less than the model needs) the real loop ends with %r" % (m["passes"] - 1, sh["kind"]))
        if errs:
            bad_real.append(dict(case, broken=errs))
    return dict(files=n_files, goals=n_goals, notes=n_notes, bad_files=bad_files, bad_real=bad_real, worst=worst, stats=stats)


def check_pp(impl, res, ctx):
    bad_files, bad_real, n_goals, n_files, n_notes = [], [], 0, 0, 0
    worst = 0.0
    stats = {"passes": 0, "fallback_passes": 0, "outcomes": {}}
    for c in impl["pp"]:
        m = c["mirror"]
        stats["outcomes"][m["outcome"]] = stats["outcomes"].get(m["outcome"], 0) + 1
        if c.get("file") is None:
            continue
        n_files += 1
        n_notes += len(c["notes"])
        out = res[os.path.join(ctx.gen, c["file"])]
        stats["passes"] += m["passes"]
        stats["fallback_passes"] += sum(1 for x in m["fallback"] if x)
        case = {k: c[k] for k in ("file", "label", "p", "T0", "tol")}
        case["mirror"] = m
        case["real"] = c["real"]
        if out["rc"] == 0:
            n_goals += c["goals"]
        else:
            bad_files.append(dict(case, coq_error=V.coq_error(out["out"])))
        r = c["real"]
        errs = []
        if r["kind"] != m["outcome"]:
            errs.append("real pure_p ends with %r, the model run with %r" % (r["kind"], m["outcome"]))
        elif r["kind"] == "ok":
            d = max(rel(r["rho_v"], m["rho_v"]), rel(r["rho_l"], m["rho_l"]), rel(r["T"], m["T"]))
            worst = max(worst, d)
            if not d <= FINAL_RTOL:
                errs.append("returned temperature/densities differ from the last pass of the model by %g (relative)" % d)
            if r["T"] != r["T_l"]:
                errs.append("returned phases have different temperatures")
            if c["real_max_iter_exact"] not in (None, "ok"):
                errs.append("with max_iter = %d the real loop ends with %r" % (m["passes"], c["real_max_iter_exact"]))
            if c["real_max_iter_one_less"] not in (None, "notconverged"):
                errs.append("with max_iter = %d the real loop ends with %r" % (m["passes"] - 1, c["real_max_iter_one_less"]))
        if errs:
            bad_real.append(dict(case, broken=errs))
    return dict(files=n_files, goals=n_goals, notes=n_notes, bad_files=bad_files, bad_real=bad_real, worst=worst, stats=stats)


def check_disc(impl, res, ctx):
    out = res[os.path.join(ctx.gen, "disc.v")]
    tags = V.tagged(out["out"]) if out["rc"] == 0 else {}
    bad = []
    n = {"from_states": 0, "cascade": 0, "diagrams": 0, "diagram_temperatures": 0}
    classes = {}
    if out["rc"] != 0 or not all(k in tags for k in ("FS", "CASC", "DIA")):
        return dict(ok=False, error=V.coq_error(out["out"]) or "missing output", bad=[], n=n, classes=classes)
    # from_states
    fs = tags["FS"][0]
    cases = impl["from_states"]
    if len(fs) != len(cases):
        bad.append({"what": "from_states: %d model results for %d cases" % (len(fs), len(cases))})
    for m, c in zip(fs, cases):
        n["from_states"] += 1
        if (m[0], m[1]) != (c["vapor_is"], c["liquid_is"]) or not c["rho_vapor"] <= c["rho_liquid"]:
            bad.append({"what": "from_states(rho1 = %r, rho2 = %r): real (vapor, liquid) = arguments (%d, %d), model (%d, %d)"
                                % (c["rho1"], c["rho2"], c["vapor_is"], c["liquid_is"], m[0], m[1]), "case": c, "concrete": True})
    # cascade
    cs = [c for c in impl["cascade"] if "panic" not in c]
    cm = tags["CASC"][0]
    if len(cm) != len(cs):
        bad.append({"what": "cascade: %d model results for %d cases" % (len(cm), len(cs))})
    for m, c in zip(cm, cs):
        n["cascade"] += 1
        cl = "given=%s ig=%s sp=%s" % (c["given"], c["ig"], c["sp"])
        classes[cl] = classes.get(cl, 0) + 1
        if m not in c["real_matches"]:
            bad.append({"what": "pure_t cascade %s: the model returns attempt %d, the real result matches attempts %r (attempts ok: given %r, ideal gas %r, spinodal %r)"
                                % (c["label"], m, c["real_matches"], c["given"], c["ig"], c["sp"]), "case": c, "concrete": True})
    # diagrams
    ds = [d for d in impl["diagrams"] if "error" not in d]
    dm = tags["DIA"][0]
    if len(dm) != len(ds):
        bad.append({"what": "diagram: %d model results for %d cases" % (len(dm), len(ds))})
    for m, d in zip(dm, ds):
        n["diagrams"] += 1
        mt = [x / SCALE40 for x in m]
        errs = []
        if d.get("options"):
            # non-default options of the VLE solver: points may be dropped (model: solve_loop_subseq), never moved or reordered,
            # and the diagram still closes with the critical point of the default options (model: diagram_res_last_indep)
            n["diagrams_with_options"] = n.get("diagrams_with_options", 0) + 1
            j = 0
            for b in d["temps"]:
                while j < len(mt) and not abs(mt[j] - b) <= DIA_RTOL * abs(b) + 2.0 / SCALE40:
                    j += 1
                if j == len(mt):
                    errs.append("temperature %r is not (in order) one of the model temperatures" % b)
                    break
                j += 1
        elif len(d["temps"]) != d["npoints"] or len(mt) != d["npoints"]:
            errs.append("%d states (model: %d temperatures) for npoints = %d" % (len(d["temps"]), len(mt), d["npoints"]))
        else:
            for a, b in zip(mt, d["temps"]):
                n["diagram_temperatures"] += 1
                if not abs(a - b) <= DIA_RTOL * abs(b) + 2.0 / SCALE40:
                    errs.append("temperature %r, model %r" % (b, a))
                    break
        if not d["last_is_critical"]:
            errs.append("the last state is not the critical point")
        if errs:
            bad.append({"what": "PhaseDiagram::pure(%s, T_min = %r, npoints = %d%s): %s" % (d["label"], d["tmin"], d["npoints"], ", SolverOptions { %s }" % d["options"] if d.get("options") else "", "; ".join(errs)),
                        "case": {k: d.get(k) for k in ("label", "npoints", "tmin", "tc", "options")}, "model_temperatures": mt[:6], "real_temperatures": d["temps"][:6], "concrete": True})
    for d in impl["diagrams"]:
        if "error" in d:
            bad.append({"what": "PhaseDiagram::pure(%s, npoints = %d%s) fails: %s" % (d["label"], d["npoints"], ", SolverOptions { %s }" % d["options"] if d.get("options") else "", d["error"]), "case": d, "concrete": True})
    return dict(ok=True, bad=bad, n=n, classes=classes)


def check_helpers(h, tol):
    """per-component helpers vs. the pure solver on the independently built pure model (model: per_component_spec)"""
    bad = []
    for c in h["comparisons"]:
        if not c["ok"]:
            bad.append({"what": "%s: %s: helper %r, expected %r (input %s)" % (c["config"], c["what"], c.get("helper"), c.get("expected"), json.dumps(c.get("input"))), "case": c})
    worst = {"dp_stiff": 0.0, "dmu": 0.0}
    for c in h["conditions"]:
        errs = []
        for k, lim in (("dp_stiff", tol["dp_stiff"]), ("dmu", tol["dmu_over_RT"])):
            v = c.get(k)
            if v is None or not v <= lim:
                errs.append("%s = %r > %g" % (k, v, lim))
            else:
                worst[k] = max(worst[k], v)
        for k, msg in (("T_equal", "phases at different temperatures"), ("ordered", "vapor not less dense than liquid"), ("other_components_empty", "other components present"), ("T_is_spec", "not at the specified temperature")):
            if not c.get(k):
                errs.append(msg)
        vp = c.get("vapor_pressure_entry")
        if vp is not None and not abs(vp - c["p_v"]) <= h["rtol"] * abs(c["p_v"]):
            errs.append("vapor_pressure entry %r differs from the vapor pressure %r of the vle_pure_comps entry" % (vp, c["p_v"]))
        if errs:
            bad.append({"what": "%s: vle_pure_comps(%s)[%d] is not an equilibrium in the caller's model: p_v = %r, p_l = %r; %s"
                                % (c["config"], json.dumps(c["spec"]), c["component"], c["p_v"], c["p_l"], "; ".join(errs)), "case": c})
    return bad, worst


def run(ctx):
    kidx = known_index()
    krecs = sorted({"%s|%d" % (k[0], k[1]) for k in kidx})
    extra = ["--known", ";".join(krecs)] if krecs else []
    impl = V.run_harness("c04", ctx, extra=extra)
    gen_files = sorted(os.path.join(ctx.gen, f) for f in os.listdir(ctx.gen) if f.endswith(".v"))
    lib = V.check_props(ctx, PROP_FILES, gen_files)
    res = V.coqc_many(gen_files, ctx, timeout=900)
    obligations = lib["obligations"]
    discharged = lib["discharged"]
    sup = impl["support"]
    tie = impl["tie"]

    # ---- support search (partial clauses; also the oracle for broken correspondences)
    new_fail, seen_known = [], set()
    n_fail = 0
    for row in sup["rows"]:
        for f in row["res"]["failures"]:
            n_fail += 1
            k = fkey(row, f)
            e = known_lookup(kidx, k)
            if e is not None:
                seen_known.add(id(e))
                V.report_known(ctx, e)
            else:
                new_fail.append((row, f))
    observed_records = {(r["file"], r["index"]) for r in sup["rows"]}
    for k, e in kidx.items():
        if (k[0], k[1]) in observed_records and id(e) not in seen_known and ctx.full:
            ctx.notes.append("known finding not observed in this run: %s" % e["what"][:160])
    by_kind = {}
    for row, f in new_fail:
        by_kind.setdefault(f["kind"], []).append((row, f))
    for kind, fl in sorted(by_kind.items()):
        row, f = fl[0]
        V.violation(ctx, "%s #%d %s: %s" % (row["file"], row["index"], row["name"], f["what"]),
                    {"broken": "support search on the real code (success inside the stated window / equilibrium conditions recomputed through the public API / round trip / diagram)",
                     "kind": kind, "count": len(fl), "point": "%s|%d" % (row["file"], row["index"]),
                     "failing_inputs": [{"file": r["file"], "index": r["index"], "name": r["name"], "tr": x.get("tr"), "T": x.get("T"), "init": x.get("init"), "what": x["what"], "state": x.get("state")} for r, x in fl[:12]],
                     "tolerances": sup["tolerances"]}, found_input=True)
    # uv-theory pure models: "conditions whenever Ok" (success itself is not claimed for them)
    hl = impl["helpers"]
    extra_fail = []
    for row in hl["extra_rows"]:
        for f in row["res"]["failures"]:
            if f["kind"] in ("conditions", "roundtrip", "diagram_options", "panic"):
                extra_fail.append((row, f))
    if extra_fail:
        row, f = extra_fail[0]
        V.violation(ctx, "%s: %s" % (row["file"], f["what"]),
                    {"broken": "support search on the real code, uv-theory pure models (conditions whenever Ok)", "kind": f["kind"], "count": len(extra_fail),
                     "failing_inputs": [{"model": r["file"], "tr": x.get("tr"), "T": x.get("T"), "what": x["what"], "state": x.get("state")} for r, x in extra_fail[:12]]}, found_input=True)
    hbad, hworst = check_helpers(hl, sup["tolerances"])
    if hbad:
        V.violation(ctx, "per-component helper: %s (%d discrepancies)" % (hbad[0]["what"], len(hbad)),
                    {"broken": "vapor_pressure / boiling_temperature / vle_pure_comps / critical_point_pure vs PhaseEquilibrium::pure on the independently built pure model "
                               "(model PureDiagramC04.per_component: entry i = pure solver on the sub-model of component i of the SAME model, options included)",
                     "cases": hbad[:10]}, found_input=True)
    any_support_failure = bool(new_fail) or bool(extra_fail) or bool(hbad)

    # ---- tie A/B: loop bodies
    pt = check_pt(tie, res, ctx)
    pp = check_pp(tie, res, ctx)
    for name, r, what in (("pt", pt, "iterate_pure_t"), ("pp", pp, "pure_p")):
        obligations += r["files"]
        discharged += r["files"] - len(r["bad_files"])
        if r["bad_files"]:
            c = r["bad_files"][0]
            # a failing input by the property text: the real result at this start violates the conditions, or the support search found one
            cond = (c["real"].get("cond") or {})
            concrete = any_support_failure or bool(cond) and not (cond.get("dp_stiff", 1) <= sup["tolerances"]["dp_stiff"] and cond.get("dmu", 1) <= sup["tolerances"]["dmu_over_RT"] and cond.get("ordered"))
            V.violation(ctx, "the pass of %s no longer matches the model PureVleC04.v on %d of %d cases; first: %s — %s"
                        % (what, len(r["bad_files"]), r["files"], c["label"], (c["coq_error"] or "")[:200]),
                        {"broken": "correspondence gen/C04/%s_*.v (interval evaluation of the model pass vs. anchor values of the loop); the theorems pure_%s_* are about the model pass" % (name, "t" if name == "pt" else "p"),
                         "cases": r["bad_files"][:6], "support_search_found_failures": any_support_failure}, found_input=concrete)
        if r["bad_real"]:
            c = r["bad_real"][0]
            V.violation(ctx, "real %s differs from the model run on %d of %d cases; first: %s — %s" % (what, len(r["bad_real"]), r["files"], c["label"], c["broken"][0]),
                        {"broken": "correspondence: real loop (hook / public API) vs. last pass and pass count of the model run", "cases": r["bad_real"][:6]}, found_input=True)
    # ---- tie C/D/E: discrete parts
    disc = check_disc(tie, res, ctx)
    obligations += 1
    if not disc["ok"]:
        V.violation(ctx, "discrete models did not evaluate: %s" % disc["error"], {"broken": "gen/C04/disc.v", "coq_error": disc["error"]}, found_input=False)
    else:
        discharged += 1
        if disc["bad"]:
            b = disc["bad"][0]
            V.violation(ctx, "%s (%d discrepancies)" % (b["what"], len(disc["bad"])),
                        {"broken": "correspondence gen/C04/disc.v: from_states / pure_t cascade / PhaseDiagram::pure vs PureDiagramC04.v", "cases": disc["bad"][:8]},
                        found_input=bool(b.get("concrete")))

    # ---- evidence
    pts = [p for r in sup["rows"] for p in r["res"]["points"]]
    def mx(key, sub="cond"):
        vals = [p[sub][key] for p in pts if p.get(sub) and p[sub].get(key) is not None]
        return max(vals) if vals else None
    rts = [x for p in pts for x in p.get("roundtrip", []) if "dT_rel" in x]
    dias = [d for r in sup["rows"] for d in r["res"].get("diagrams", [])]
    samples = []
    for r in sup["rows"][:3]:
        if r["res"]["points"]:
            samples.append({"record": "%s #%d %s" % (r["file"], r["index"], r["name"]), "critical_point": r["res"].get("critical_point"), "first_point": r["res"]["points"][0]})
    for c in tie["pt"][:2]:
        samples.append({"iterate_pure_t_case": {k: c[k] for k in ("label", "T", "rho_v0", "rho_l0", "tol", "goals", "mirror", "real")}})
    for c in tie["pp"][:1]:
        samples.append({"pure_p_case": {k: c[k] for k in ("label", "p", "T0", "tol", "goals", "mirror", "real") if k in c}})
    cov = {
        "obligations": obligations,
        "discharged": discharged,
        "checker_cmd": "make -C coq (coqc 8.16.1, full .vo: theories/PureVleC04.v theories/PureDiagramC04.v props/C04.v) ; coqc coq/gen/C04/{pt,pp}_*.v disc.v",
        "trusted_base": [
            "Coq 8.16.1 kernel incl. the VM (vm_compute)",
            "standard-library axioms reported by Print Assumptions for the real-valued theorems (classical reals, classic, functional_extensionality_dep); the Q/list theorems are closed under the global context",
            "Interval 4.x / Flocq / Coquelicot (the `interval` tactic closes the generated pass goals)",
            "hand-written models PureVleC04.v / PureDiagramC04.v (tied to the code by the differential runs of this check, not generated from it)",
            "cfg(feos_verif) hooks verif_iterate_pure_t / verif_init_pure_{state,ideal_gas,spinodal} / verif_from_states (pure re-exports)",
            "the f64 mirror of the loops in harness/src/bin/c04/tie.rs only supplies anchor values: each pass is re-derived by `interval` from the exact inputs of that pass, and the real loop must reproduce the last pass and the pass count",
            "EoS values (p, dp/drho, dp/dT, a_res, s_res) at each iterate are numbers read from the real State API (the abstract-a theorems apply to any such model); that they are derivatives of one function a(rho) is property C01/C02's",
            "harness exact dyadic printer, python comparator and Coq-output parser",
            "floating-point round-off, NaN handling (`p_new.is_nan()` emergency brake, -0.0 in is_sign_negative) are not modelled",
        ],
        "library_theorems": lib["obligations"],
        "library_files": lib["library_files"],
        "axioms_reported": lib["axioms"],
        "iterate_pure_t": {"cases": pt["files"], "interval_goals_closed": pt["goals"], "borderline_goals_not_emitted": pt["notes"], "worst_real_vs_model_rel": pt["worst"], **pt["stats"]},
        "pure_p": {"cases": pp["files"], "interval_goals_closed": pp["goals"], "borderline_goals_not_emitted": pp["notes"], "worst_real_vs_model_rel": pp["worst"], **pp["stats"]},
        "discrete": {"compared": disc["n"], "cascade_case_classes": disc["classes"]},
        "per_component_helpers": {"comparisons": len(hl["comparisons"]), "vle_pure_comps_entries_rechecked": len(hl["conditions"]), "discrepancies": len(hbad),
                                  "worst_dp_stiff": hworst["dp_stiff"], "worst_dmu_over_RT": hworst["dmu"], "rtol": hl["rtol"],
                                  "configs": sorted({c["config"] for c in hl["comparisons"]}),
                                  "uvtheory_pure_rows": [{"model": r["file"], "T_solves_ok": len(r["res"]["points"]), "failures_(success_not_claimed)": len(r["res"]["failures"])} for r in hl["extra_rows"]]},
        "tolerances": {"model_vs_anchor_rel": tie["tolerances"]["model_vs_anchor_rel"], "real_vs_model_rel": FINAL_RTOL, "diagram_temperature_rel": DIA_RTOL, "support": sup["tolerances"]},
        "support_search": {
            "level": "exploration (partial clauses: success in the stated window, mutual inverse, monotone diagrams; not counted among obligations)",
            "catalogue_records": sup["catalogue"], "records": sup["records"], "grid": sup["grid"], "grid_saftvrqmie": sup["grid_saftvrqmie"],
            "T_solves_ok": sup["points_ok"], "failures_total": n_fail, "failures_known": n_fail - len(new_fail), "failures_new": len(new_fail),
            "worst_dp_stiff": mx("dp_stiff"), "worst_dmu_over_RT": mx("dmu"), "worst_dg_over_RT": mx("dg"),
            "roundtrips": len(rts), "worst_roundtrip_dT_rel": max([x["dT_rel"] for x in rts], default=None),
            "worst_roundtrip_dp_rel": max([x["dp_back_rel"] for x in rts if x["dp_back_rel"] is not None], default=None),
            "diagrams": len(dias), "diagram_npoints": sorted({d["npoints"] for d in dias}),
            "diagram_points_unsolved_above_0.99Tc": sum(len(d["unsolved_above_0.99Tc"]) for d in dias),
            "diagrams_with_nondefault_options": sum(len(r["res"].get("opt_diagrams", [])) for r in sup["rows"]),
            "option_variants_(max_iter,tol)": "(10,-) (8,1e-10) (-,1e-9) (30,1e-13), npoints 10, every record",
        },
        "samples": samples,
        "rule": "quick: 168 seeded records (+ the records of the known findings) x 8 reduced temperatures (5 for SAFT-VRQ Mie), 8 records with diagrams of 3/10/50(/200) points; "
                "thorough: every record of the shipped PC-SAFT / SAFT-VR Mie / SAFT-VRQ Mie pure collections x 12 (9) reduced temperatures; tie on Peng-Robinson, PeTS, SAFT-VR Mie and seeded PC-SAFT records",
    }
    V.write_evidence(ctx, "proof", cov, [
        "the Coq models are hand-written (route H); they are tied to /repo by the differential runs above on the sampled inputs",
        "success of the solvers for every shipped record and temperature, mutual inverseness of the T- and p-solves and monotonicity of p, rho_v, rho_l along a diagram are NOT decided by proof (support search only; partial)",
        "the acceptance theorems bound the mismatch of the iterate the tests were evaluated on and the pressure mismatch of the returned iterate (Newton remainder); the chemical-potential mismatch of the returned iterate is covered by the support-search tolerance",
        "p-specified solves with the default initialisation are inside the property's quantifier ('or p in the corresponding range'); their failures are recorded as known findings per record",
    ])


def replay(rp):
    """re-run the failing input of a replay on the real implementation"""
    print(json.dumps({k: rp[k] for k in rp if k not in ("failing_inputs", "cases")}, indent=1)[:3000])
    pt = rp.get("point")
    if pt:
        exe = os.path.join(V.TARGET, "release", "c04")
        out_dir = os.path.join(V.GEN, "C04_replay")
        os.makedirs(out_dir, exist_ok=True)
        rc, out, _ = V.sh([exe, "--out", out_dir, "--point", pt], cwd=V.VERIF)
        r = json.load(open(os.path.join(out_dir, "impl.json")))
        row = r["support"]["rows"][0]
        print(json.dumps({"record": "%s #%d %s" % (row["file"], row["index"], row["name"]), "failures": row["res"]["failures"]}, indent=1)[:6000])
        return 1 if row["res"]["failures"] else 0
    for key in ("cases", "failing_inputs"):
        if key in rp:
            print(json.dumps(rp[key][:3], indent=1)[:6000])
    return 1
