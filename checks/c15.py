"""C15 — every shipped parameter record loads and yields a physically usable model.  DESIGN.md section 5, C15.

Deciding obligations (machine-checked, complete enumeration of the shipped data, regenerated on every run):
  coq/gen/C15/D_*.v   the records of /repo/parameters/**.json as Coq data (tools/json2coq_c15.py; exact decimals)
  P_*.v  collection_okb <record checker> data = true  (+ instantiation of C15_*_collection: positivity, NoDup names, look-up)
  S_*.v  table_okb (seg_okb exc) data = true          (segment tables; exc = recorded findings only)
  B_*.v  bin_refs_okb / pairs_distinctb / binseg_refs_okb (binary files against the collection they accompany)
  G_*.v  forallb (gc_okb table) gc_substances = true  (assembly of every gc substance from every segment table)
  C_*.v  gc substance names duplicate free; SMARTS groups are segments
Tie: harness c15 deserialises every file with the REAL serde record type of its model; its listing (ids, every number
as f64 bits) must equal the translator's listing (decimal -> f64 exactly), so the Coq data is what the implementation
saw.  The harness also runs the real loaders (look-up by name, binary look-up, gc assembly) for the replay.
Partial (exploration, never counted as obligation): critical point + saturation curve per pure record on the real code.
"""
import json
import os
import re
import struct
import sys
from fractions import Fraction

import vplib as V

sys.path.insert(0, os.path.join(V.VERIF, "tools"))
import json2coq_c15 as J  # noqa: E402

PROP_FILES = [os.path.join(V.PROPS, "C15.v")]
GC_RTOL = 1e-10          # assembled gc parameters: exact rational model vs f64 implementation (sums of <= 20 terms + cbrt)
SMARTS_FIELDS = [("group", "String"), ("smarts", "String"), ("max", "Option<usize>")]


def f64_bits(x):
    return "%016x" % struct.unpack("<Q", struct.pack("<d", x))[0]


def lit_bits(lit):
    """decimal literal -> f64 (python's float() is correctly rounded) -> bit pattern"""
    return f64_bits(float(lit))


ULP_TOL = 4   # serde_json's default float parser (feature float_roundtrip off) is not correctly rounded for long literals
ULP_STATS = {}


def num_eq(lit, b):
    """file literal vs implementation bits: equal up to ULP_TOL units in the last place (same sign)"""
    a = lit_bits(lit)
    ia, ib = int(a, 16), int(b, 16)
    if (ia >> 63) != (ib >> 63) and (ia | ib) & ((1 << 63) - 1):
        return False
    dist = abs((ia & ((1 << 63) - 1)) - (ib & ((1 << 63) - 1)))
    if dist <= ULP_TOL:
        ULP_STATS[dist] = ULP_STATS.get(dist, 0) + 1
        return True
    return False


def lit_zero(lit):
    return J.dec_pair(lit)[0] == 0


def compare_record(kind, tr, im):
    """differences between the translator's record and the implementation's record (list of text)"""
    d = []
    if kind.startswith("pure:") or kind == "chemical":
        if tr["ids"] != im["ids"]:
            d.append("identifiers differ: file %r implementation %r" % (tr["ids"], im["ids"]))
    if kind.startswith("segment:") and tr["id"] != im["id"]:
        d.append("segment identifier differs: %r vs %r" % (tr["id"], im["id"]))
    if kind.startswith("binary:") or kind == "binaryseg":
        if tr["id1"] != im["id1"] or tr["id2"] != im["id2"]:
            d.append("binary identifiers differ: %r/%r vs %r/%r" % (tr["id1"], tr["id2"], im["id1"], im["id2"]))
    if kind == "chemical":
        if tr["segments"] != im["segments"]:
            d.append("segments differ")
        n = len(tr["segments"])
        exp_bonds = tr["bonds"] if tr["bonds"] is not None else [[i, i + 1] for i in range(n - 1)]
        if exp_bonds != im["bonds"]:
            d.append("bonds differ: file %r implementation %r" % (exp_bonds, im["bonds"]))
        return d
    if kind == "smarts":
        for k in ("group", "smarts", "max"):
            if tr[k] != im[k]:
                d.append("%s differs: %r vs %r" % (k, tr[k], im[k]))
        return d
    if "mw" in im:
        if tr.get("mw") is None:
            if im["mw"] != f64_bits(0.0):
                d.append("molarweight absent in the file but implementation has bits %s" % im["mw"])
        elif not num_eq(tr["mw"], im["mw"]):
            d.append("molarweight: file %s -> %s, implementation %s" % (tr["mw"], lit_bits(tr["mw"]), im["mw"]))
    tn = {}
    for k, v in tr["nums"]:
        tn[k] = v
    inn = {k: v for k, v in im["nums"]}
    for k, b in inn.items():
        if k not in tn:
            d.append("implementation has a number at %r (bits %s) that the file does not state" % (k, b))
        elif not num_eq(tn[k], b):
            d.append("field %r: file literal %s -> f64 bits %s, implementation bits %s" % (k, tn[k], lit_bits(tn[k]), b))
    for k, v in tn.items():
        if k not in inn and not lit_zero(v):
            d.append("field %r = %s of the file is not seen by the record type (ignored or renamed field)" % (k, v))
    ts = {k: v for k, v in tr["strs"]}
    ims = {k: v for k, v in im["strs"]}
    if ts != ims:
        d.append("non-numeric leaves differ: %r vs %r" % (ts, ims))
    if im.get("key") is not None:
        for k, b in zip(("m", "sigma", "epsilon_k"), im["key"]):
            if k not in tn or not num_eq(tn[k], b):
                d.append("typed field %s: implementation bits %s, file %s" % (k, b, tn.get(k)))
    if tr.get("extra"):
        d.append("record has keys the record type does not know: %r" % tr["extra"])
    return d


def smarts_struct_fields():
    """fields of struct SmartsRecord in /repo (python-only module, mirrored in the harness)"""
    p = os.path.join(V.REPO, "feos-core/src/python/parameter/fragmentation.rs")
    try:
        src = open(p).read()
    except OSError:
        return None
    m = re.search(r"pub struct SmartsRecord\s*\{(.*?)\n\}", src, re.S)
    if not m:
        return None
    body = re.sub(r"#\[[^\]]*\]", "", m.group(1))
    return [(a, b.strip()) for a, b in re.findall(r"(\w+)\s*:\s*([^,\n]+),", body)]


def qval(p):
    return Fraction(int(p[0]), int(p[1]))


def bits_f(b):
    return struct.unpack("<d", struct.pack("<Q", int(b, 16)))[0]


def known_match(known, **key):
    for e in known:
        k = e.get("key", {})
        if all(k.get(a) == b for a, b in key.items()) and all(a in key for a in k):
            return e
    return None

IG_RTOL = 1e-12     # ln Lambda^3: |impl - exact| <= IG_RTOL * (sum of the absolute values of the terms of the expression)
CP_RTOL = 1e-12     # heat capacity computed directly vs exact polynomial
CP_STATE_RTOL = 1e-8   # heat capacity of an ideal-gas State (second derivative of A) vs the direct one
DIPPR_R = 8.31446261815324 * 1000.0
JOBACK_R = 6.022140857 * 1.38064852
QUANTITY_R = 8.31446261815324
IG_T0 = 298.15


def ig_scale(cs, t, R):
    """sum of |terms| of (h(T)-h(T0) - T (s(T)-s(T0)))/(T R) + ln T, for the tolerance"""
    import math
    a = 0.0
    for i, c in enumerate(cs):
        a += abs(c) * (t ** (i + 1) + IG_T0 ** (i + 1)) / (i + 1)
        if i >= 1:
            a += t * abs(c) * (t ** i + IG_T0 ** i) / i
    if cs:
        a += t * abs(cs[0]) * abs(math.log(t / IG_T0))
    return a / (t * R) + abs(math.log(t)) + 60.0


def check_ideal(ctx, impl, ig_model, igj_model, listing):
    """exact Coq model of the ideal-gas records vs the real models; returns statistics"""
    import math
    stats = {"ln_lambda3_comparisons": 0, "cp_comparisons": 0, "state_evaluations": 0, "joback_coefficient_comparisons": 0,
             "worst_ln_lambda3_error_over_tolerance": 0.0, "samples": []}
    ideal = impl.get("ideal") or {}
    models = ideal.get("models", {})
    for rel, m in models.items():
        if "error" in m:
            continue      # reported with the parse failure
        kind = m["kind"]
        model_rows = (ig_model if kind == "dippr" else igj_model).get(rel)
        bad = []
        if model_rows is None:
            V.violation(ctx, "exact ideal-gas model of %s was not evaluated by Coq" % rel,
                        {"broken": "correspondence: ideal-gas model", "file": rel}, found_input=False)
            continue
        trecs = listing.get(rel)
        for idx, (row, mr) in enumerate(zip(m["rows"], model_rows)):
            name = row["name"]
            if not row.get("ok"):
                bad.append({"record": name, "index": row["index"], "what": "model cannot be built", "error": row.get("error")})
                continue
            if kind == "dippr":
                logc, pts = qval(mr[1]), mr[2]
                cs = [float(v) for _, v in trecs[idx]["nums"]] if trecs else []
                R, cp_factor, state_cp_factor = DIPPR_R, 1.0, 1e-3
            else:
                body = mr[1]
                if not (isinstance(body, tuple) and body[0] == "Some"):
                    bad.append({"record": name, "index": row["index"], "what": "exact model has no coefficients (segment missing)"})
                    continue
                coefs, logc, pts = body[1][0], qval(body[1][1]), body[1][2]
                cs = [float(qval(c)) for c in coefs]
                R, cp_factor, state_cp_factor = JOBACK_R, QUANTITY_R / JOBACK_R, 1.0
                offs = [37.93, 0.21, 3.91e-4, 2.06e-7, 1e-10]
                for k, (cm, b) in enumerate(zip(cs, row["coefs"])):
                    stats["joback_coefficient_comparisons"] += 1
                    got = bits_f(b)
                    if not abs(got - cm) <= 1e-10 * (abs(cm) + offs[k]):
                        bad.append({"record": name, "index": row["index"], "what": "assembled coefficient %s" % "abcde"[k],
                                    "model": cm, "implementation": got})
            by_t = {g["t"]: g for g in row["grid"]}
            for tq, pt in zip(J.IG_CMP, pts):
                t = float(tq)
                g = by_t.get(t)
                if g is None:
                    continue
                # Coq prints ((n, d), (n2, d2)) as (n, d, (n2, d2))
                rat = Fraction(int(pt[0]), int(pt[1]))
                cpm = float(qval(pt[2])) * cp_factor
                off = math.log(t) if kind == "dippr" else math.log(t * 1.38064852e-23 / (1.0e5 * 1e-30))
                exact = float(rat) + float(logc) * math.log(t / IG_T0) + off
                got = bits_f(g["ln_lambda3"])
                tol = IG_RTOL * ig_scale(cs, t, R)
                stats["ln_lambda3_comparisons"] += 1
                err = abs(got - exact)
                if err == err and math.isfinite(got):
                    stats["worst_ln_lambda3_error_over_tolerance"] = max(stats["worst_ln_lambda3_error_over_tolerance"], err / tol)
                if not (math.isfinite(got) and err <= tol):
                    bad.append({"record": name, "index": row["index"], "what": "ln_lambda3", "temperature": t, "exact_model": exact,
                                "implementation": got, "tolerance": tol, "coefficients": cs})
                gcp = bits_f(g["cp"])
                stats["cp_comparisons"] += 1
                if not (math.isfinite(gcp) and abs(gcp - cpm) <= CP_RTOL * max(abs(cpm), 1e-300) * 10):
                    bad.append({"record": name, "index": row["index"], "what": "molar_isobaric_heat_capacity (direct)", "temperature": t,
                                "exact_model": cpm, "implementation": gcp})
                if len(stats["samples"]) < 3 and idx in (0, 7):
                    stats["samples"].append({"file": rel, "record": name, "T": t, "ln_lambda3_exact": exact, "ln_lambda3_implementation": got,
                                             "cp_exact": cpm, "cp_implementation": gcp})
            # every grid temperature: everything finite, State-level heat capacity = direct one
            for g in row["grid"]:
                stats["state_evaluations"] += 1
                vals = [bits_f(g["ln_lambda3"]), bits_f(g["cp"])] + ([bits_f(x) for x in g["state"]] if g.get("state") else [float("nan")])
                if not all(math.isfinite(x) for x in vals):
                    bad.append({"record": name, "index": row["index"], "what": "non-finite ideal-gas property", "temperature": g["t"],
                                "ln_lambda3, cp, [cp, s, h of State]": vals})
                elif not abs(vals[2] - vals[1] * state_cp_factor) <= CP_STATE_RTOL * abs(vals[2]):
                    bad.append({"record": name, "index": row["index"], "what": "State heat capacity differs from the direct one",
                                "temperature": g["t"], "state": vals[2], "direct": vals[1] * state_cp_factor})
        if bad:
            b = bad[0]
            V.violation(ctx, "ideal-gas model of %d case(s) of %s is not the exact model / not finite, first: %s of %s%s: exact %s, implementation %s"
                        % (len(bad), rel, b["what"], b["record"], (" at %s K" % b["temperature"]) if "temperature" in b else "",
                           b.get("exact_model", b.get("model")), b.get("implementation", b.get("ln_lambda3, cp, [cp, s, h of State]", b.get("error")))),
                        {"broken": "clause 'yields a physically usable model' for ideal-gas records: IdealGas::ln_lambda3 / heat capacity vs "
                                   "the exact model (IdealGasC15.v: ig_rat, ig_log, cp)", "file": rel,
                         "call": "%s -> IdealGas::ln_lambda3(T), molar_isobaric_heat_capacity(T), State::new_nvt(EquationOfState::ideal_gas(..), T, 1 m3, 1 mol)"
                                 % ("Dippr::new_pure(record)" if kind == "dippr" else "Joback::from_segments(vec![chemical record], table, None)"),
                         "failing": bad[:10], "distinct_records": sorted({x["record"] for x in bad})[:20]}, found_input=True)
    return stats


def run(ctx):
    known = V.load_known("C15")
    ULP_STATS.clear()
    impl = V.run_harness("c15", ctx)
    params_dir = os.path.join(V.REPO, "parameters")
    seg_exc = {}
    for e in known:
        k = e.get("key", {})
        if k.get("kind") == "segment_nonpositive":
            seg_exc.setdefault(k["file"], []).append(k["segment"])
    kind_exc = {}
    for e in known:
        k = e.get("key", {})
        if k.get("kind") == "identifier_duplicate":
            kind_exc.setdefault((k["file"], k["id_kind"]), []).append(k["value"])
    tr = J.generate(params_dir, ctx.gen, seg_exc, kind_exc)
    phases = [[os.path.join(ctx.gen, m + ".v") for m in ph] for ph in tr["phases"]]
    gen_files = [p for ph in phases for p in ph]
    lib = V.check_props(ctx, PROP_FILES, gen_files)
    res = {}
    for ph in phases:
        res.update(V.coqc_many(ph, ctx, timeout=900, extra_q=((ctx.gen, "C15gen"),)))

    # ---------------------------------------------------------------- classification + parsing + listing
    ifiles = {f["file"]: f for f in impl["files"]}
    tfiles = {f["file"]: f for f in tr["files"]}
    nrec = 0
    nnum = 0
    nfiles = 0
    samples = []
    per_file = []
    nonunique_by_design = []
    lookups_real = 0
    for rel in sorted(set(ifiles) | set(tfiles)):
        fi, ft = ifiles.get(rel), tfiles.get(rel)
        if fi is None or ft is None or fi["kind"] in ("unknown", "missing") or ft["kind"] == "unknown":
            V.violation(ctx, "parameter file %s has no record type assigned / is missing (harness: %s, translator: %s)"
                        % (rel, fi and fi["kind"], ft and ft["kind"]),
                        {"broken": "file classification", "file": rel, "harness": fi and fi["kind"], "translator": ft and ft["kind"]},
                        found_input=True)
            continue
        if fi["kind"] != ft["kind"]:
            V.violation(ctx, "harness and translator disagree on the record type of %s" % rel,
                        {"broken": "file classification", "file": rel, "harness": fi["kind"], "translator": ft["kind"]}, found_input=False)
            continue
        kind = fi["kind"]
        if kind == "excluded":
            per_file.append({"file": rel, "kind": kind, "bytes": fi.get("bytes")})
            continue
        nfiles += 1
        if not fi.get("parsed"):
            V.violation(ctx, "%s does not parse with the record type of its model (%s): %s" % (rel, kind, fi.get("error")),
                        {"broken": "clause 'parses with the record type of its model' (real serde type)", "file": rel, "kind": kind,
                         "error": fi.get("error"), "translator_error": ft.get("error")}, found_input=True)
            continue
        if "error" in ft:
            V.violation(ctx, "%s parses with serde but the exact reader rejects it: %s" % (rel, ft["error"]),
                        {"broken": "translator", "file": rel, "error": ft["error"]}, found_input=True)
            continue
        ir, trr = fi["data"]["records"], ft["records"]
        if len(ir) != len(trr):
            V.violation(ctx, "%s: %d records in the file, %d seen by the implementation" % (rel, len(trr), len(ir)),
                        {"broken": "correspondence: listing", "file": rel}, found_input=True)
            continue
        diffs = []
        for i, (a, b) in enumerate(zip(trr, ir)):
            dd = compare_record(kind, a, b)
            if dd:
                diffs.append({"index": i, "record": a.get("ids", a.get("id", a.get("id1"))), "differences": dd[:6]})
            nnum += len(b.get("nums", [])) + (1 if "mw" in b else 0)
        nrec += len(ir)
        per_file.append({"file": rel, "kind": kind, "records": len(ir)})
        if diffs:
            V.violation(ctx, "%s: the record type sees something else than the file states (%d records), first: %s"
                        % (rel, len(diffs), diffs[0]["differences"][0]),
                        {"broken": "correspondence: listing of the real serde types vs the translated data", "file": rel, "kind": kind,
                         "mismatches": diffs[:10]}, found_input=True)
        if len(samples) < 4 and ir and kind.startswith("pure:"):
            samples.append({"file": rel, "index": 0, "implementation": {k: ir[0][k] for k in ("ids", "mw", "key")},
                            "translated": {"mw": trr[0]["mw"], "nums": trr[0]["nums"][:4]}})
        # real look-up, every IdentifierOption (PureRecord::from_json)
        lks = fi["data"].get("lookup")
        if lks is not None:
            for idk, lk in lks.items():
                ruled = idk in J.unique_kinds(rel)
                excv = kind_exc.get((rel, idk), [])
                bad = lk.get("unreachable") or []
                if not ruled:
                    if bad or lk.get("error"):
                        nonunique_by_design.append({"file": rel, "kind": idk, "records_not_returned_for_their_own_identifier": len(bad),
                                                    "error": lk.get("error")})
                    continue
                for v in excv:
                    if any(x["identifier"] == v for x in bad):
                        V.report_known(ctx, known_match(known, kind="identifier_duplicate", file=rel, id_kind=idk, value=v))
                    else:
                        ctx.notes.append("known finding %s/%s=%r no longer observed" % (rel, idk, v))
                bad = [x for x in bad if x["identifier"] not in excv]
                lookups_real += lk.get("queried", 0)
                if lk.get("error") or bad:
                    V.violation(ctx, "%s: look-up by %s with the real loader does not return every record: %s"
                                % (rel, idk, lk.get("error") or bad[0]),
                                {"broken": "clause 'no duplicate identifiers of the kind used for lookup' (PureRecord::from_json, IdentifierOption %s)" % idk,
                                 "file": rel, "call": "PureRecord::from_json(&[identifier], file, IdentifierOption::%s)" % idk,
                                 "unreachable_records": bad[:10], "error": lk.get("error")}, found_input=True)
    # SmartsRecord mirror
    sf = smarts_struct_fields()
    if sf != SMARTS_FIELDS:
        V.violation(ctx, "struct SmartsRecord in /repo differs from the mirror used by the harness: %r" % (sf,),
                    {"broken": "tie: mirrored record type", "repo": sf, "mirror": SMARTS_FIELDS}, found_input=False)

    # ---------------------------------------------------------------- the generated obligations
    obligations = lib["obligations"]
    discharged = lib["discharged"]
    gen_obl = 0
    gen_dis = 0
    failed_checks = []
    gc_model = {}
    ig_model = {}
    igj_model = {}
    counts = {}
    for p in gen_files:
        r = res[p]
        mod = os.path.basename(p)[:-2]
        n = len(V.theorems_in(p))
        gen_obl += n
        tags = V.tagged(r["out"])
        for item in tags.get("COUNT", []):
            counts[item[0]] = item[1]
        for item in tags.get("GC", []):
            gc_model[item[0]] = item[1]
        for item in tags.get("IG", []):
            ig_model[item[0]] = item[1]
        for item in tags.get("IGJ", []):
            igj_model[item[0]] = item[1]
        if r["rc"] == 0:
            gen_dis += n
            continue
        meta = tr["checks"].get(mod, {"what": "data file", "file": mod})
        failed_checks.append(mod)
        diag = {k: tags[k] for k in ("BADREC", "DUPNAMES", "DUPKIND", "DANGLING", "BADIDS", "DUPPAIRS", "NONPOS") if k in tags}
        nonempty = {k: v for k, v in diag.items() if any((x[-1] if isinstance(x, tuple) else x) for x in v)}
        what = "obligation of %s (%s %s) does not hold: %s" % (mod, meta["what"], meta["file"], nonempty or V.coq_error(r["out"]))
        rp = {"broken": "coq/gen/C15/%s.v (%s)" % (mod, meta["what"]), "file": meta["file"], "coq_error": V.coq_error(r["out"]),
              "failing_records_by_coq": {k: str(v) for k, v in nonempty.items()}}
        # known findings: segment tables whose only failing records are recorded ones never get here (they are exceptions)
        # attach what the real loaders did
        for b in impl.get("binary_lookup", []):
            if b["file"] == meta["file"]:
                rp["real_loader"] = [x for x in b["result"].get("lookups", []) if not x.get("resolved") and
                                     all(x["kind"] in J.unique_kinds(f) and not kind_exc.get((f, x["kind"])) for f in b["collections"][x["collection"]])][:10]
                rp["call"] = "Parameter::from_multiple_json(&[([query1], file1), ([query2], file2)], Some(binary file), IdentifierOption::<kind>)"
        for t in impl.get("gc", {}).get("tables", []):
            if t.get("table") == meta["file"]:
                rp["real_loader"] = [x for x in t.get("rows", []) if not x.get("ok")][:10] or t.get("error")
        V.violation(ctx, what[:600], rp, found_input=bool(nonempty))
    obligations += gen_obl
    discharged += gen_dis
    # counts agree
    for rel, n in counts.items():
        fi = ifiles.get(rel)
        if fi and fi.get("parsed") and len(fi["data"]["records"]) != n:
            V.violation(ctx, "%s: Coq data has %d records, implementation %d" % (rel, n, len(fi["data"]["records"])),
                        {"broken": "correspondence: record count", "file": rel}, found_input=False)

    # known findings on segment tables: report the recorded ones when both Coq (NONPOS) and the implementation see them
    for rel, segs in seg_exc.items():
        fi = ifiles.get(rel)
        if not fi or not fi.get("parsed"):
            continue
        for s in segs:
            rec = [r for r in fi["data"]["records"] if r["id"] == s]
            if rec and rec[0].get("key") and any(bits_f(b) <= 0.0 for b in rec[0]["key"]):
                V.report_known(ctx, known_match(known, kind="segment_nonpositive", file=rel, segment=s))
            else:
                ctx.notes.append("known finding %s/%s no longer observed" % (rel, s))

    # ---------------------------------------------------------------- real loaders vs model
    nlook = 0
    nlook_design_unresolved = [0]
    for b in impl.get("binary_lookup", []):
        unresolved = []
        for x in b["result"].get("lookups", []):
            coll = b["collections"][x["collection"]]
            ruled = all(x["kind"] in J.unique_kinds(f) and not kind_exc.get((f, x["kind"])) for f in coll)
            if not ruled:
                if not x.get("resolved"):
                    nlook_design_unresolved[0] += 1
                continue
            nlook += 1
            if not x.get("resolved"):
                unresolved.append(x)
        mod = "B_" + J.modname(b["file"])
        if unresolved and mod not in failed_checks:   # otherwise already reported with the obligation
            x = unresolved[0]
            V.violation(ctx, "%d binary look-up(s) of %s do not return the record's own parameters with the real loader, first: record %d by %s (%s / %s): %s"
                        % (len(unresolved), b["file"], x["index"], x["kind"], x["query1"], x["query2"],
                           x.get("error") or ("dangling; loader silently returns %s instead of %s" % (x.get("got"), x.get("expected")) if x.get("dangling") else x.get("got"))),
                        {"broken": "correspondence: Parameter::from_multiple_json vs bin_refs_okb", "file": b["file"],
                         "call": "Parameter::from_multiple_json(&[([id1], file1), ([id2], file2)], Some(binary file), IdentifierOption::<kind>)",
                         "lookups": unresolved[:10]}, found_input=True)
        if "error" in b["result"]:
            V.violation(ctx, "binary look-up could not run for %s: %s" % (b["file"], b["result"]["error"]),
                        {"broken": "binary look-up", "file": b["file"], "error": b["result"]["error"]}, found_input=True)
    gc_cmp = 0
    gc_worst = 0.0
    gc_samples = []
    for t in impl.get("gc", {}).get("tables", []):
        rel = t.get("table")
        mod = "G_" + J.modname(rel)
        if "error" in t:
            if mod not in failed_checks:
                V.violation(ctx, "segment table %s could not be read for the gc assembly: %s" % (rel, t["error"]),
                            {"broken": "gc assembly", "file": rel, "error": t["error"]}, found_input=True)
            continue
        bad = [x for x in t["rows"] if not x.get("ok")]
        if bad and mod not in failed_checks:
            V.violation(ctx, "gc substance %s cannot be assembled from %s by the real code: %s" % (bad[0]["name"], rel, bad[0].get("error")),
                        {"broken": "correspondence: from_segments vs gc_okb", "file": rel, "failing": bad[:10]}, found_input=True)
        if t["kind"] == "homo" and rel in gc_model and not bad:
            model = gc_model[rel]
            gc_bad = []
            for row, mv in zip(t["rows"], model):
                if mv is None or mv == "None" or (isinstance(mv, tuple) and mv[0] == "None"):
                    continue
                vals = mv[1] if (isinstance(mv, tuple) and mv[0] == "Some") else mv
                # Coq prints ((a, b), q2, q3, q4, n) as (a, b, q2, q3, q4, n)
                m, s3, e, mw = Fraction(int(vals[0]), int(vals[1])), qval(vals[2]), qval(vals[3]), qval(vals[4])
                exp = {"m": float(m), "sigma": float(s3) ** (1.0 / 3.0) if s3 > 0 else float("nan"), "epsilon_k": float(e), "mw": float(mw)}
                for k, ev in exp.items():
                    got = bits_f(row[k])
                    gc_cmp += 1
                    rel_err = abs(got - ev) / max(abs(ev), 1e-300)
                    gc_worst = max(gc_worst, rel_err if rel_err == rel_err else float("inf"))
                    if not rel_err <= GC_RTOL:
                        gc_bad.append({"substance": row["name"], "quantity": k, "model": ev, "implementation": got})
                if len(gc_samples) < 3:
                    gc_samples.append({"table": rel, "substance": row["name"], "model": exp,
                                       "implementation": {k: bits_f(row[k]) for k in exp}})
            if gc_bad:
                g = gc_bad[0]
                V.violation(ctx, "assembled parameters of %d (substance, quantity) pairs from %s differ from the exact model, first: %s of %s: "
                            "model %.15g, implementation %.15g" % (len(gc_bad), rel, g["quantity"], g["substance"], g["model"], g["implementation"]),
                            {"broken": "correspondence: PcSaftParameters::from_segments vs assemble (RecordsC15.v)", "file": rel,
                             "call": "PcSaftParameters::from_segments(vec![chemical record], segment table, binary)", "rtol": GC_RTOL,
                             "mismatches": gc_bad[:10]}, found_input=True)

    # ---------------------------------------------------------------- ideal-gas models: exact model vs implementation
    ig_stats = check_ideal(ctx, impl, ig_model, igj_model, {f["file"]: f.get("records") for f in tr["files"] if "records" in f})

    # ---------------------------------------------------------------- support search (partial clause; exploration)
    sup = impl.get("support") or {"rows": [], "candidates": 0}
    sup_fail = 0
    default_failures = []
    for row in sup["rows"]:
        r = row["res"]
        key_base = {"file": row["file"], "name": row["name"]}
        if not r.get("ok"):
            sup_fail += 1
            V.violation(ctx, "record %s[%d] (%s): no physical critical point / saturation curve found: %s"
                        % (row["file"], row["index"], row["name"], r.get("error")),
                        {"broken": "partial clause (support search on the real code): critical point and saturation curve per record",
                         "support": {"file": row["file"], "index": row["index"], "name": row["name"]},
                         "call": "State::critical_point(eos, None, None|Some(T0), default) ; PhaseEquilibrium::pure(eos, f*Tc, None, default)",
                         "error": r.get("error")}, found_input=True)
            continue
        rr = r.get("result") or {}
        # default-initialised solver calls that failed although the model has the critical point / saturation state
        # (found by the fallback): the clause of C15 (existence) holds; the failures are robustness defects of the
        # solvers (properties C04 / C06) and are listed in the evidence, not reported as violations of C15.
        if rr.get("default_start") not in (None, "physical"):
            default_failures.append({"record": key_base, "call": "State::critical_point(eos, None, None, default)",
                                     "result": rr["default_start"], "physical_critical_point_found_from_T0": rr.get("start"), "tc": rr.get("tc")})
        for df in rr.get("vle_default_failures", []):
            default_failures.append({"record": key_base, "call": "PhaseEquilibrium::pure(eos, %.2f Tc, None, default)" % df["fraction"],
                                     "result": df["error"], "found_by_continuation_from": df["continued_from"], "temperature": df["temperature"]})
    if default_failures:
        ctx.notes.append("%d default-initialised solver calls failed but the fallback (other initial temperature / continuation) found the "
                         "critical point or saturation state: listed under support_search (observations for C04/C06, not violations of C15)"
                         % len(default_failures))

    cov = {
        "obligations": obligations,
        "discharged": discharged,
        "checker_cmd": "make -C coq (coqc 8.16.1, full .vo) ; coqc -Q coq/gen/C15 C15gen coq/gen/C15/{D,P,S,B,G,C}_*.v",
        "trusted_base": [
            "Coq 8.16.1 kernel incl. the VM (vm_compute); no axioms (all C15 theorems are closed under the global context)",
            "tools/json2coq_c15.py (exact JSON reader, decimal -> (mantissa, exponent10), emission) — validated on every run against "
            "the listing of the real serde record types: record count, identifiers and every number (decimal -> f64 bit-exact)",
            "the file -> record type table (kept twice: harness and translator, compared) and the binary-file -> collection table",
            "python's float() as the correctly rounded decimal -> binary64 conversion",
            "harness c15 (serde round trip used to list the numbers a record holds; m/sigma/epsilon_k/molarweight read from typed fields)",
            "mirror of struct SmartsRecord (pyo3-only module), compared with the source text on every run",
            "python comparator and Coq-output parser (tools/vplib.py)",
        ],
        "files": nfiles,
        "records": nrec,
        "numbers_compared": sum(ULP_STATS.values()),
        "number_tolerance": "decimal literal -> binary64 (correctly rounded) vs the f64 the record holds: <= %d ulp" % ULP_TOL,
        "numbers_bit_exact": ULP_STATS.get(0, 0),
        "numbers_by_ulp_distance_(serde_json_default_float_parser_is_not_correctly_rounded)": {str(k): v for k, v in sorted(ULP_STATS.items())},
        "generated_obligations": gen_obl,
        "generated_files": len(gen_files),
        "library_theorems": lib["obligations"],
        "library_files": lib["library_files"],
        "axioms_reported": lib["axioms"],
        "per_file": per_file,
        "binary_lookups_on_real_loader": nlook,
        "binary_lookups_by_kinds_not_unique_by_design_unresolved_(informational)": nlook_design_unresolved[0],
        "pure_lookups_on_real_loader": lookups_real,
        "identifier_kinds_required_unique": J.UNIQUE_KINDS_DEFAULT,
        "identifier_kinds_not_unique_by_design": J.UNIQUE_KINDS_EXCEPT,
        "lookups_by_kinds_not_required_unique_(informational)": nonunique_by_design,
        "gc_assembly_comparisons": gc_cmp,
        "gc_assembly_worst_relative_difference": gc_worst,
        "gc_assembly_rtol": GC_RTOL,
        "ideal_gas_models": dict(ig_stats, temperature_grid_K=J.IG_GRID, comparison_temperatures_K=J.IG_CMP,
                                 tolerances={"ln_lambda3": "%g * sum|terms|" % IG_RTOL, "cp_direct_rel": 10 * CP_RTOL, "cp_state_rel": CP_STATE_RTOL}),
        "support_search": {
            "level": "exploration (not counted among obligations)",
            "clause": "each pure PC-SAFT / SAFT-VR Mie / SAFT-VRQ Mie record has a critical point and a saturation curve with finite properties",
            "candidates": sup.get("candidates"),
            "records_tried": len(sup["rows"]),
            "failures": sup_fail,
            "temperature_fractions_of_Tc": sup.get("fractions"),
            "temperature_fractions_saftvrqmie": sup.get("fractions_saftvrqmie"),
            "excluded": "helium with second-order Feynman-Hibbs correction (as in C04)",
            "default_solver_failures_resolved_by_fallback": default_failures,
        },
        "samples": samples + gc_samples,
        "rule": "complete enumeration: every record of every *.json of the five directories (rehner2023_binary.json excluded by name)",
    }
    V.write_evidence(ctx, "proof", cov, [
        "look-up may use any IdentifierOption: cas, name, iupac_name, smiles, inchi must each be duplicate free in every pure / gc file, "
        "except (documented design) cas/iupac_name/smiles/inchi in rehner2020.json (six water parametrisations distinguished by name) and "
        "cas/smiles/inchi in the SAFT-VRQ Mie files (hydrogen spin isomers; README: use name); formula is never required unique (isomers)",
        "a binary identifier must agree on EVERY kind it states with one record of the accompanying collection",
        "positivity of m, sigma, epsilon_k is required of pure SAFT records and of segment records; of ideal-gas records only a "
        "positive molar weight where one is stated (DIPPR records carry none; the model never reads it)",
        "a binary file accompanies: gross2002_binary -> gross2001+gross2002; held2014_binary -> held2014_w_permittivity_added; "
        "aasen2020_binary -> aasen2019 and hammer2023 (each); aasen2020_binary_fh2 -> aasen2019_fh2; rehner2023_{homo,hetero}_binary -> rehner2023_{homo,hetero}",
        "ideal-gas records: usable = heat capacity positive on the grid 200..1000 K (proved on the data) and ln Lambda^3 / heat capacity of the "
        "real model equal to the exact polynomial model at 200, 450, 1000 K and finite on the whole grid (correspondence)",
        "solver convergence (critical point, saturation curve) is not decided by proof; the support search is exploration",
        "floating-point round-off of the gc assembly is not modelled (exact rationals; compared with rtol %g)" % GC_RTOL,
    ])


def replay(rp):
    """re-run the failing case of a replay on the real code"""
    print(json.dumps({k: v for k, v in rp.items() if k not in ("mismatches",)}, indent=1)[:3000])
    if "support" in rp:
        s = rp["support"]
        exe = os.path.join(V.TARGET, "release", "c15")
        out = os.path.join(V.VERIF, "build", "tmp", "c15_replay")
        os.makedirs(out, exist_ok=True)
        rc, o, _ = V.sh([exe, "--out", out, "--tier", "quick", "--support-only", "%s:%d" % (s["file"], s["index"])], cwd=V.VERIF)
        try:
            d = json.load(open(os.path.join(out, "impl.json")))
            print(json.dumps(d["support"]["rows"], indent=1)[:3000])
        except OSError:
            print(o[-2000:])
    return 0
