"""C18 — a solved density profile is a stationary point and meets its specification.  DESIGN.md section 5, C18.

Deciding theorems (coq/props/C18.v; models coq/theories/{DftSolveC18,SpecC18,SpecEvalC18}.v), for ALL stage lists,
state types, residual functions and update rules resp. ALL grid sizes, weights, Boltzmann factors and densities:
  A. flag logic of DFTSolver/call_solver: a stage reports convergence only from `res_norm < tol` on the state it
     returns; the chain's flag is the LAST stage's; `solve` is Ok iff no stage failed and (flag or debug); without debug
     Ok implies that the residual norm of the returned profile is below the last stage's tolerance.
  B. residual norm (RMS over density AND bulk residuals) is zero exactly at a stationary point and bounds every entry;
     a stationary point of the coded equations contains the specified particle numbers (Moles per segment, TotalMoles
     in total), with an exact balance / error bound at any accepted profile; ChemicalPotential leaves the bulk
     densities unchanged in every stage.  (The order/sign the code had before the fix commit is refuted by a witness.)
Tie (route H, every run):
  * `interval` goals regenerated from the REAL `DFTSpecification::calculate_bulk_density` (random inputs) and from
    `residual(false)`/`integrate_comp` of small real profiles (4-7 functionals/geometries, with and without wall cells),
  * the model `replay`ed inside Coq on the observed solver log of every real `solve` (Ok/Err, flags, iterations, names).
Direct checks on every real solve (each failure is a concrete failing input): residual after success, last log entry
  below tol, density finite and positive, particle numbers within the proved bound, bulk unchanged, probe Moles{N*}.
Support (labelled partial, convergence statements): that the chains converge at all; agreement of surface tension /
  grand potential / adsorption between Picard-, Anderson- and Newton-based chains (tolerances below).
"""
import math
import os
import re
import vplib as V

PROP_FILES = [os.path.join(V.PROPS, "C18.v")]
RES_AFTER_SLACK = 1e-4      # residual() recomputed after solve (bulk state rebuilt from rho_b) vs tol of the last stage
BULK_RTOL = 1e-10           # bulk partial densities before/after a solve with the default specification
MOLES_SLACK = 1e-6          # relative slack on the proved particle-number bound (f64 evaluation of the bound itself)
MOLES_WALL = 1e-9           # + this * N: cells where the external potential is "overwhelming" have res = 0 in residual(), so their
                            # (rho - rho_projected) cannot be read off; rho_projected there is rho_b*exp(-(50+..)/m)*bonds
                            # (observed: 1.6e-12 of N for propane, m = 2)
OBS_RTOL = {"surface_tension": 2e-6, "grand_potential": 1e-5, "interfacial_tension": 1e-4, "adsorption": 1e-5}
# calibration (pinned tree, tol 1e-11, seeds 1-3 quick + thorough): worst relative spread between chains 1.3e-7 (surface tension),
# 4.8e-7 (grand potential), 2.5e-6 (interfacial tension = Omega + pV, a difference of 5x larger numbers), 5.0e-7 (adsorption)
CROSS_RTOL = 1e-5           # surface tension of one planar system (same box and grid) across initial profiles (tanh / pDGT) AND
                            # specifications (chemical potential / fixed equimolar surface / moles_from_profile); worst seen 2.1e-7
POST_RTOL = 1e-10           # observables stored by PoreProfile / PlanarInterface vs the same quantity recomputed from the profile they hold
ENTRY_RTOL = 1e-12          # particle number fixed by an entry point vs integrate_comp of the profile it returns
TIGHT_TOL = 1e-11           # observables are compared between chains whose last stage has at most this tolerance


def num(x):
    return x if isinstance(x, (int, float)) else float("nan")


def vec(xs):
    return [num(x) for x in (xs or [])]


def failed_tags(out):
    return sorted(set(int(t) for t in re.findall(r"C18FAIL (\d+)", out)))


def model_calc_bulk(kind, n, rb, z):
    if kind == 0:
        return list(rb)
    if kind == 1:
        return [n[i] / z[i] for i in range(len(rb))]
    d = sum(r * zz for r, zz in zip(rb, z))
    return [r * n[0] / d for r in rb]


def stage_key(s):
    return {"kind": s["kind"], "log": s["log"], "max_iter": s["max_iter"], "tol": s["tol"], "damping": s.get("damping")}


def solve_key(s):
    return {"system": s["system"], "specification": ["ChemicalPotential", "Moles", "TotalMoles"][s["spec_kind"]],
            "spec_N": s["spec_N"], "chain": [stage_key(x) for x in s["stages"]], "debug": s["debug"],
            **({"entry_point": s["entry"]} if s.get("entry") else {})}


def run(ctx):
    impl = V.run_harness("c18", ctx)
    gen_files = sorted(os.path.join(ctx.gen, f) for f in os.listdir(ctx.gen) if f.endswith(".v"))
    lib = V.check_props(ctx, PROP_FILES, gen_files)
    res = V.coqc_many(gen_files, ctx, timeout=1200)
    obligations = lib["obligations"]
    discharged = lib["discharged"]
    samples = []
    solves = impl["solves"]
    by_id = {s["id"]: s for s in solves}

    def out_of(name):
        r = res.get(os.path.join(ctx.gen, name))
        return r if r else {"rc": 1, "out": "file missing"}

    # probe: Moles{N*} with N* = zero of the implementation's own (affine) bulk residual at a converged profile
    def probe_failures():
        fails = []
        for p in impl.get("probes", []):
            s = by_id[p["solve_id"]]
            if s["result"] != "Ok":
                continue
            nstar, moles = vec(p["n_star"]), vec(s["moles_seg"])
            bound = moles_bound(s)
            for i, (a, b) in enumerate(zip(moles, nstar)):
                if not abs(a - b) <= bound[i] * (1 + MOLES_SLACK) + MOLES_WALL * abs(b):
                    fails.append({"input": solve_key(s), "segment": i, "specified_N": b, "profile_contains": a,
                                  "ratio": a / b if b else None, "rho_b": s["rho_b"], "proved_bound": bound[i],
                                  "how": "converged grand-canonical profile, then specification Moles{N*} with N* the zero of "
                                         "the implementation's bulk residual: solve reports Ok"})
        return fails

    def moles_bound(s):
        """bound of SpecC18.moles_error_bound evaluated with the quantities residual() returned after the solve"""
        a = s.get("after") or {}
        ad, rbk, z = vec(a.get("int_absdiff")), vec(a.get("res_bulk")), vec(a.get("z"))
        return [ad[i] + abs(rbk[i]) * abs(z[i]) for i in range(len(ad))]

    # ------------------------------------------------------------------ Part A: calculate_bulk_density
    r = out_of("spec.v")
    ft = failed_tags(r["out"])
    n_a = sum(len(c["tags"]) for c in impl["spec_cases"])
    obligations += n_a
    discharged += n_a - len(ft) if (r["rc"] == 0 or ft) else 0
    if r["rc"] != 0 and not ft:
        V.violation(ctx, "gen/C18/spec.v does not compile: %s" % (V.coq_error(r["out"]) or r["out"][-300:]),
                    {"broken": "correspondence: calculate_bulk_density goals", "coq_error": V.coq_error(r["out"])}, found_input=False)
    for c in impl["spec_cases"]:
        bad = [t for t in c["tags"] if t in ft]
        if not c["tags"]:
            V.violation(ctx, "calculate_bulk_density returned an error / non-finite value for %s" % c,
                        {"broken": "implementation: calculate_bulk_density", "input": c}, found_input=True)
        elif bad:
            exp = model_calc_bulk(c["kind"], c["N"], c["rho_b"], c["z"])
            V.violation(ctx, "DFTSpecifications::calculate_bulk_density differs from the model (kind %d): impl %s, model %s"
                        % (c["kind"], c["impl"], exp),
                        {"broken": "correspondence: SpecC18.calc_bulk vs DFTSpecification::calculate_bulk_density (gen/C18/spec.v)",
                         "input": {k: c[k] for k in ("kind", "N", "rho_b", "z")}, "impl": c["impl"], "model": exp,
                         "property": "with this target the stationary bulk density does not give the specified particle number "
                                     "(SpecC18.spec_fixed_point needs target = N/z resp. rho_b*N/sum(rho_b z))"}, found_input=True)
    if impl["spec_cases"]:
        c = impl["spec_cases"][1 % len(impl["spec_cases"])]
        samples.append({"calculate_bulk_density": {k: c[k] for k in ("kind", "N", "rho_b", "z", "impl")}})

    # ------------------------------------------------------------------ Part B: residual / norm / moles
    n_b = 0
    el_bad = []
    for e in impl["el_cases"]:
        r = out_of(e["file"])
        ft = failed_tags(r["out"])
        tags = list(e["moles_tags"])
        for ev in e["evals"]:
            if "error" in ev:
                V.violation(ctx, "residual() failed on the small profile %s (spec kind %s): %s" % (e["name"], ev["kind"], ev["error"]),
                            {"broken": "implementation: residual()", "case": e["name"], "kind": ev["kind"]}, found_input=False)
                continue
            tags += ev["res_bulk_tags"] + [ev["norm_tag"]]
        n_b += len(tags)
        obligations += len(tags)
        if r["rc"] == 0:
            discharged += len(tags)
        elif ft:
            discharged += len(tags) - len(ft)
            what = []
            for t in ft:
                if t in e["moles_tags"]:
                    what.append("integrate_comp (particle number of segment %d)" % e["moles_tags"].index(t))
                for ev in e["evals"]:
                    if "error" in ev:
                        continue
                    if t in ev["res_bulk_tags"]:
                        what.append("res_bulk[%d] with specification kind %d (impl %s)" % (ev["res_bulk_tags"].index(t), ev["kind"], ev["res_bulk"]))
                    if t == ev["norm_tag"]:
                        what.append("res_norm with specification kind %d (impl %s)" % (ev["kind"], ev["res_norm"]))
            el_bad.append({"case": e["name"], "geometry": e["geometry"], "segments": e["segments"], "grid": e["grid"], "differs": what})
        else:
            V.violation(ctx, "gen/C18/%s does not compile: %s" % (e["file"], V.coq_error(r["out"]) or r["out"][-300:]),
                        {"broken": "correspondence: residual goals", "coq_error": V.coq_error(r["out"])}, found_input=False)
    if el_bad:
        pf = probe_failures()
        rp = {"broken": "correspondence: SpecC18.{res_bulk,res_norm,moles} vs DFTProfile::residual / integrate_comp (gen/C18/el_*.v)",
              "mismatches": el_bad}
        if pf:
            rp["failing"] = pf
        V.violation(ctx, "the Euler-Lagrange residual / bulk residual / norm of real profiles differs from the model: %s%s"
                    % (el_bad[0]["differs"][:2], "; failing input: solve reports success with %.6g particles for a specification of %.6g"
                       % (pf[0]["profile_contains"], pf[0]["specified_N"]) if pf else ""), rp, found_input=bool(pf))
    if impl["el_cases"]:
        e = impl["el_cases"][0]
        samples.append({"small_profile": {"name": e["name"], "geometry": e["geometry"], "segments": e["segments"], "grid": e["grid"],
                                          "rho_b": e["rho_b"], "evals": [{k: ev.get(k) for k in ("kind", "N", "res_bulk", "res_norm")} for ev in e["evals"]]}})

    # ------------------------------------------------------------------ Part E: specifications set by the library's entry points
    n_e = 0
    for e in impl.get("entry_cases", []):
        r = out_of(e["file"])
        ft = failed_tags(r["out"])
        n_e += len(e["tags"])
        obligations += len(e["tags"])
        want = vec(e["N_of_initial_profile"])
        got = vec(e["N_probed"])
        if e["kind"] == 2:
            want = [sum(want)]
        numeric_bad = e["kind"] != 0 and (len(got) != len(want) or any(not abs(a - b) <= ENTRY_RTOL * abs(b) for a, b in zip(got, want)))
        if not e["tags"]:
            V.violation(ctx, "calculate_bulk_density of the specification set by %s failed (%s)" % (e["entry"], e["name"]),
                        {"broken": "implementation: entry point specification", "case": e}, found_input=True)
        elif r["rc"] == 0 and not numeric_bad:
            discharged += len(e["tags"])
        elif ft or numeric_bad:
            discharged += len(e["tags"]) - len(ft)
            V.violation(ctx, "%s (%s): the specification it sets fixes N = %s, but the profile it returns contains %s particles "
                        "(the model's specification of the initial profile reproduces %d of %d probes)"
                        % (e["entry"], e["name"], got, want, len(e["tags"]) - len(ft), len(e["tags"])),
                        {"broken": "correspondence: SpecC18.{moles,total_moles}_from_profile of the initial profile vs the specification object "
                                   "set by the entry point (gen/C18/%s), probed through calculate_bulk_density" % e["file"],
                         "input": {"system": e["name"], "entry_point": e["entry"], "grid": e["grid"], "segments": e["segments"]},
                         "specified_N_(probed)": got, "N_of_the_returned_initial_profile": want,
                         "probe": {"rho_b": e["rho_b"], "z": e["z"], "calculate_bulk_density": e["probe"]},
                         "property": "a stationary point then contains the wrong number of particles: C18_total_moles_from_profile_preserved needs the "
                                     "specification of the INITIAL profile"}, found_input=bool(numeric_bad))
        else:
            V.violation(ctx, "gen/C18/%s does not compile: %s" % (e["file"], V.coq_error(r["out"]) or r["out"][-300:]),
                        {"broken": "correspondence: entry point goals", "coq_error": V.coq_error(r["out"])}, found_input=False)
    if impl.get("entry_cases"):
        e = impl["entry_cases"][1 % len(impl["entry_cases"])]
        samples.append({"entry_point": {k: e[k] for k in ("name", "entry", "kind", "grid", "N_of_initial_profile", "N_probed")}})

    # ------------------------------------------------------------------ write-back of the bulk state (component index)
    r = out_of("bulk.v")
    ft = failed_tags(r["out"])
    bulk_goals = [s for s in solves if s.get("bulk_goal")]
    n_w = sum(len(s["comp_after"]) for s in bulk_goals)
    obligations += n_w
    if r["rc"] == 0:
        discharged += n_w
    elif ft:
        discharged += n_w - len(ft)
        for sid in sorted(set(t // 16 for t in ft)):
            s = by_id[sid]
            V.violation(ctx, "the bulk state stored in the profile after a successful solve with the default specification is %s, the model "
                        "(read per segment, write back through the component index %s) gives %s (%s, chain %s)"
                        % (s["comp_after"], s["component_index"], s["comp_before"], s["system"], s["chain"]),
                        {"broken": "correspondence: SpecC18.write_back / bulk_roundtrip vs DFTProfile::solve (gen/C18/bulk.v)", "input": solve_key(s),
                         "component_index": s["component_index"], "partial_density_before": s["comp_before"], "partial_density_after": s["comp_after"],
                         "residual_of_returned_profile": (s.get("after") or {}).get("res_norm")}, found_input=True)
    else:
        V.violation(ctx, "gen/C18/bulk.v does not compile: %s" % (V.coq_error(r["out"]) or r["out"][-300:]),
                    {"broken": "correspondence: bulk write-back goals", "coq_error": V.coq_error(r["out"])}, found_input=False)

    # ------------------------------------------------------------------ Part C: replay of the solver logs
    r = out_of("replay.v")
    tags = V.tagged(r["out"])
    replays = {}
    for item in tags.get("REPLAY", []):
        if isinstance(item, tuple) and len(item) == 2 and isinstance(item[0], int):
            replays[item[0]] = item[1]
    if r["rc"] != 0:
        V.violation(ctx, "gen/C18/replay.v does not compile: %s" % (V.coq_error(r["out"]) or r["out"][-300:]),
                    {"broken": "correspondence: replay", "coq_error": V.coq_error(r["out"])}, found_input=False)
    n_replayed = 0
    unreplayable = []
    for s in solves:
        sid = s["id"]
        if not s["have_log"]:
            if s["result"] in ("Ok", "ErrNotConverged"):
                V.violation(ctx, "solve returned %s but left no solver log (%s)" % (s["result"], s["system"]),
                            {"broken": "correspondence: solver log", "input": solve_key(s)}, found_input=False)
            else:
                unreplayable.append({"input": solve_key(s), "error": s["error"]})
            continue
        obligations += 1
        m = replays.get(sid)
        if m is None:
            V.violation(ctx, "no replay result for solve %d (%s)" % (sid, s["system"]), {"broken": "correspondence: replay", "input": solve_key(s)}, found_input=False)
            continue
        n_replayed += 1
        problems = []
        ctor = m if isinstance(m, str) else m[0]
        if ctor == "RInvalid":
            problems.append("the model needs more residual evaluations than the implementation logged")
            outs, left, mres = [], None, "Invalid"
        elif ctor == "RErrNotConverged":
            outs, left, mres = m[1], m[2], "ErrNotConverged"
        else:
            outs, left, mres = m[3], m[4], "Ok"
        if ctor != "RInvalid":
            if mres != s["result"]:
                problems.append("model says %s, implementation returned %s" % (mres, s["result"]))
            if left != 0:
                problems.append("the implementation logged %d more residual evaluations than the model consumes" % left)
            # entry names per stage
            pos = 0
            names = s["log_names"]
            for st, (c, k) in zip(s["stages"], outs):
                cnt = k + 1 if c else k
                seg = names[pos:pos + cnt]
                if any(nm != st["name"] for nm in seg):
                    problems.append("log entries %d..%d are named %s, the model attributes them to stage %s" % (pos, pos + cnt, sorted(set(seg)), st["name"]))
                pos += cnt
        if problems:
            after = num((s.get("after") or {}).get("res_norm"))
            tol = s["tol_last"]
            false_success = (s["result"] == "Ok" and not s["debug"] and (tol is None or not after < tol * (1 + RES_AFTER_SLACK)))
            V.violation(ctx, "solver flag logic differs from the model for chain '%s' on %s: %s%s"
                        % (s["chain"], s["system"], "; ".join(problems),
                           " - success reported with residual %.3e (tolerance %s)" % (after, tol) if false_success else ""),
                        {"broken": "correspondence: DftSolveC18.call_solver vs DFTProfile::solve (gen/C18/replay.v)",
                         "input": solve_key(s), "implementation": {"result": s["result"], "log_names": s["log_names"][:8], "log_res": s["log_res"][:8],
                                                                  "log_len": len(s["log_res"]), "residual_after": after},
                         "model": str(m)[:400], "problems": problems}, found_input=false_success)
        else:
            discharged += 1
        if len([x for x in samples if "replay" in x]) < 3 and s["stages"]:
            samples.append({"replay": {"system": s["system"], "chain": s["chain"], "debug": s["debug"], "impl_result": s["result"],
                                       "log_entries": len(s["log_res"]), "model": str(m)[:200]}})

    # ------------------------------------------------------------------ Part D: direct checks on every solve
    n_ok = 0
    worst = {"res_after_over_tol": 0.0, "moles_rel_dev": 0.0, "moles_dev_over_bound": 0.0, "bulk_rel_change": 0.0, "min_rho": float("inf")}
    not_converged = []
    for s in solves:
        key = solve_key(s)
        # the particle number an entry point fixed (probed before the solve) is that of the initial profile it returned
        pr = vec(s.get("spec_N_probed"))
        if pr and s["spec_kind"] in (1, 2):
            want = vec(s["spec_N"])
            if len(pr) != len(want) or any(not abs(a - b) <= ENTRY_RTOL * abs(b) for a, b in zip(pr, want)):
                V.violation(ctx, "%s on %s fixes N = %s, but the initial profile it returns contains %s particles (solve then returned %s with %s particles)"
                            % (s.get("entry"), s["system"], pr, want, s["result"], [sum(vec(s["moles_seg"]))] if s["spec_kind"] == 2 else s["moles_seg"]),
                            {"broken": "implementation: the entry point does not fix the particle number of its initial profile", "input": key,
                             "specified_N_(probed)": pr, "N_of_the_initial_profile": want, "result": s["result"], "moles_after": s["moles_seg"],
                             "obs": s["obs"]}, found_input=True)
        if s["result"] != "Ok":
            if s["stages"] and s["stages"][-1]["max_iter"] >= 50 and not s["debug"]:
                not_converged.append({"input": key, "result": s["result"], "error": s["error"][:80]})
            continue
        a = s.get("after") or {}
        # what the wrapper reports after solve_inplace belongs to the profile it holds (any call history, also debug runs)
        rec = (s["obs"] or {}).get("recomputed") or {}
        for name, v2 in rec.items():
            v1 = (s["obs"] or {}).get(name)
            if not (isinstance(v1, (int, float)) and isinstance(v2, (int, float)) and abs(v1 - v2) <= POST_RTOL * max(abs(v1), abs(v2))):
                V.violation(ctx, "after a successful solve_inplace the wrapper reports %s = %r, but the profile it holds has %r (%s, chain %s%s)"
                            % (name, v1, v2, s["system"], s["chain"], "; history: " + s["history"] if s.get("history") else ""),
                            {"broken": "implementation: observables of the wrapper do not belong to the returned profile (SolveC18 wrapper model: "
                                       "C18_solve_inplace_observables_belong_to_profile)", "input": dict(key, history=s.get("history", "first solve of a fresh profile")),
                             "observable": name, "reported": v1, "recomputed_from_returned_profile": v2}, found_input=True)
        # bulk unchanged with the default specification (also for debug runs)
        if s["spec_kind"] == 0:
            for b0, b1 in zip(s["bulk_before"], vec(s["rho_b"])):
                rel = abs(b1 - b0) / abs(b0)
                worst["bulk_rel_change"] = max(worst["bulk_rel_change"], rel)
                if not rel <= BULK_RTOL:
                    V.violation(ctx, "bulk density changed from %r to %r by a solve with the default specification (%s, %s)" % (b0, b1, s["system"], s["chain"]),
                                {"broken": "implementation: bulk_unchanged", "input": key, "bulk_before": s["bulk_before"], "bulk_after": s["rho_b"]}, found_input=True)
                    break
        if s["debug"]:
            continue
        n_ok += 1
        tol = s["tol_last"]
        after = num(a.get("res_norm"))
        last = num(s["log_res"][-1]) if s["log_res"] else float("nan")
        # the norm by the model's formula (RMS over density and bulk residuals) from the arrays residual() returned
        rbk = vec(a.get("res_bulk"))
        model_norm = math.sqrt((num(a.get("sum_res_sq")) + sum(x * x for x in rbk)) / (s["segments"] * s["grid"] + s["segments"]))
        if tol is not None and not model_norm < tol * (1 + RES_AFTER_SLACK):
            V.violation(ctx, "solve reported success but the RMS of (res, res_bulk) of the returned profile is %.3e, tolerance %s (%s, chain %s)"
                        % (model_norm, tol, s["system"], s["chain"]),
                        {"broken": "implementation: success without stationarity (norm by the model's formula)", "input": key,
                         "model_norm": model_norm, "reported_norm": after, "res_bulk": rbk, "tol": tol}, found_input=True)
        if tol is None or not (after < tol * (1 + RES_AFTER_SLACK)) or not (last < tol):
            V.violation(ctx, "solve reported success but the residual of the returned profile is %.3e (last log entry %.3e), tolerance %s (%s, chain %s)"
                        % (after, last, tol, s["system"], s["chain"]),
                        {"broken": "implementation: success without stationarity", "input": key, "residual_after": after, "last_log": last, "tol": tol}, found_input=True)
        elif tol:
            worst["res_after_over_tol"] = max(worst["res_after_over_tol"], after / tol)
        mr = num(s["min_rho"])
        worst["min_rho"] = min(worst["min_rho"], mr)
        if not s["finite"] or not mr > 0:
            V.violation(ctx, "solve reported success with a non-finite or non-positive density (min %r) (%s, chain %s)" % (s["min_rho"], s["system"], s["chain"]),
                        {"broken": "implementation: positivity", "input": key, "min_rho": s["min_rho"], "finite": s["finite"]}, found_input=True)
        if s["spec_kind"] in (1, 2) and not (s["obs"] or {}).get("probe"):
            moles, n = vec(s["moles_seg"]), vec(s["spec_N"])
            bound = moles_bound(s)
            if s["spec_kind"] == 1:
                devs = [(abs(moles[i] - n[i]), bound[i], n[i], i) for i in range(len(n))]
            else:
                rbk, rb, ip = vec(a.get("res_bulk")), vec(s["rho_b"]), vec(a.get("int_proj"))
                d = sum(ip)
                b = sum(vec(a.get("int_absdiff"))) + max(abs(rbk[i] / rb[i]) for i in range(len(rb))) * abs(d)
                devs = [(abs(sum(moles) - n[0]), b, n[0], -1)]
            for dev, b, nn, i in devs:
                worst["moles_rel_dev"] = max(worst["moles_rel_dev"], dev / abs(nn))
                if b > 0:
                    worst["moles_dev_over_bound"] = max(worst["moles_dev_over_bound"], dev / b)
                if not dev <= b * (1 + MOLES_SLACK) + MOLES_WALL * abs(nn):
                    V.violation(ctx, "solve reported success but the profile contains %.9g particles instead of the specified %.9g (%s, %s, chain %s)"
                                % (sum(moles) if i < 0 else moles[i], nn, key["specification"], s["system"], s["chain"]),
                                {"broken": "implementation: specification not met", "input": key, "moles": s["moles_seg"], "specified": s["spec_N"],
                                 "deviation": dev, "proved_bound_at_this_residual": b}, found_input=True)
    for f in probe_failures() if not el_bad else []:
        V.violation(ctx, "solve reported success with %.6g particles for the specification Moles{%.6g}" % (f["profile_contains"], f["specified_N"]),
                    {"broken": "implementation: specification not met (probe)", "failing": [f]}, found_input=True)

    # ------------------------------------------------------------------ support: the same observable from different chains
    groups = {}
    for s in solves:
        if s["result"] == "Ok" and not s["debug"] and s["spec_kind"] == 0 and s["tol_last"] is not None and s["tol_last"] <= TIGHT_TOL \
                and "flag logic" not in s["system"]:
            groups.setdefault(s["system"], []).append(s)
    obs_cmp = 0
    obs_worst = {}
    for system, ss in groups.items():
        for name, rtol in OBS_RTOL.items():
            vals = []
            for s in ss:
                v = (s["obs"] or {}).get(name)
                if isinstance(v, list):
                    v = v[0] if v else None
                if isinstance(v, (int, float)):
                    vals.append((v, s["chain"]))
            if len(vals) < 2:
                continue
            obs_cmp += 1
            lo, hi = min(vals), max(vals)
            rel = (hi[0] - lo[0]) / max(abs(hi[0]), abs(lo[0]))
            obs_worst[name] = max(obs_worst.get(name, 0.0), rel)
            if not rel <= rtol:
                V.violation(ctx, "%s of %s depends on the solver chain: %r (%s) vs %r (%s), relative %.2e > %.0e"
                            % (name, system, lo[0], lo[1], hi[0], hi[1], rel, rtol),
                            {"broken": "implementation: path-independent observable differs between solver configurations", "system": system,
                             "observable": name, "values": [{"chain": c, "value": v} for v, c in vals], "rtol": rtol}, found_input=True)
        samples.append({"observables": {"system": system, "chains": [s["chain"] for s in ss], "obs": [s["obs"] for s in ss][:3]}})

    # the surface tension of one planar system must not depend on the initial profile (tanh / pDGT) or on the specification
    cross = {}
    for s in solves:
        g = (s["obs"] or {}).get("surface_tension")
        # (a per-component particle number in a MIXTURE selects another coexistence state - other bulk compositions - and is
        #  not comparable; for one component Moles and TotalMoles coincide)
        if s["result"] == "Ok" and not s["debug"] and isinstance(g, (int, float)) and s["tol_last"] is not None and s["tol_last"] <= TIGHT_TOL \
                and "flag logic" not in s["system"] and not (s["spec_kind"] == 1 and len(s["comp_after"]) > 1):
            cross.setdefault(s["system"], []).append((g, s))
    cross_worst = 0.0
    for system, vals in cross.items():
        if len(vals) < 2:
            continue
        obs_cmp += 1
        lo, hi = min(vals, key=lambda x: x[0]), max(vals, key=lambda x: x[0])
        rel = (hi[0] - lo[0]) / max(abs(hi[0]), abs(lo[0]))
        cross_worst = max(cross_worst, rel)
        if not rel <= CROSS_RTOL:
            V.violation(ctx, "surface tension of %s depends on the initial profile / specification / chain: %r (%s, %s) vs %r (%s, %s), relative %.2e > %.0e"
                        % (system, lo[0], lo[1].get("entry"), lo[1]["chain"], hi[0], hi[1].get("entry"), hi[1]["chain"], rel, CROSS_RTOL),
                        {"broken": "implementation: path-independent observable differs between initial profiles / specifications", "system": system,
                         "values": [{"entry_point": x.get("entry"), "specification": solve_key(x)["specification"], "chain": x["chain"], "surface_tension": v,
                                     "particles": x["moles_seg"]} for v, x in vals], "rtol": CROSS_RTOL,
                         "input": solve_key(lo[1] if abs(lo[0]) < abs(hi[0]) else hi[1])}, found_input=True)
    obs_worst["surface_tension_across_starts_and_specifications"] = cross_worst

    spec_solves = [s for s in solves if s["spec_kind"] in (1, 2)]
    cov = {
        "obligations": obligations,
        "discharged": discharged,
        "checker_cmd": "make -C coq (coqc 8.16.1, full .vo) ; coqc coq/gen/C18/{spec,el_*,replay}.v",
        "trusted_base": V.COMMON_TRUSTED + [
            "harness/src/bin/c18.rs: reconstruction rho_projected = res + rho (f64), weights through integrate(indicator), log parsing (GMRES entries dropped)",
            "the functional derivative / convolver / bond integrals are abstract in the model (arbitrary Boltzmann factor e)"],
        "library_theorems": lib["obligations"],
        "library_files": lib["library_files"],
        "axioms_reported": lib["axioms"],
        "calculate_bulk_density_goals": n_a,
        "small_profile_goals": n_b,
        "entry_point_goals": n_e,
        "entry_points": [{"name": e["name"], "entry": e["entry"], "grid": e["grid"], "segments": e["segments"]} for e in impl.get("entry_cases", [])],
        "bulk_write_back_goals": n_w,
        "systems": sorted(set(s["system"] for s in solves)),
        "small_profiles": [{"name": e["name"], "geometry": e["geometry"], "segments": e["segments"], "grid": e["grid"]} for e in impl["el_cases"]],
        "solves": len(solves),
        "solves_replayed_in_coq": n_replayed,
        "solves_without_log_(stage_error)": unreplayable,
        "successful_solves_checked": n_ok,
        "particle_number_specification_solves": {"total": len(spec_solves), "ok": sum(1 for s in spec_solves if s["result"] == "Ok")},
        "reduced_temperatures": {"pcsaft propane": impl.get("taus"), "pets argon": impl.get("taus_pets")},
        "tolerances": {"residual_after_vs_tol": "< tol*(1+%g)" % RES_AFTER_SLACK, "bulk_unchanged_rel": BULK_RTOL,
                       "moles": "proved bound * (1+%g) + %g N" % (MOLES_SLACK, MOLES_WALL), "observables_rel": OBS_RTOL, "surface_tension_across_starts_and_specifications_rel": CROSS_RTOL,
                       "entry_point_particle_number_rel": ENTRY_RTOL, "wrapper_observables_vs_recomputed_rel": POST_RTOL,
                       "interval goals": "calc_bulk 1e-13 rel; res_bulk 1e-9 of (|rho_b|+|target|); res_norm 1e-8 rel; moles 1e-12 rel"},
        "worst_observed": worst,
        "observable_comparisons": obs_cmp,
        "observable_worst_relative_spread": obs_worst,
        "partial_not_decided_by_proof": {
            "chains_that_did_not_converge": not_converged,
            "what": "that the iteration reaches the stopping test, positivity/finiteness of the iterates, agreement of observables between chains"},
        "samples": samples[:12],
        "rule": "3 specification variants x random inputs (calculate_bulk_density); 3 variants x small profiles (residual, norm, moles); "
                "every real solve replayed in the model; planar interfaces (PC-SAFT propane at seeded T/Tc in [0.5,0.95], PeTS argon at "
                "T/Tc in [0.85,0.95] (thorough: whole range, butane, gc-PC-SAFT), gc-PC-SAFT propane+butane mixture), tanh and pDGT starts "
                "with and without fixed equimolar surface on the same box, slit pores (PC-SAFT propane; gc-PC-SAFT propane+butane: 7 "
                "segments in 2 components), previous solution as start, 2-4 solver chains each, particle-number specifications, "
                "14 flag-logic chains; specification objects of the entry points probed on small grids",
    }
    V.write_evidence(ctx, "proof", cov, [
        "the functional derivative, convolver and bond integrals are abstracted to an arbitrary Boltzmann factor e(i,g); theorems quantify over it",
        "floating-point round-off is not modelled (real / rational semantics); comparisons against f64 use the stated tolerances",
        "convergence of the iteration, positivity of iterates and agreement of observables between solver chains are numerical statements: "
        "labelled partial, supported by the seeded runs (not decided by proof)",
        "with debug = true `solve` returns Ok without convergence (modelled and proved: C18_solve_ok_iff); the property is read for debug = false",
        "Newton stages never update the bulk densities: with a particle-number specification they end in Err(NotConverged) (no false success)",
    ])


def replay(rp):
    """re-run the harness with the tier/seed of the replay and show what the implementation does now on the named input"""
    import json
    print(json.dumps({k: rp[k] for k in rp if k not in ("mismatches",)}, indent=1)[:3000])
    inputs = [f["input"] for f in rp.get("failing", []) if "input" in f]
    if isinstance(rp.get("input"), dict) and "system" in rp["input"]:
        inputs.append(rp["input"])
    if not inputs:
        return 0
    ctx = V.Ctx("C18_replay", rp.get("tier", "quick"), rp.get("seed", 1))
    impl = V.run_harness("c18", ctx)
    for want in inputs:
        for s in impl["solves"]:
            k = solve_key(s)
            if k["system"] == want["system"] and k["chain"] == want["chain"] and k["debug"] == want["debug"] and k["specification"] == want["specification"]:
                a = s.get("after") or {}
                print("now on the implementation: %s | %s | result %s | residual of the returned profile %s (tolerance %s) | particles %s, specified %s | min density %s"
                      % (s["system"], s["chain"], s["result"], a.get("res_norm"), s["tol_last"], s["moles_seg"], s["spec_N"], s["min_rho"]))
    return 0
