"""C06 — critical points and spinodals satisfy their defining conditions.  DESIGN.md section 5, C06.

Deciding theorems (coq/props/C06.v over coq/theories/{CritC06,PengRobinsonC06}.v):
  crit_pure_equiv / spinodal_pure_equiv      objective of critical_point_objective / spinodal_objective (one component, as coded)
                                             = 0  <=>  dp/dV = d2p/dV2 = 0  /  dp/dV = 0     (only C02 homogeneity + smoothness)
  dp_dv_q11 / d2p_dv2_c3 / q11_tie / c3_tie  the quantitative relations the correspondence check evaluates
  eig2_correct                               the 2x2 Jacobi step returns the smallest eigenvalue and a unit eigenvector
  crit_obj_scale / crit_obj_p_third / ig_third   (T)-variant at V = 1, (p)-variant residual = p_spec - p, ideal part
  newton_loop_accept / hkm_accept / hkm_limit_bound   only iterates that passed the stopping test are returned
  pr_critical_point_exact / pr_coded_critical_point / pr_rounded_deviation   Peng-Robinson
Tie (route H, every run): the hooked private objectives run at random states; `interval` goals compare them with the
model fed with public-API derivatives (dp_dv, d2p_dv2, dmu_dni, pressure, Dual3 third derivatives of the public generic
residual_helmholtz_energy); the Peng-Robinson critical point returned by State::critical_point is compared with the
closed form of PengRobinsonC06.v.
Partial (support search, not decided by proof): every critical point / spinodal the real solvers return (shipped
records, literal configurations, binary mixtures, random Peng-Robinson triples) is re-checked through independent
public-API calls: q = -dp_dv V/(rho T), c = d2p_dv2 V^2/(rho T) - 3q, p > 0, eigenvalue / third derivative for
mixtures, T or p reproduced, spinodals bracket rho_c and lie inside the binodal, PR (Tc, pc) to 1e-4.
Round 3: PhaseDiagram::spinodal from 0.5 Tc for every record of gross2001 / lafitte2013 (thorough: five PC-SAFT files) —
each stored pair re-checked and compared with State::spinodal at the same temperature; Peng-Robinson mixtures with random
non-zero k_ij: the critical point of every one-component subset (eos.subset(&[i]), State::critical_point_pure) is the
(Tc, pc) of record i (search + interval goals against pr_coded_critical_point's closed form); critical_point_pure of
PC-SAFT mixtures with k_ij vs the separately built pure models.
"""
import os
import re
import vplib as V

PROP_FILES = [os.path.join(V.PROPS, "C06.v")]


def known_keys():
    ks = []
    for e in V.load_known("C06"):
        k = e.get("key", {})
        ks.append((e, k.get("kind"), k.get("collection"), k.get("record"), k.get("start")))
    return ks


def match_known(f, ks):
    key = f["key"]
    for (e, kind, coll, rec, start) in ks:
        if kind == f["kind"] and coll == key.get("collection") and rec == key.get("record") and start == key.get("start"):
            return e
    return None


def failing_goal(out, goals):
    m = re.search(r'line (\d+), characters', out)
    if not m:
        return None
    ln = int(m.group(1))
    for g in goals:
        if g["line_from"] <= ln <= g["line_to"]:
            return g
    return None


ROW = re.compile(r"^\s*(\d+) \|\s*([0-9.]+e[-+]?\d+) \|")
CONV = re.compile(r"converged in (\d+) step")


def acceptance_from_log(text):
    """tables printed by the solvers at Verbosity::Iter: the iteration reported as converged must be the first one whose
    logged residual norm is below the tolerance (model: newton_loop / newton_loop_accept)"""
    import json as _json
    bad, tables, accepted = [], 0, 0
    cur = None
    rows = {}

    def close(conv):
        nonlocal tables, accepted, rows
        if cur is None or not rows:
            rows = {}
            return
        tables += 1
        tol = cur["tol"]
        early = [i for i in sorted(rows) if rows[i] < tol and (conv is None or i < conv)]
        if conv is not None:
            accepted += 1
            if conv not in rows or not rows[conv] < tol or early:
                bad.append({"call": cur, "converged_at": conv, "residuals": [rows[i] for i in sorted(rows)], "tol": tol})
        elif early:
            bad.append({"call": cur, "converged_at": None, "residuals": [rows[i] for i in sorted(rows)], "tol": tol})
        rows = {}

    for line in text.splitlines():
        if line.startswith("C06LOG begin "):
            cur = _json.loads(line[len("C06LOG begin "):])
            rows = {}
        elif line.startswith("C06LOG end"):
            close(None)
            cur = None
        elif cur is not None:
            if line.startswith(" iter |"):
                close(None)
                continue
            m = ROW.match(line)
            if m:
                rows[int(m.group(1))] = float(m.group(2))
                continue
            m = CONV.search(line)
            if m:
                close(int(m.group(1)))
    return tables, accepted, bad


def run(ctx):
    impl = V.run_harness("c06", ctx)
    try:
        log_text = open(os.path.join(ctx.logs, "harness_c06.log")).read()
    except OSError:
        log_text = ""
    acc_tables, acc_accepted, acc_bad = acceptance_from_log(log_text)
    gen_files = sorted(os.path.join(ctx.gen, f) for f in os.listdir(ctx.gen) if f.endswith(".v"))
    lib = V.check_props(ctx, PROP_FILES, gen_files)
    res = V.coqc_many(gen_files, ctx, timeout=1200)
    obligations = lib["obligations"]
    discharged = lib["discharged"]
    search = impl["search"]
    fails = search["failures"]
    ks = known_keys()
    unknown = []
    for f in fails:
        e = match_known(f, ks)
        if e is not None:
            V.report_known(ctx, e)
        else:
            unknown.append(f)

    # ---- correspondence goals
    goal_stats = {}
    samples = []
    mism = []
    for gf in impl["goal_files"]:
        path = os.path.join(ctx.gen, gf["file"])
        r = res.get(path)
        goals = gf["goals"]
        obligations += len(goals)
        kind = gf["file"].split("_")[0] + "_" + gf["file"].split("_")[1] if gf["file"].startswith("obj") else "pr"
        st = goal_stats.setdefault(kind, {"goals": 0, "discharged": 0})
        st["goals"] += len(goals)
        if r is not None and r["rc"] == 0:
            discharged += len(goals)
            st["discharged"] += len(goals)
            if len(samples) < 6 and goals:
                g = dict(goals[0])
                g.pop("line_from", None), g.pop("line_to", None)
                samples.append({"file": gf["file"], "goal": g})
            continue
        out = r["out"] if r else "not compiled"
        bad = failing_goal(out, goals)
        if bad is not None:
            n_ok = sum(1 for g in goals if g["line_to"] < bad["line_from"])
            discharged += n_ok
            st["discharged"] += n_ok
        mism.append({"file": gf["file"], "goal": bad, "coq_error": V.coq_error(out)})

    # ---- verdicts
    by_kind = {}
    for f in unknown:
        by_kind.setdefault(f["kind"], []).append(f)
    for kind, fl in sorted(by_kind.items()):
        V.violation(ctx, "%s: %d returned state(s) violate the defining conditions, e.g. %s %s"
                    % (kind, len(fl), fl[0]["key"], {k: fl[0]["detail"][k] for k in list(fl[0]["detail"])[:6]}),
                    {"broken": "support search: defining conditions recomputed through the public API at a state the real solver returned",
                     "kind": kind, "failing": fl[:20], "count": len(fl)}, found_input=True)
    for m in mism:
        g = m["goal"] or {}
        what = ("correspondence goal failed in %s: hooked objective (%s, %s) and the model of CritC06.v/PengRobinsonC06.v disagree at %s"
                % (m["file"], g.get("kind"), g.get("variant", g.get("component")),
                   {k: g.get(k) for k in ("config", "T", "rho", "N", "pspec", "key") if k in g}))
        # the property is about returned states: a concrete failing input exists if the search found one in this run
        V.violation(ctx, what, {"broken": "correspondence: gen/C06/%s" % m["file"], "goal": g, "coq_error": m["coq_error"],
                                "failing_returned_states": unknown[:5]}, found_input=bool(unknown))

    if acc_bad:
        b = acc_bad[0]
        V.violation(ctx, "stopping rule: %d iteration table(s) where the iteration reported as converged is not the first with residual norm < tol, e.g. %s converged at %s with residuals %s (tol %g)"
                    % (len(acc_bad), b["call"], b["converged_at"], b["residuals"][-3:], b["tol"]),
                    {"broken": "correspondence: Verbosity::Iter log vs newton_loop (newton_loop_accept / hkm_accept)", "failing": acc_bad[:10]},
                    found_input=True)
    if acc_tables == 0:
        V.violation(ctx, "no iteration tables found in the harness log", {"broken": "correspondence: Verbosity::Iter log"}, found_input=False)

    stats = search["stats"]
    cov = {
        "obligations": obligations,
        "discharged": discharged,
        "checker_cmd": "make -C coq (coqc 8.16.1, full .vo) ; coqc coq/gen/C06/{obj_pure_*,obj_bin_*,pr_triples}.v",
        "trusted_base": V.COMMON_TRUSTED + [
            "hook State::verif_critical_point_objective{,_t,_p} / verif_spinodal_objective (cfg feos_verif): real parts of the private objectives at f64 arguments",
            "num_dual's DualSVec/HyperDual/Dual3 arithmetic and jacobi_eigenvalue are modelled (eig2 = one Jacobi rotation for n = 2), not verified",
            "third-derivative tensor of the correspondence comes from the public generic residual_helmholtz_energy over Dual3 (polarisation of four directions)",
        ],
        "library_theorems": lib["obligations"],
        "library_files": lib["library_files"],
        "axioms_reported": lib["axioms"],
        "correspondence_goals": goal_stats,
        "tolerances": impl["tolerances"],
        "acceptance_log": {"iteration_tables": acc_tables, "converged": acc_accepted, "mismatches": len(acc_bad),
                           "rule": "converged at iteration k <=> k is the first iteration whose logged residual norm is < tol (tol = default 1e-8, 1e-6, 1e-10)"},
        "support_search": {"level": "exploration", "stats": stats, "failures": len(fails), "known": len(fails) - len(unknown),
                           "ranges": "initial temperatures 0.5..1.6 (grid step 0.1) of the true critical temperature + default start; "
                                     "spinodal temperatures in [0.5,0.99] Tc; PhaseDiagram::spinodal from 0.5 Tc (6 / 11 points); Peng-Robinson Tc in [100,900] K, pc in [5,200] bar, omega in [-0.1,1]; Peng-Robinson mixtures n = 2,3 with k_ij in [-0.15,0.15]"},
        "samples": samples + search["samples"][:8],
        "rule": "interval goals: hooked objectives vs model at random (T,rho[,N]) per configuration; "
                "support search: every returned critical point / spinodal re-checked with dp_dv, d2p_dv2, dmu_dni, pressure",
    }
    V.write_evidence(ctx, "proof", cov, [
        "convergence of the Newton iterations (that a state is returned at all) is not decided by proof; non-converged calls are counted, not reported",
        "the returned unknowns are the accepted iterate plus one limited Newton step (hkm_accept): the defining conditions at the returned state itself are supported by the search (|q|,|c| <= 1e-6), not proved",
        "'bracket the critical density' and 'inside the binodal' are global properties of the isotherm: support search only",
        "eigenpair model for n = 2 only; n >= 3 mixtures are not modelled",
        "floating-point round-off is not modelled (real semantics); tolerances in coverage.tolerances",
    ])
