"""C14 — parameter construction is order-independent and faithful to its records.  DESIGN.md section 5, C14.

Deciding obligations (machine-checked): the theorems of coq/props/C14.v about the executable models
  ParamLookup.v (from_json / from_multiple_json / binary matrix / new_binary / subset),
  Segments.v    (segment & bond counts, PC-SAFT combining rules, k_ij average, gc segment-pair lookup),
  ParamSerde.v  (serde shape: flatten / skip-if-zero / default).
Tie (route H, every run): harness/src/bin/c14.rs writes JSON parameter files into a scratch directory, calls the REAL
Parameter::{from_json, from_multiple_json, from_records, new_binary, subset, records, from_segments, from_json_segments},
ParameterHetero::from_json_segments and serde_json on them and emits the same cases as Coq data; the models are
evaluated inside Coq (vm_compute) and every case is compared: ids / orders / error kinds / missing sets / k_ij
(dyadic) exactly, group-contribution sums with relative tolerance 1e-13.
"""
import json
import os
from fractions import Fraction

import vplib as V

PROP_FILES = [os.path.join(V.PROPS, "C14.v")]
RTOL = 1e-13           # group-contribution sums (HashMap-order float summation)
MODELS_KEEP_NONE = {"pcsaft": True, "saftvrmie": True, "pr": False}   # PengRobinsonParameters::records() always returns Some(k_ij)


def frac(p):
    return Fraction(int(p[0]), int(p[1]))


def close(x, q, rtol=RTOL):
    """float x against exact rational q"""
    if x is None or x != x:
        return False
    return abs(Fraction(x) - q) <= Fraction(rtol) * abs(q) + Fraction(1, 10**300)


def lres_model(v):
    """('LOk', tags, m) / ('LErr', code, missing) -> canonical dict"""
    if v[0] == "LOk":
        m = v[2]
        return {"ok": {"tags": list(v[1]), "kij": None if m == "None" else [list(r) for r in m[1]]}}
    return {"err": v[1], "missing": sorted(v[2])}


def lres_impl(v, model):
    if "ok" in v:
        k = v["ok"]["kij"]
        return {"ok": {"tags": v["ok"]["tags"], "kij": k}}
    return {"err": v["err"], "missing": sorted(v.get("missing", []))}


def same_lres(mod, imp, model):
    if "ok" in mod and "ok" in imp:
        if mod["ok"]["tags"] != imp["ok"]["tags"]:
            return False
        mk, ik = mod["ok"]["kij"], imp["ok"]["kij"]
        if mk is None and not MODELS_KEEP_NONE[model]:
            n = len(mod["ok"]["tags"])
            mk = [[0] * n for _ in range(n)]
        return mk == ik
    return mod == imp


class Cmp:
    def __init__(self, ctx):
        self.ctx = ctx
        self.n = 0
        self.kinds = {}
        self.bad = []

    def count(self, kind):
        self.n += 1
        self.kinds[kind] = self.kinds.get(kind, 0) + 1

    def fail(self, part, idx, what, case, model, impl, failing_input=True):
        self.bad.append({"part": part, "index": idx, "what": what, "case": case, "model_says": model, "implementation_says": impl,
                         "failing_input": failing_input})


def compare_loads(c, impl, tags):
    mods = tags.get("LOAD", [None])[0]
    if not isinstance(mods, list) or len(mods) != len(impl["loads"]):
        c.fail("load", -1, "model output for LOAD missing or of wrong length", None, str(mods)[:200], None, False)
        return
    for i, (mv, iv) in enumerate(zip(mods, impl["loads"])):
        mod = lres_model(mv)
        c.count("load:" + ("ok" if "ok" in mod else "err%d" % mod["err"]))
        for model, v in iv["impl"].items():
            if "ok" in v and not (v.get("kij_exact") and v.get("derived_ok")):
                c.fail("load", i, "parameter arrays of %s disagree with its retained records (molar weight order or k_ij)" % model,
                       iv["case"], mod, v)
                continue
            if not same_lres(mod, lres_impl(v, model), model):
                c.fail("load", i, "%s::from_multiple_json/from_json differs from the model" % model, iv["case"], mod, v)


def compare_subsets(c, impl, tags):
    mods = tags.get("SUBSET", [None])[0]
    if not isinstance(mods, list) or len(mods) != len(impl["subsets"]):
        c.fail("subset", -1, "model output for SUBSET missing or of wrong length", None, str(mods)[:200], None, False)
        return
    for i, (mv, iv) in enumerate(zip(mods, impl["subsets"])):
        c.count("subset")
        for model, pair in iv["impl"].items():
            for which in (0, 1):
                mod = lres_model(mv[which])
                if not same_lres(mod, lres_impl(pair[which], model), model) or ("ok" in pair[which] and not pair[which].get("derived_ok")):
                    c.fail("subset", i, "%s::subset%s differs from the model" % (model, " of subset" if which else ""),
                           {"load": iv["case"], "idx": iv["idx"], "idx2": iv["idx2"]}, mod, pair[which])
    mods = tags.get("NEWBIN", [None])[0]
    if not isinstance(mods, list) or len(mods) != len(impl["new_binary"]):
        c.fail("new_binary", -1, "model output for NEWBIN missing", None, str(mods)[:200], None, False)
        return
    for i, (mv, iv) in enumerate(zip(mods, impl["new_binary"])):
        c.count("new_binary")
        mod = {"ok": {"tags": iv["tags"], "kij": None if mv == "None" else [list(r) for r in mv[1]]}}
        for model, v in iv["impl"].items():
            if not same_lres(mod, lres_impl(v, model), model) or not v.get("derived_ok", False):
                c.fail("new_binary", i, "%s::new_binary differs from the model" % model, {"tags": iv["tags"], "k": iv["k"]}, mod, v)


def homo_polar(case):
    """(mu, q) expected for each component that from_json_segments returns (python mirror of the lookup: last record wins)"""
    opt_key = {"Cas": "cas", "Name": "name", "IupacName": "iupac_name", "Smiles": "smiles", "Inchi": "inchi", "Formula": "formula"}[case["opt"]]
    srec = {}
    for r in case["segment_records"]:
        srec[r["identifier"]] = r
    out, seen = [], []
    for q in case["query"]:
        if q in seen:
            continue
        seen.append(q)
        ch = [c for c in case["chemical_records"] if c["identifier"].get(opt_key) == q]
        if not ch:
            continue
        mu = q2 = None
        for sname in ch[-1]["segments"]:
            r = srec.get(sname)
            if r and r["polar"] == 1:
                mu = (mu or 0.0) + r["mu(hetero: kinds 5,6; homo: kind 5)"]
            if r and r["polar"] == 2:
                q2 = (q2 or 0.0) + 2.25
        out.append((mu, q2))
    return out


def compare_homo(c, impl, tags):
    mods = tags.get("HOMO", [None])[0]
    stats = {"max_rel": 0.0}
    if not isinstance(mods, list) or len(mods) != len(impl["homo"]):
        c.fail("homo", -1, "model output for HOMO missing or of wrong length", None, str(mods)[:200], None, False)
        return stats
    for i, (mv, iv) in enumerate(zip(mods, impl["homo"])):
        v = iv["impl"]
        if mv[0] == "SErr":
            mod = {"err": mv[1], "missing": sorted(mv[2])}
            c.count("homo:err%d" % mv[1])
            if "ok" in v or v.get("err") != mod["err"] or sorted(v.get("missing", [])) != mod["missing"]:
                what = "PcSaftParameters::from_json_segments differs from the model"
                if mod["err"] == 1 and "ok" in v:
                    what = ("PcSaftParameters::from_json_segments accepts a duplicated substance "
                            "(returns %d components for %d queried names)" % (len(v["ok"]["comps"]), len(iv["case"]["query"])))
                c.fail("homo", i, what, iv["case"], mod, {k: v[k] for k in v if k in ("ok", "err", "missing")})
            continue
        c.count("homo:ok")
        # Coq prints left-nested pairs flat: ((z,p),q2,q3,q4) comes as (z, p, q2, q3, q4)
        comps = [[frac(comp[0:2])] + [frac(x) for x in comp[2:]] for comp in mv[1]]
        kmat = [[frac(x) for x in row] for row in mv[2]]
        mod = {"comps": [[float(x) for x in comp[:2]] + [float(comp[2]) ** (1.0 / 3.0), float(comp[3])] for comp in comps],
               "kij": [[float(x) for x in row] for row in kmat]}
        if "ok" not in v:
            c.fail("homo", i, "PcSaftParameters::from_json_segments fails where the model succeeds", iv["case"], mod, v)
            continue
        for name in ("ok", "from_segments", "from_segments_shuffled"):
            r = v[name]["ok"] if isinstance(v.get(name), dict) and name != "ok" else (v["ok"] if name == "ok" else None)
            if r is None:
                c.fail("homo", i, "%s failed where from_json_segments succeeded" % name, iv["case"], mod, v.get(name))
                continue
            ok = len(r["comps"]) == len(comps)
            if ok and name == "ok":
                # the polar segment (at most one per molecule) hands its dipole / quadrupole moment to the molecule
                for rc, want in zip(r["comps"], homo_polar(iv["case"])):
                    if len(rc) >= 6 and (rc[4], rc[5]) != want:
                        ok = False
            if ok:
                for rc, mc in zip(r["comps"], comps):
                    ok = ok and close(rc[0], mc[0]) and close(rc[1], mc[1]) and close(rc[3], mc[3])
                    ok = ok and rc[2] is not None and close(rc[2] ** 3, mc[2], 5 * RTOL)
                    for x, q in ((rc[0], mc[0]), (rc[1], mc[1]), (rc[3], mc[3])):
                        if q != 0 and x is not None:
                            stats["max_rel"] = max(stats["max_rel"], float(abs(Fraction(x) - q) / abs(q)))
                for rr, mr in zip(r["kij"], kmat):
                    for x, q in zip(rr, mr):
                        ok = ok and close(x, q)
            if not ok:
                c.fail("homo", i, "PcSaftParameters::%s: combined record / k_ij differs from the combining rules" %
                       ("from_json_segments" if name == "ok" else name), iv["case"], mod, r)
                break
    return stats


def compare_hetero(c, impl, tags):
    mods = tags.get("HETERO", [None])[0]
    if not isinstance(mods, list) or len(mods) != len(impl["hetero"]):
        c.fail("hetero", -1, "model output for HETERO missing or of wrong length", None, str(mods)[:200], None, False)
        return
    for i, (mv, iv) in enumerate(zip(mods, impl["hetero"])):
        v = iv["impl"]
        if mv[0] == "HErr":
            mod = {"err": mv[1], "missing": sorted(mv[2])}
            c.count("hetero:err%d" % mv[1])
            if "ok" in v or v.get("err") != mod["err"] or sorted(v.get("missing", [])) != mod["missing"]:
                what = "GcPcSaftEosParameters::from_json_segments differs from the model"
                if mod["err"] == 1 and "ok" in v:
                    what = ("GcPcSaftEosParameters::from_json_segments accepts a duplicated substance "
                            "(returns %d components for %d queried names)" % (len(v["ok"]["comps"]), len(iv["case"]["query"])))
                c.fail("hetero", i, what, iv["case"], mod, {k: v[k] for k in v if k in ("err", "missing")} or "ok")
            continue
        c.count("hetero:ok")
        if "ok" not in v:
            c.fail("hetero", i, "GcPcSaftEosParameters::from_json_segments fails where the model succeeds", iv["case"], str(mv)[:300], v)
            continue
        kmod = {(a, b): frac(q) for (a, b, q) in mv[2]}
        ok = len(mv[1]) == len(v["ok"]["comps"])
        detail = None
        if ok:
            for ci, (mc, ic) in enumerate(zip(mv[1], v["ok"]["comps"])):
                counts = sorted((int(k), int(n)) for (k, n) in mc[0])
                bonds = sorted((int(a), int(b), int(n)) for (a, b, n) in mc[1])
                icounts = [(int(k), n) for (k, n) in ic["counts"]]
                ibonds = [(int(a), int(b), n) for (a, b, n) in ic["bonds"]]
                imc = [(int(k), n) for (k, n) in ic["m_counts"]]
                ipb = [(int(a), int(b), n) for (a, b, n) in ic["param_bonds"]]
                if not (counts == icounts and bonds == ibonds and close(ic["mw"], frac(mc[2]))):
                    ok, detail = False, {"component": ci, "model": {"counts": counts, "bonds": bonds, "mw": float(frac(mc[2]))}, "impl": ic}
                    break
                if not (len(imc) == len(counts) and all(a[0] == b[0] and abs(a[1] - b[1]) < 1e-12 for a, b in zip(imc, counts))):
                    ok, detail = False, {"component": ci, "what": "m array / segment counts", "model": counts, "impl": imc}
                    break
                if ipb != bonds:
                    ok, detail = False, {"component": ci, "what": "bond map of the parameter set", "model": bonds, "impl": ipb}
                    break
                # dipole of the molecule: mu^2 = sum n_a mu_a^2; dipolar iff positive; then m, sigma, epsilon of the molecule
                mu2, mm, s3, eps = frac(mc[3]), frac(mc[4]), frac(mc[5]), frac(mc[6])
                dip = ic.get("dipole")
                if (mu2 > 0) != (dip is not None):
                    ok, detail = False, {"component": ci, "what": "dipolar component list", "model_mu2_sum": float(mu2), "impl": dip}
                    break
                if dip is not None:
                    c.count("hetero:dipolar_component")
                    if max(n for (_, n) in counts if True) > 1:
                        pass
                    good = (close(dip["mu2_sum"], mu2, 1e-12) and close(dip["m"], mm) and mm != 0
                            and close(dip["sigma"] ** 3, s3 / mm, 5 * RTOL) and close(dip["epsilon_k"], eps / mm))
                    if not good:
                        ok, detail = False, {"component": ci, "what": "dipole combining rule (mu^2 = sum n mu_a^2, m, sigma, epsilon of the molecule)",
                                             "segment_counts": counts,
                                             "model": {"mu2_sum": float(mu2), "m": float(mm), "sigma": float(s3 / mm) ** (1 / 3.0), "epsilon_k": float(eps / mm)},
                                             "impl": dip}
                        break
        if ok:
            for (ci, ki, cj, kj, x) in v["ok"]["k"]:
                want = Fraction(0) if ci == cj else kmod.get((ki, kj))
                if want is None or Fraction(x) != want:
                    ok, detail = False, {"k_entry": [ci, ki, cj, kj], "model": None if want is None else float(want), "impl": x}
                    break
        if not ok:
            c.fail("hetero", i, "GcPcSaftEosParameters::from_json_segments: counts / bonds / molar weight / dipole / k_ab differ from the model",
                   iv["case"], detail, "see model_says")


def jobj_to_dict(o):
    d = {}
    for (k, v) in o:
        if v[0] == "JNum":
            d[k] = v[1] / 8.0
        elif v[0] == "JArr":
            d[k] = [z / 8.0 for z in v[1]]
        else:
            d[k] = str(v)
    return d


def compare_serde(c, impl, tags):
    for tag, key in (("SERDE_PC", "pcsaft"), ("SERDE_BN", "binary")):
        mods = tags.get(tag, [None])[0]
        if not isinstance(mods, list) or len(mods) != len(impl["serde"][key]):
            c.fail("serde", -1, "model output for %s missing" % tag, None, str(mods)[:200], None, False)
            continue
        for i, (mv, iv) in enumerate(zip(mods, impl["serde"][key])):
            c.count("serde:" + key)
            p = jobj_to_dict(mv[0])
            rp = None if mv[1] == "None" else jobj_to_dict(mv[1][1][0])
            some_after = None if mv[1] == "None" else mv[1][1][1]
            ok = p == iv["print"] and rp == iv["reprint"]
            if key == "pcsaft":
                ok = ok and some_after == iv["assoc_some_after"]
            if not ok:
                c.fail("serde", i, "serde form of %s differs from the shape model (print / re-read / re-print)" % key,
                       iv["print"], {"print": p, "reprint": rp, "assoc_some_after": some_after}, iv)
    mods = tags.get("SERDE_EB", [None])[0]
    if not isinstance(mods, list) or len(mods) != len(impl["serde"]["ebinary"]):
        c.fail("serde", -1, "model output for SERDE_EB missing", None, str(mods)[:200], None, False)
    else:
        for i, (mv, iv) in enumerate(zip(mods, impl["serde"]["ebinary"])):
            c.count("serde:epcsaft_binary")
            p = jobj_to_dict(mv[0])
            rp = None if mv[1] == "None" else jobj_to_dict(mv[1][1][0])
            k_after = None if mv[1] == "None" else [z / 8.0 for z in mv[1][1][1]]
            if not (p == iv["print"] and rp == iv["reprint"] and k_after == iv["k_after"] and iv["k_after"] == iv["k_before"]):
                c.fail("serde", i, "serde form of ElectrolytePcSaftBinaryRecord differs from the shape model (k_ij coefficients written / re-read)",
                       {"record": {"k_ij": iv["k_before"]}, "serialised_by_feos": iv["print"]},
                       {"print": p, "reprint": rp, "k_ij_after_round_trip": k_after}, iv)
    for sw in impl.get("serde_sweep", []):
        c.count("serde_sweep:" + sw["type"])
        c.n += sw["accepted"] - 1
        if sw["failing"]:
            c.fail("serde_sweep", 0, "%s: a value is lost or changed by read -> write -> re-read (%d of %d records)" % (sw["type"], sw["failing"], sw["accepted"]),
                   sw["failures"][0]["record_read"], "every non-zero / non-default value read is written again and the written form is stable",
                   sw["failures"][:3])
        if sw["accepted"] < sw["generated"] // 2:
            c.fail("serde_sweep", 1, "%s: the generated JSON records are mostly rejected (%d of %d accepted): the schema of the sweep is out of date" % (
                sw["type"], sw["accepted"], sw["generated"]), None, None, sw.get("sample"), False)
    files = 0
    records = 0
    for s in impl["shipped"]:
        files += 1
        records += s.get("records") or 0
        if s.get("error"):
            c.fail("shipped", files, "shipped file does not deserialise: %s" % s["error"], s["file"], None, s, True)
        if s.get("unstable"):
            c.fail("shipped", files, "serialise -> deserialise -> serialise is not stable for a shipped record", s["file"], None, s["unstable"][:3])
        if s.get("lost"):
            c.fail("shipped", files, "a value of a shipped record is lost or changed by deserialise -> serialise", s["file"], None, s["lost"][:3])
    evals = 0
    for b in impl["behaviour"]:
        evals += b["evaluated"]
        if b["differences"]:
            c.fail("behaviour", 0, "model built from a re-read record behaves differently (residual Helmholtz energy)", b["file"], None, b["differences"][:3])
    return files, records, evals


def compare_assoc(c, impl, tags):
    """SAFT-VR Mie: cross-association parameters of every site pair A_i-B_j against the override model"""
    mods = tags.get("ASSOC", [None])[0]
    if not isinstance(mods, list) or len(mods) != len(impl["assoc"]):
        c.fail("assoc", -1, "model output for ASSOC missing or of wrong length", None, str(mods)[:200], None, False)
        return
    for i, (mv, iv) in enumerate(zip(mods, impl["assoc"])):
        c.count("assoc")
        case = {k: iv[k] for k in ("sites_na_nb", "binary_epsilon_k_ab/64", "binary_rc_ab*64")}
        if iv["with"] is None or iv["base"] is None:
            c.fail("assoc", i, "SaftVRMieParameters::from_records fails / panics on associating components with binary association records",
                   case, str(mv)[:300], iv)
            continue
        acomps = [k for k, (na, nb) in enumerate(iv["sites_na_nb"]) if na > 0]
        bcomps = [k for k, (na, nb) in enumerate(iv["sites_na_nb"]) if nb > 0]
        for (a, b, oe, orc) in mv:
            x, y = acomps.index(a), bcomps.index(b)
            for name, ov, scale in (("epsilon_k_ab", oe, 64.0), ("rc_ab", orc, 1 / 64.0)):
                got = iv["with"][name][x][y]
                want = iv["base"][name][x][y] if ov == "None" else ov[1] * scale
                if got != want:
                    c.fail("assoc", i, "SaftVRMieParameters::from_records: cross-association parameter of a site pair differs from the binary record "
                           "(depends on the order of the components)", case,
                           {"site_pair": "A sites of component %d - B sites of component %d" % (a, b), "parameter": name,
                            "expected": want, "from": "combining rule (no binary value)" if ov == "None" else "binary record"},
                           {"got": got, name: iv["with"][name]})
                    break
            else:
                continue
            break


def evaluate(ctx, impl, res):
    c = Cmp(ctx)
    outs = {}
    for name in ("lookup", "segments", "serde", "assoc"):
        r = res[os.path.join(ctx.gen, name + ".v")]
        outs[name] = V.tagged(r["out"]) if r["rc"] == 0 else {}
        if r["rc"] != 0:
            c.fail(name, -1, "generated file %s.v does not compile: %s" % (name, V.coq_error(r["out"])), None, None, None, False)
    compare_loads(c, impl, outs["lookup"])
    compare_subsets(c, impl, outs["lookup"])
    hstats = compare_homo(c, impl, outs["segments"])
    compare_hetero(c, impl, outs["segments"])
    files, records, evals = compare_serde(c, impl, outs["serde"])
    compare_assoc(c, impl, outs["assoc"])
    return c, hstats, files, records, evals


def known_match(entry, b):
    k = entry.get("key", {})
    return k.get("part") == b["part"] and k.get("what_prefix") and b["what"].startswith(k["what_prefix"])


def run(ctx):
    # C14_SEGMENTS_DUPCHECK=false evaluates the model of the pre-fix behaviour (duplicates silently merged); diagnostic only
    extra = ["--segments-dup-check", "false"] if os.environ.get("C14_SEGMENTS_DUPCHECK") == "false" else []
    impl = V.run_harness("c14", ctx, extra=extra)
    gen_files = sorted(os.path.join(ctx.gen, f) for f in os.listdir(ctx.gen) if f.endswith(".v"))
    lib = V.check_props(ctx, PROP_FILES, gen_files)
    res = V.coqc_many(gen_files, ctx, timeout=1200)
    c, hstats, files, records, evals = evaluate(ctx, impl, res)
    gen_ok = sum(1 for f in gen_files if res[f]["rc"] == 0)

    known = V.load_known("C14")
    grouped = {}
    for b in c.bad:
        e = next((e for e in known if known_match(e, b)), None)
        if e is not None:
            V.report_known(ctx, e)
            continue
        grouped.setdefault((b["part"], b["what"].split("(")[0]), []).append(b)
    for (part, what), bs in list(grouped.items())[:8]:
        first = bs[0]
        files = {}
        lc = first["case"].get("load", first["case"]) if isinstance(first["case"], dict) else None
        if isinstance(lc, dict) and "inputs" in lc:
            for inp in lc["inputs"]:
                files["pure_file_%d" % inp["file"]] = impl["pure_files"][inp["file"]]
            if lc.get("binary_file") is not None:
                files["binary_file_%d" % lc["binary_file"]] = impl["binary_files"][lc["binary_file"]]
        V.violation(ctx, "%s [%d case(s)]" % (first["what"], len(bs)),
                    {"broken": "correspondence model <-> implementation, part '%s' (coq/gen/C14 vs the real feos call)" % part,
                     "failing_case": first["case"], "files_of_the_case": files, "scratch_dir_with_the_json_files": impl["scratch"], "model_says": first["model_says"], "implementation_says": first["implementation_says"],
                     "case_index": first["index"], "part": part, "more_cases": [b["index"] for b in bs[1:20]],
                     "expected_by": "coq/props/C14.v theorems + property text; see notes/C14.md"},
                    found_input=all(b["failing_input"] for b in bs[:1]))

    samples = []
    for part in ("loads", "homo", "hetero"):
        for iv in impl[part][:400]:
            v = iv["impl"]
            vv = v if part != "loads" else list(v.values())[0]
            if "ok" in vv and len(samples) < 6 and (part != "loads" or len(vv["ok"]["tags"]) >= 2 and vv["ok"]["kij"]):
                samples.append({"part": part, "case": iv["case"], "implementation": vv["ok"]})
                break
    samples.append({"part": "serde", "case": impl["serde"]["pcsaft"][0]})
    cov = {
        "obligations": lib["obligations"] + len(gen_files),
        "discharged": lib["discharged"] + gen_ok,
        "checker_cmd": "make -C coq (coqc 8.16.1, full .vo) ; coqc coq/props/C14.v ; coqc coq/gen/C14/{lookup,segments,serde,assoc}.v",
        "trusted_base": [
            "Coq 8.16.1 kernel incl. the VM (vm_compute)",
            "no axioms: Print Assumptions reports 'Closed under the global context' for every theorem of props/C14.v",
            "hand-written models ParamLookup.v / Segments.v / ParamSerde.v / C14Run.v (tied by the correspondence below, not derived from the source)",
            "HashMap/HashSet/IndexSet modelled by their abstract behaviour (collect: last insert wins; take: remove key; iteration order arbitrary)",
            "harness c14.rs (case generation, interning of strings as numbers, error classification) and the python comparator",
            "floating point: group-contribution sums compared with relative tolerance 1e-13; k_ij and tags are dyadic and compared exactly",
            "serde itself is not verified: ParamSerde.v models its observable shape, compared on random records and all records of the shipped files",
        ],
        "library_theorems": lib["obligations"],
        "library_files": lib["library_files"],
        "axioms_reported": lib["axioms"],
        "evaluations": c.n,
        "case_kinds": c.kinds,
        "exhaustive": False,
        "exhaustive_part": "all ordered duplicate-free queries up to size %d over the 4 substances of the base file plus one missing name (%d queries) x %d file orders; every IdentifierOption" % (
            impl["exhaustive_query_size"], impl["n_exhaustive_queries"], impl["file_orders"]),
        "structured_load_cases": impl["n_structured"],
        "random_load_cases": len(impl["loads"]) - impl["n_structured"],
        "models_exercised": ["PcSaftParameters", "PengRobinsonParameters", "SaftVRMieParameters", "GcPcSaftEosParameters (heterosegmented)"],
        "segment_cases": len(impl["homo"]),
        "gc_sum_max_relative_deviation": hstats.get("max_rel"),
        "gc_sum_tolerance": RTOL,
        "shipped_files_round_tripped": files,
        "shipped_records_round_tripped": records,
        "behaviour_evaluations": evals,
        "mismatches": len(c.bad),
        "samples": samples,
        "rule": "every generated case is run on the real implementation and on the Coq model (vm_compute); ids, orders, error kinds, "
                "missing sets, k_ij compared exactly; gc sums to 1e-13 relative",
    }
    V.write_evidence(ctx, "proof", cov, [
        "the models are hand-written; agreement with the code is checked on the generated cases of this run, proved only for the model",
        "strings are interned as numbers (order preserving for segment names)",
        "binary files that store one pair twice with different values are outside the symmetric-lookup theorem (pair_consistent); the model still predicts the implementation on them",
        "association parameters of group-contribution records are modelled only through the 'at most one polar segment' check; dipole moments: heterosegmented rule modelled, homosegmented mu/q compared by the comparator",
        "sigma is compared through sigma^3 (cbrt is not rational)",
    ])


def replay(rp):
    """re-run the check with the tier/seed of the replay and show whether the recorded case still fails"""
    ctx = V.Ctx("C14", rp.get("tier", "quick"), int(rp.get("seed", 1)))
    impl = V.run_harness("c14", ctx)
    gen_files = sorted(os.path.join(ctx.gen, f) for f in os.listdir(ctx.gen) if f.endswith(".v"))
    V.build_coq(ctx, targets=V.deps_of(PROP_FILES))
    res = V.coqc_many(gen_files, ctx, timeout=1200)
    c, _, _, _, _ = evaluate(ctx, impl, res)
    hits = [b for b in c.bad if b["part"] == rp.get("part") and b["index"] == rp.get("case_index")]
    print(json.dumps({"recorded": {k: rp.get(k) for k in ("what", "failing_case", "model_says", "implementation_says")},
                      "still_failing": bool(hits), "now": hits[:1]}, indent=1, default=str)[:6000])
    return 1 if hits else 0
