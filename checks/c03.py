"""C03 — a constructed state reproduces its specification, or construction fails.  DESIGN.md section 5, C03.

Deciding theorems (coq/props/C03.v; models coq/theories/StateNewC03.v, DensityIterC03.v):
  new_echo / new_decides / overdetermined_rejected / underdetermined_rejected / reject_bad_* / reject_length
  density_iteration_post (+ the refutation of the pre-repair code) / npt_stable_root / npt_hint_start / npt_post / newton_post /
  newton_r_post / newton_never_ok_without_accepted_step / newton_r_is_newton
Tie (route H, every run): the model's own definitions are evaluated by vm_compute on
  * all 2^11 presence patterns x {1,2} components (+ seeded bad-value / wrong-length injections) and diffed against the
    real State::new / State::new_full / StateBuilder::build (error kind exactly; T,V,N to 1e-13 relative; iterative
    requests: the returned state must satisfy the request to solver tolerance, bad requests must be errors),
  * density_iteration on a logging mock equation of state with an exact rational pressure: sequence of evaluated
    densities (branch trace) and result,
  * the Newton wrapper (State::new_nvu) on a logging mock ideal gas with a rational caloric step: evaluated temperatures and result.
Partial (support search, not decided by proof): (T,p) states for the Gross-Sadowski PC-SAFT records in the stated window,
lower-Gibbs root, hint branch, post-conditions of the Newton wrappers.
"""
import math
import os
from fractions import Fraction

import vplib as V

PROP_FILES = [os.path.join(V.PROPS, "C03.v")]
TVN_RTOL = 1e-13      # T, V, N of a non-iterative state: model (exact rational) vs implementation (f64)
P_RTOL = 1e-7         # pressure of an iterative state vs request
P_ATOL = 1e-4         # Pa; the density iteration's absolute tolerance is 1e-12 k_B K/A^3 = 1.4e-5 Pa
HSU_RTOL = 1e-6       # h, s, u of a Newton-wrapper state vs request (relative to |target| + R T resp. R)
X_RTOL = 1e-12        # composition of a (T,p,V,x) state
TRACE_RTOL = 1e-8     # evaluated densities of the density iteration, model vs implementation
NEAR_TIE = 1e-5       # decision margins below this are skipped (counted)
RGAS = 8.31446261815324
NEWTON_ERRORS = []


def zf(v):
    """decode the Coq encoding of a float class -> float (python) / Fraction kept for finite values"""
    if isinstance(v, tuple) and v[0] == "ZF":
        return Fraction(int(v[1]), int(v[2]))
    return {"ZNZ": -0.0, "ZPI": math.inf, "ZNI": -math.inf, "ZNaN": math.nan}[v]


def fl(v):
    return float(v) if isinstance(v, Fraction) else v


def jnum(x):
    return float(x) if isinstance(x, str) else x


def is_valid(v):
    """what validate() accepts: finite and not sign-negative"""
    f = fl(v)
    return math.isfinite(f) and math.copysign(1.0, f) > 0


def close(a, b, rtol, scale=0.0):
    a, b = fl(a), fl(b)
    if not (math.isfinite(a) and math.isfinite(b)):
        return False
    return abs(a - b) <= rtol * max(abs(a), abs(b), scale)


def decode_out(o):
    if o[0] == "ZErr":
        return {"err": (int(o[1]), int(o[2]), int(o[3]))}
    return {"kind": int(o[1]), "s": [zf(x) for x in o[2]], "v": [zf(x) for x in o[3]]}


KIND_NAMES = ["NVT", "NpT", "NpVx", "Nph", "Nps", "NTh", "NTs", "NVu"]


def compare_case(case, api, model, impl):
    """returns None if model and implementation agree, else a description"""
    if impl is None:
        return None
    if "err" in model:
        if "ok" in impl:
            return "model: error %s, implementation returned a state" % (model["err"],)
        got = (impl["err"], impl["a"], impl["b"])
        if got != model["err"]:
            return "error kind differs: model %s, implementation %s (%s)" % (model["err"], got, impl.get("msg"))
        return None
    k, s, v = model["kind"], model["s"], model["v"]
    ncomp = case["comps"]
    if k == 0:
        if "ok" not in impl:
            return "model: NVT state, implementation: error %s" % impl.get("msg")
        if not (close(s[0], jnum(impl["T"]), TVN_RTOL) and close(s[1], jnum(impl["V"]), TVN_RTOL)):
            return "T/V differ: model (%r, %r), implementation (%r, %r)" % (fl(s[0]), fl(s[1]), impl["T"], impl["V"])
        if len(v) != len(impl["N"]) or not all(close(a, jnum(b), TVN_RTOL) for a, b in zip(v, impl["N"])):
            return "N differs: model %r, implementation %r" % ([fl(x) for x in v], impl["N"])
        return None
    # iterative request
    t_given = s[0] if k in (1, 2, 5, 6) else None
    v_given = s[2] if k == 2 else (s[0] if k == 7 else None)
    tn = {1: ["p"], 2: ["p"], 3: ["p", "h"], 4: ["p", "s"], 5: ["h"], 6: ["s"], 7: ["u"]}[k]
    targets = [(tn[0], s[1])] if len(tn) == 1 else [(tn[0], s[0]), (tn[1], s[1])]
    must_fail = []
    if t_given is not None and not is_valid(t_given):
        must_fail.append("T")
    if v_given is not None and not is_valid(v_given):
        must_fail.append("V")
    if k != 2 and (len(v) != ncomp or not all(is_valid(x) for x in v)):
        must_fail.append("N")
    if k == 2 and len(v) != ncomp:
        must_fail.append("x length")
    for name, tv in targets:
        if not math.isfinite(fl(tv)):
            must_fail.append(name)
    if v_given is not None and fl(v_given) == 0.0 and is_valid(v_given):
        return None     # V = +0.0 passes validate(); the (empty) state that results has no composition / pressure to compare
    if "ok" not in impl:
        if case["injected"] is None and k in (1, 2):
            # the success clause of the property covers (T,p) states; a Newton wrapper may fail to converge (counted)
            return "well-formed %s request, implementation: error %s" % (KIND_NAMES[k], impl.get("msg"))
        if case["injected"] is None:
            NEWTON_ERRORS.append({"kind": KIND_NAMES[k], "inputs": {a: b for a, b in case["inputs"].items() if b is not None}, "error": impl.get("msg")})
        return None
    if must_fail:
        return "%s request with bad %s was turned into a state" % (KIND_NAMES[k], ",".join(must_fail))
    # the returned state must satisfy the request
    T = jnum(impl["T"])
    if t_given is not None and not close(t_given, T, TVN_RTOL):
        return "%s: temperature %r != requested %r" % (KIND_NAMES[k], T, fl(t_given))
    if v_given is not None and not close(v_given, jnum(impl["V"]), TVN_RTOL):
        return "%s: volume %r != requested %r" % (KIND_NAMES[k], impl["V"], fl(v_given))
    if k != 2:
        if not all(close(a, jnum(b), TVN_RTOL) for a, b in zip(v, impl["N"])):
            return "%s: amounts %r != requested %r" % (KIND_NAMES[k], impl["N"], [fl(x) for x in v])
    else:
        sx = sum(fl(x) for x in v)
        if not all(close(fl(a) / sx, jnum(b), X_RTOL, 1.0) for a, b in zip(v, impl["x"])):
            return "NpVx: composition %r != requested %r" % (impl["x"], [fl(x) / sx for x in v])
    for name, tv in targets:
        got = jnum(impl[name])
        if name == "p":
            ok = close(tv, got, P_RTOL) or abs(fl(tv) - got) <= P_ATOL
        elif name == "s":
            ok = close(tv, got, HSU_RTOL, RGAS)
        else:
            ok = close(tv, got, HSU_RTOL, RGAS * abs(T))
        if not ok:
            return "%s: %s of the returned state %r != requested %r" % (KIND_NAMES[k], name, got, fl(tv))
    return None


def compare_di(case, model):
    """density iteration on the mock: model = ((code,(n,d)), [(tag,(n,d))...])"""
    code, (rn, rd), tr = model      # Coq prints the left-nested pair ((code, rho), trace) flat
    tr = [(t, (n, 2 ** int(e))) for (t, (n, e)) in tr]      # printed as (floor(q 2^e), e)
    rd = 2 ** int(rd)
    margins = [float(Fraction(int(n), int(d))) for (t, (n, d)) in tr if int(t) in (7, 8)]
    if any(abs(m - 1.0) < NEAR_TIE for m in margins):
        return "near-tie", None
    mtr = [(int(t), float(Fraction(int(n), int(d)))) for (t, (n, d)) in tr if int(t) in (2, 3)]
    itr = [(int(t), r) for t, r in case["trace"]]
    res = case["result"]
    if any(not (r * case["b"] < 0.999) for _, r in itr):
        return "out-of-domain", None      # the f64 mock left the domain of ln(1 - b rho); the rational oracle has no such pole
    if int(code) != res["code"]:
        return "bad", "result differs: model code %d, implementation %s" % (int(code), res)
    if int(code) == 0:
        mr = float(Fraction(int(rn), int(rd)))
        if not (close(mr, res["rho"], TRACE_RTOL) or abs(mr - res["rho"]) <= 1e-20):
            return "bad", "returned density differs: model %r, implementation %r" % (mr, res["rho"])
    if len(mtr) != len(itr):
        return "bad", "trace length differs: model %d evaluations, implementation %d" % (len(mtr), len(itr))
    for j, ((mt, mr), (it, ir)) in enumerate(zip(mtr, itr)):
        if mt != it or not (close(mr, ir, TRACE_RTOL) or abs(mr - ir) <= 1e-20):
            return "bad", "evaluation %d differs: model (order %d, rho %r), implementation (order %d, rho %r)" % (j, mt, mr, it, ir)
    return "ok", None


def compare_newton(case, model):
    """Newton wrapper on the mock: model = (code, (n, e), [(n, e) ...]) printed as floor(q 2^e)"""
    code, (rn, re_), tr = model
    mtr = [float(Fraction(int(n), 2 ** int(e))) for (n, e) in tr]
    itr = case["trace"]
    res = case["result"]
    if int(code) != res["code"]:
        return "result differs: model %s, implementation %s after %d evaluations (model %d)" % (
            "Ok" if int(code) == 0 else "NotConverged", res, len(itr), len(mtr))
    if int(code) == 0 and not close(float(Fraction(int(rn), 2 ** int(re_))), res["T"], TRACE_RTOL):
        return "returned temperature differs: model %r, implementation %r" % (float(Fraction(int(rn), 2 ** int(re_))), res["T"])
    if len(mtr) != len(itr):
        return "number of evaluated temperatures differs: model %d, implementation %d" % (len(mtr), len(itr))
    for j, (a, b) in enumerate(zip(mtr, itr)):
        if not close(a, b, TRACE_RTOL):
            return "evaluated temperature %d differs: model %r, implementation %r" % (j, a, b)
    return None


def run(ctx):
    del NEWTON_ERRORS[:]
    impl = V.run_harness("c03", ctx)
    gen_files = sorted(os.path.join(ctx.gen, f) for f in os.listdir(ctx.gen) if f.endswith(".v"))
    lib = V.check_props(ctx, PROP_FILES, gen_files)
    res = V.coqc_many(gen_files, ctx, timeout=1500)
    obligations = lib["obligations"]
    discharged = lib["discharged"]

    # ---- model outputs
    model_pat = {}
    model_di = {}
    model_nw = {}
    for f in gen_files:
        r = res[f]
        if r["rc"] != 0:
            V.violation(ctx, "generated file %s does not compile: %s" % (os.path.basename(f), V.coq_error(r["out"])),
                        {"broken": "correspondence: model evaluation", "file": f, "coq_error": V.coq_error(r["out"])}, found_input=False)
            continue
        tags = V.tagged(r["out"])
        for item in tags.get("R", []):
            if item[0] == "unparsed":
                continue
            model_pat[int(item[0])] = (decode_out(item[1][0]), decode_out(item[1][1]))
        for item in tags.get("NW", []):
            if item[0] == "unparsed":
                continue
            model_nw[int(item[0])] = item[1]
        for item in tags.get("DI", []):
            if item[0] == "unparsed":
                continue
            model_di[int(item[0])] = item[1]

    # ---- 1. presence patterns x value classes
    known = V.load_known("C03")
    n_cmp = 0
    mism = []
    class_census = {}
    samples = []
    for case in impl["pattern_cases"]:
        m = model_pat.get(case["id"])
        if m is None:
            mism.append((case, "model", "no model output for this case"))
            continue
        mfull, mres = m
        key = ("err%d" % mfull["err"][0]) if "err" in mfull else KIND_NAMES[mfull["kind"]]
        class_census[key] = class_census.get(key, 0) + 1
        for api, mm, ii in (("State::new_full", mfull, case["new_full"]), ("StateBuilder::build", mfull if case_has_hsu(case) else mres, case["builder"]),
                            ("State::new", mres, case["new"])):
            if ii is None:
                continue
            n_cmp += 1
            d = compare_case(case, api, mm, ii)
            if d:
                mism.append((case, api, d))
        if len(samples) < 6 and case["id"] % 1361 == 7:
            samples.append({"comps": case["comps"], "inputs": case["inputs"], "injected": case["injected"],
                            "model": key, "implementation": {k: v for k, v in case["new_full"].items() if k in ("ok", "err", "msg", "T", "V", "N")}})
    mism.sort(key=lambda m: 0 if "into a state" in m[2] or "returned a state" in m[2] or "!=" in m[2] else 1)
    for case, api, d in mism[:8]:
        V.violation(ctx, "%s: %s [inputs %s]" % (api, d, {k: v for k, v in case["inputs"].items() if v is not None}),
                    {"broken": "correspondence StateNewC03.v <-> %s (and the property: the implementation's result is what is wrong unless the "
                               "model is out of date)" % api,
                     "api": api, "difference": d, "components": case["comps"], "pattern_bits_T_V_rho_rhoi_n_Ni_xi_p_h_s_u": case["pattern"],
                     "inputs_SI": case["inputs"], "injected": case["injected"], "implementation": case.get("new_full"),
                     "builder": case.get("builder"), "new": case.get("new"), "more_mismatches": len(mism)}, found_input=True)

    # ---- 2. density iteration traces
    di_stat = {"ok": 0, "near-tie": 0, "out-of-domain": 0, "bad": 0}
    di_bad = []
    for case in impl["di_cases"]:
        m = model_di.get(case["id"])
        if m is None:
            di_bad.append((case, "no model output"))
            continue
        st, d = compare_di(case, m)
        di_stat[st] += 1
        if st == "bad":
            di_bad.append((case, d))
    for case, d in di_bad[:4]:
        res_ = case["result"]
        wrong_state = res_["code"] == 0 and abs(res_["p"] - case["p_target"]) > 1e-6 * max(1.0, abs(case["p_target"]))
        V.violation(ctx, "density_iteration on the mock oracle: %s%s" % (d, " — the returned state's pressure %r is not the requested %r" % (res_["p"], case["p_target"]) if wrong_state else ""),
                    {"broken": "correspondence DensityIterC03.v <-> density_iteration" + (" ; property: returned state does not have the requested pressure" if wrong_state else ""),
                     "difference": d, "mock": {k: case[k] for k in ("T", "a", "b", "amp", "rho_star", "maxdensity")},
                     "p_target_reduced": case["p_target"], "initial_density_reduced": case["rho0"], "implementation": res_,
                     "implementation_trace_head": case["trace"][:12], "more_mismatches": len(di_bad)}, found_input=True)

    # ---- 2b. the Newton wrapper (State::new_nvu) on the caloric step mock: evaluated temperatures and result
    nw_stat = {"ok": 0, "bad": 0, "model_not_converged": 0}
    nw_bad = []
    for case in impl.get("newton_cases", []):
        m = model_nw.get(case["id"])
        if m is None:
            nw_bad.append((case, "no model output"))
            continue
        d = compare_newton(case, m)
        if d:
            nw_stat["bad"] += 1
            nw_bad.append((case, d))
        else:
            nw_stat["ok"] += 1
            if int(m[0]) == 13:
                nw_stat["model_not_converged"] += 1
    for case, d in nw_bad[:4]:
        res_ = case["result"]
        wrong = res_["code"] == 0 and abs(res_["u"] - case["u_target_J_mol"]) > 1e-6 * (abs(case["u_target_J_mol"]) + RGAS * res_["T"])
        V.violation(ctx, "State::new_nvu (newton) on the caloric step mock: %s%s" % (d, " — the returned state's molar internal energy %r is not the requested %r"
                                                                                     % (res_["u"], case["u_target_J_mol"]) if wrong else ""),
                    {"broken": "correspondence DensityIterC03.v newton_r <-> newton (state/mod.rs)" + (" ; property: the returned state does not have the requested internal energy" if wrong else ""),
                     "difference": d, "mock_ideal_gas": {k: case[k] for k in ("k", "amp", "T_star")}, "V_m3": case["V_m3"], "N_mol": case["N_mol"],
                     "u_target_J_mol": case["u_target_J_mol"], "initial_temperature_K": case["T_start_K"], "implementation": res_,
                     "implementation_trace_head": case["trace"][:8], "implementation_evaluations": len(case["trace"]), "more_mismatches": len(nw_bad)},
                    found_input=True)

    # ---- 3. the repaired defect on real models: non-finite pressure must not give a state
    for c in impl["nonfinite_pressure"]:
        if c["ok"]:
            V.violation(ctx, "State::new_npt returned a state for a non-finite pressure: %s" % c,
                        {"broken": "property: iterative specification not met (density_iteration fell through after maxiter iterations)", "case": c},
                        found_input=True)

    # ---- 4. support search (partial clause)
    sw = impl["sweep"]
    for f in sw["failures"][:6]:
        V.violation(ctx, "support search (%s): %s" % (f["kind"], {k: v for k, v in f.items() if k != "kind"}),
                    {"broken": "support search on the public API (partial clause: not decided by proof)", "case": f,
                     "more_failures": len(sw["failures"])}, found_input=True)
    for f in sw["critical_point_failures"][:3]:
        ctx.notes.append("critical point not found, record skipped: %s" % f)

    n_gen = len(impl["pattern_cases"]) + len(impl["di_cases"]) + len(impl.get("newton_cases", []))
    obligations += len(gen_files)
    discharged += sum(1 for f in gen_files if res[f]["rc"] == 0)
    cov = {
        "obligations": obligations,
        "discharged": discharged,
        "checker_cmd": "make -C coq theories/StateNewC03.vo theories/DensityIterC03.vo props/C03.vo (coqc 8.16.1) ; coqc coq/gen/C03/*.v",
        "trusted_base": [
            "Coq 8.16.1 kernel incl. the VM (vm_compute)",
            "no axioms (Print Assumptions: closed under the global context for all property theorems)",
            "hand-written models StateNewC03.v / DensityIterC03.v, tied to the code by the correspondence below",
            "harness c03 (mock equation of state / ideal gas, exact dyadic printer) and this comparator",
            "floating-point round-off, overflow and underflow of finite values are modelled away (exact rationals + IEEE classes for -0, inf, NaN)",
        ],
        "library_theorems": lib["obligations"],
        "library_files": lib["library_files"],
        "axioms_reported": lib["axioms"],
        "generated_files": len(gen_files),
        "pattern_cases": len(impl["pattern_cases"]),
        "pattern_comparisons": n_cmp,
        "pattern_mismatches": len(mism),
        "model_outcome_census": dict(sorted(class_census.items())),
        "density_iteration_trace_cases": di_stat,
        "newton_wrapper_trace_cases": nw_stat,
        "model_evaluations": n_gen,
        "newton_wrapper_errors_on_wellformed_patterns": len(NEWTON_ERRORS),
        "newton_wrapper_error_samples": NEWTON_ERRORS[:3],
        "tolerances": {"T,V,N": TVN_RTOL, "pressure": P_RTOL, "pressure_abs_Pa": P_ATOL, "h,s,u": HSU_RTOL, "composition": X_RTOL, "trace densities": TRACE_RTOL,
                       "near-tie margin": NEAR_TIE},
        "nonfinite_pressure_cases": len(impl["nonfinite_pressure"]),
        "support_search": {k: v for k, v in sw.items() if k not in ("failures",)},
        "support_search_failures": len(sw["failures"]),
        "samples": samples,
        "rule": "patterns: all 2^11 presence patterns x {1,2} components on Peng-Robinson + mock ideal gas, one well-formed instance each "
                "(independent random values per source) + seeded injections of NaN/inf/-inf/-0.0/negative/0/wrong length; "
                "density iteration: van-der-Waals (+ pressure step) mock, random T, target, initial density",
    }
    V.write_evidence(ctx, "proof", cov, [
        "over-determination is read as the documented one (two sources for density, amount or composition); inputs below the first "
        "applicable level of the documented hierarchy (e.g. p next to T,V,N) are ignored by design (mod.rs:283-287)",
        "convergence of the floating-point iterations for every shipped record is not decided by proof (support search only)",
        "the Newton derivative of each wrapper being the thermodynamic derivative of its residual is supported by the sweep's "
        "post-condition check, not proved",
        "finite values: exact rational arithmetic (no round-off / overflow / underflow)",
    ])


def case_has_hsu(case):
    i = case["inputs"]
    return i["h"] is not None or i["s"] is not None or i["u"] is not None


def replay(rp):
    import json
    print(json.dumps(rp, indent=1)[:6000])
    return 0
