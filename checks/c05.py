"""C05 — mixture equilibrium results (flash, bubble/dew point): isofugacity, balances, specification.  DESIGN.md section 5, C05.

Deciding theorems (coq/props/C05.v over coq/theories/{RachfordRiceC05,BubbleDewC05}.v):
  flash_balance / flash_nonneg / update_split_balance   v_i + l_i = feed_i exactly, amounts >= 0      (all n, beta, K incl. K_i = 0)
  rr_bracket / rr_bracket_tight                          returned vapor fraction stays in the bracket within [0,1] (all iterations, all roundings)
  rr_exists_guard(_pos)                                  error branch <=> sum zK <= 1 or sum z/K <= 1
  newton_res_bound_T/_p, flash_res_bound, adjust_x2_bound   the stopping tests bound the fugacity / pressure mismatch
  hetero_res_bound_T/_p, hetero_p_common_temperature     heteroazeotrope: accepted (= returned) phases have equal fugacities/pressures within tol; one temperature
  nontrivial_distinct                                    phases passing is_trivial_solution = false differ
  spec_phase_invariant(_unit)                            the specified phase keeps the specified composition in every reachable iterate
Tie (route H, every run): the hooked private rachford_rice / update_states / adjust_x2 and the public
TemperatureOrPressure::{newton_step, adjust_t_p} run on the same inputs as the Coq models (vm_compute over Q, `interval` over R).
Partial (support search, not decided by proof): the returned equilibria of real flashes / bubble / dew points are re-checked
through independent public-API calls; solver errors inside the window stated by the property are reported.
"""
import json
import os
import vplib as V

PROP_FILES = [os.path.join(V.PROPS, "C05.v")]
BETA_TOL = 1e-12          # rachford_rice: |beta_model - beta_impl|
RR_ABS_TOL = 1e-6         # ABS_TOL of rachford_rice (its own stopping test on |dbeta|)
SPLIT_TOL = 1e-9          # update_states: amounts relative to the total feed (beta enters with sensitivity <= K)
BAL_TOL = 1e-12           # v_i + l_i - n_i relative to the total feed (pure round-off)
SPEC_TOL = 1e-13          # mole fractions of the specified phase after a transition
P_REL, P_ABS = 1e-8, 1e-9
SCALE = float(2 ** 70)


def known_points():
    pts = []
    for e in V.load_known("C05"):
        k = e.get("key", {})
        if "point" in k:
            pts.append(k["point"])
    return pts


def key_of(f):
    k = f["key"]
    return (tuple(k["pair"]), k["kind"], round(k["T"], 9), round(k["x"], 12))


def known_key(e):
    k = e.get("key", {})
    if "point" not in k:
        return None
    a, b, t, x, s, n = k["point"].split("|")
    return ((a, b), k.get("kind", "flash"), round(float(t), 9), round(float(x), 12))


def compare_rr(impl, res, ctx):
    """model (vm_compute over Q) vs hooked rachford_rice"""
    bad, n, worst = [], 0, 0.0
    flips = []
    classes = {}
    byfile = {}
    for r in impl["rr"]:
        byfile.setdefault(r["file"], []).append(r)
    missing = []
    for fn, cases in sorted(byfile.items()):
        out = res[os.path.join(ctx.gen, fn)]
        tags = V.tagged(out["out"]).get("RR")
        if out["rc"] != 0 or not tags or not isinstance(tags[0], list) or len(tags[0]) != len(cases):
            missing.append({"file": fn, "coq_error": V.coq_error(out["out"])})
            continue
        for m, r in zip(tags[0], cases):
            n += 1
            kind = {0: "err", 1: "ok", 2: "nan"}[m[0]]
            ik = r["impl"]["kind"]
            classes[(r["class"], ik)] = classes.get((r["class"], ik), 0) + 1
            case = {"z": r["z"], "k": r["k"], "beta_in": r["b0"], "class": r["class"], "impl": r["impl"], "model": {"kind": kind}}
            if kind != ik:
                bad.append(case)
                continue
            if kind == "ok":
                b = m[1] / SCALE
                case["model"]["beta"] = b
                d = abs(b - r["impl"]["beta"])
                step = m[2] / SCALE if m[2] >= 0 else float("inf")
                if not d <= BETA_TOL and d <= RR_ABS_TOL and step < 2 * RR_ABS_TOL:
                    # a round-off-induced branch flip (bisection vs. Newton step): both values satisfy the routine's own
                    # stopping test |dbeta| < 1e-6 (checked with the model's g, dg at the implementation's beta)
                    case["model"]["newton_step_at_impl_beta"] = step
                    flips.append(case)
                    continue
                worst = max(worst, d)
                if not d <= BETA_TOL:
                    bad.append(case)
                elif not (0.0 <= r["impl"]["beta"] <= 1.0):
                    case["note"] = "returned vapor fraction outside [0,1] (contradicts rr_bracket)"
                    bad.append(case)
    if len(flips) > max(2, 0.02 * n):
        bad += flips
    return n, worst, bad, missing, classes, flips


def compare_split(impl, res, ctx):
    bad, n, worst, skipped = [], 0, 0.0, 0
    missing = []
    cases = impl["split"]["cases"]
    ch = impl["split"]["chunk"]
    for fi, fn in enumerate(impl["split"]["files"]):
        out = res[os.path.join(ctx.gen, fn)]
        tags = V.tagged(out["out"]).get("SPLIT")
        cs = cases[fi * ch:(fi + 1) * ch]
        if out["rc"] != 0 or not tags or not isinstance(tags[0], list) or len(tags[0]) != len(cs):
            missing.append({"file": fn, "coq_error": V.coq_error(out["out"])})
            continue
        for m, c in zip(tags[0], cs):
            n += 1
            im = c["impl"]
            tot = sum(c["n"])
            rec = {"feed_molefracs": c["z"], "feed_moles_reduced": c["n"], "k": c["k"], "beta_in": c["beta_in"], "impl": im, "system": c.get("tag")}
            if m[0] == 0:
                rec["model"] = "rachford_rice error branch"
                if im["kind"] != "err" or "rachford_rice" not in im.get("err", ""):
                    bad.append(rec)
                continue
            beta = m[1] / SCALE
            mv = [p[0] / SCALE for p in m[2]]
            ml = [p[1] / SCALE for p in m[2]]
            rec["model"] = {"beta": beta, "v_over_feed": mv, "l_over_feed": ml}
            if im["kind"] == "err" and "rachford_rice" in im.get("err", ""):
                bad.append(rec)
                continue
            if im["kind"] != "ok":
                skipped += 1     # the density iteration of update_moles failed: outside the model
                continue
            errs = []
            for i in range(len(mv)):
                dv = abs(im["v"][i] / tot - mv[i])
                dl = abs(im["l"][i] / tot - ml[i])
                db = abs(im["v"][i] + im["l"][i] - c["n"][i]) / tot
                worst = max(worst, dv, dl)
                if not (dv <= SPLIT_TOL and dl <= SPLIT_TOL):
                    errs.append("component %d: amounts differ from the model split (dv=%g dl=%g)" % (i, dv, dl))
                if not db <= BAL_TOL:
                    errs.append("component %d: v + l differs from the feed amount by %g of the total feed" % (i, db))
                if not (im["v"][i] >= 0 and im["l"][i] >= 0):
                    errs.append("component %d: negative amount" % i)
            if not (im["T_v"] == im["T_feed"] and im["T_l"] == im["T_feed"]):
                errs.append("phase temperatures differ from the feed temperature")
            for ph in ("p_v", "p_l"):
                if not abs(im[ph] - im["p_feed"]) <= P_REL * abs(im["p_feed"]) + P_ABS:
                    errs.append("%s = %r differs from the feed pressure %r" % (ph, im[ph], im["p_feed"]))
            if errs:
                rec["broken"] = errs
                bad.append(rec)
    return n, worst, bad, missing, skipped


def compare_spec(impl, res, ctx):
    bad, n, worst = [], 0, 0.0
    missing = []
    cases = impl["spec"]["cases"]
    ch = impl["spec"]["chunk"]
    for fi, fn in enumerate(impl["spec"]["files"]):
        out = res[os.path.join(ctx.gen, fn)]
        tags = V.tagged(out["out"]).get("SPEC")
        cs = cases[fi * ch:(fi + 1) * ch]
        if out["rc"] != 0 or not tags or not isinstance(tags[0], list) or len(tags[0]) != len(cs):
            missing.append({"file": fn, "coq_error": V.coq_error(out["out"])})
            continue
        for m, c in zip(tags[0], cs):
            for step, (mx, ob) in enumerate(zip(m, c["observed"])):
                n += 1
                d = max(abs(a / SCALE - b) for a, b in zip(mx, ob["x1"]))
                worst = max(worst, d)
                errs = []
                if not d <= SPEC_TOL:
                    errs.append("composition of the specified phase after %s is %r, model (= normalised specification) %r"
                                % (c["events"][step], ob["x1"], [a / SCALE for a in mx]))
                if ob["T1"] != ob["T2"]:
                    errs.append("phases have different temperatures after %s" % c["events"][step])
                if c["tspec"] and ob["T1"] != c["T"]:
                    errs.append("specified temperature changed by %s" % c["events"][step])
                if errs:
                    bad.append({"system": c["pair"], "spec": c["spec"], "bubble": c["bubble"], "T": c["T"], "events": c["events"][:step + 1],
                                "T_specified": c["tspec"], "broken": errs})
                    break
    return n, worst, bad, missing


def run(ctx):
    kp = known_points()
    extra = ["--known", ";".join(kp)] if kp else []
    impl = V.run_harness("c05", ctx, extra=extra)
    gen_files = sorted(os.path.join(ctx.gen, f) for f in os.listdir(ctx.gen) if f.endswith(".v"))
    lib = V.check_props(ctx, PROP_FILES, gen_files)
    res = V.coqc_many(gen_files, ctx, timeout=1500)
    obligations = lib["obligations"]
    discharged = lib["discharged"]
    sup = impl["support"]

    # ---- support search on the real code (public-API recomputation) — also the oracle for broken correspondences
    known = {known_key(e): e for e in V.load_known("C05") if known_key(e) is not None}
    known_class = {e["key"]["class"]: e for e in V.load_known("C05") if "class" in e.get("key", {})}

    def class_of(f):
        sig = (f.get("detail") or {}).get("signature") or {}
        return known_class.get(sig.get("class"))

    new_fail = []
    for f in sup["failures"]:
        e = known.get(key_of(f)) or class_of(f)
        if e is not None:
            V.report_known(ctx, e)
        else:
            new_fail.append(f)
    known_status = []
    for kpnt in sup.get("known_points", []):
        a, b, t, x, s, n = kpnt["point"].split("|")
        e = known.get(((a, b), "flash", round(float(t), 9), round(float(x), 12)))
        still = [f for f in kpnt["failures"]]
        known_status.append({"point": kpnt["point"], "still_fails": bool(still)})
        for f in still:
            e2 = known.get(key_of(f)) or class_of(f)
            if e2 is not None:
                V.report_known(ctx, e2)
            else:
                new_fail.append(f)
        if e is not None and not still:
            ctx.notes.append("known finding no longer reproduces: %s" % kpnt["point"])
    by_kind = {}
    for f in new_fail:
        by_kind.setdefault(f["key"]["kind"], []).append(f)
    for kind, fl in sorted(by_kind.items()):
        f0 = fl[0]
        where = ("case %s" % f0["hetero_point"]) if "hetero_point" in f0 else "at T=%.6f K, x=%.6f" % (f0["key"]["T"], f0["key"]["x"])
        if "lle_point" in f0:
            where += " (liquid-liquid, replay --lle-point %s)" % f0["lle_point"]
        V.violation(ctx, "%s of %s/%s %s: %s" % (kind, f0["key"]["pair"][0], f0["key"]["pair"][1], where, f0["what"]),
                    {"broken": "public-API recomputation of the equilibrium conditions at returned results / success inside the stated window",
                     "kind": kind, "failing_inputs": fl[:10], "count": len(fl),
                     **({"hetero_point": f0["hetero_point"]} if "hetero_point" in f0 else {"lle_point": f0["lle_point"]} if "lle_point" in f0 else
                        {"point": "%s|%s|%r|%r|%r|%r" % (f0["key"]["pair"][0], f0["key"]["pair"][1], f0["key"]["T"], f0["key"]["x"], f0["s"], f0["ntot"])}),
                     "tolerances": sup["tolerances"]}, found_input=True)
    any_support_failure = bool(new_fail)

    def corr_violation(what, rp, concrete):
        """a broken correspondence: the disagreeing input is itself a failing input when the property text decides it"""
        rp = dict(rp)
        rp["support_search_found_failures"] = any_support_failure
        V.violation(ctx, what, rp, found_input=concrete)

    # ---- A. rachford_rice
    n_rr, worst_rr, bad_rr, miss_rr, classes, flips_rr = compare_rr(impl, res, ctx)
    obligations += len({r["file"] for r in impl["rr"]})
    discharged += len({r["file"] for r in impl["rr"]}) - len(miss_rr)
    if miss_rr:
        V.violation(ctx, "rachford_rice model did not evaluate: %s" % miss_rr[0], {"broken": "gen/C05/rr_*.v", "files": miss_rr}, found_input=False)
    if bad_rr:
        c = bad_rr[0]
        concrete = c["impl"]["kind"] in ("nan", "panic") or (c["impl"]["kind"] == "ok" and not 0 <= c["impl"]["beta"] <= 1)
        corr_violation("hooked rachford_rice differs from the model RachfordRiceC05.rr on %d of %d cases; first: z=%r K=%r beta_in=%r impl=%r model=%r"
                       % (len(bad_rr), n_rr, c["z"], c["k"], c["beta_in"], c["impl"], c["model"]),
                       {"broken": "correspondence rachford_rice (theorems rr_bracket / rr_exists_guard are about the model)", "mismatches": bad_rr[:10]},
                       True)
    # ---- B. update_states
    n_sp, worst_sp, bad_sp, miss_sp, skipped_sp = compare_split(impl, res, ctx)
    obligations += len(impl["split"]["files"])
    discharged += len(impl["split"]["files"]) - len(miss_sp)
    if miss_sp:
        V.violation(ctx, "update_split model did not evaluate: %s" % miss_sp[0], {"broken": "gen/C05/split_*.v", "files": miss_sp}, found_input=False)
    if bad_sp:
        c = bad_sp[0]
        corr_violation("hooked update_states differs from the model update_split / breaks the balance on %d of %d cases; first: %s"
                       % (len(bad_sp), n_sp, json.dumps(c)[:600]),
                       {"broken": "correspondence update_states (flash_balance is about the model split)", "mismatches": bad_sp[:10]}, True)
    # ---- C. residual formulas (interval goals)
    n_goal_files = len(impl["res_goals"])
    n_goals = 0
    obligations += n_goal_files
    bad_goals = []
    for g in impl["res_goals"]:
        out = res[os.path.join(ctx.gen, g["file"])]
        n_goals += sum(x.get("ngoals", 1) for x in g["goals"])
        if out["rc"] == 0:
            discharged += 1
        else:
            bad_goals.append({"file": g["file"], "coq_error": V.coq_error(out["out"]), "cases": g["goals"][:4]})
    if bad_goals:
        corr_violation("residual formula of BubbleDewC05.v no longer matches the implementation (newton_step / adjust_x2 / flash acceptance): %s"
                       % (bad_goals[0]["coq_error"] or "")[:300],
                       {"broken": "correspondence: gen/C05/res_*.v interval goals (newton_res_bound / adjust_x2_bound / flash_res_bound are about the model residual)",
                        "files": bad_goals[:5]}, any_support_failure)
    # ---- E. specified phase
    n_spec, worst_spec, bad_spec, miss_spec = compare_spec(impl, res, ctx)
    obligations += len(impl["spec"]["files"])
    discharged += len(impl["spec"]["files"]) - len(miss_spec)
    if miss_spec:
        V.violation(ctx, "state machine of the specified phase did not evaluate: %s" % miss_spec[0], {"broken": "gen/C05/spec_*.v", "files": miss_spec}, found_input=False)
    if bad_spec:
        c = bad_spec[0]
        corr_violation("the specified phase does not keep the specified composition / temperature after a real solver transition: %s" % c["broken"][0],
                       {"broken": "correspondence: real adjust_t_p / newton_step / adjust_x2 vs the state machine of spec_phase_invariant", "cases": bad_spec[:10]}, True)

    cov = {
        "obligations": obligations,
        "discharged": discharged,
        "checker_cmd": "make -C coq (coqc 8.16.1, full .vo: theories/RachfordRiceC05.v theories/BubbleDewC05.v props/C05.v) ; coqc coq/gen/C05/{rr,split,res,spec}_*.v",
        "trusted_base": [
            "Coq 8.16.1 kernel incl. the VM (vm_compute)",
            "standard-library axioms reported by Print Assumptions for the real-valued theorems (classical reals, classic, functional_extensionality_dep); the Q-valued theorems are closed under the global context",
            "Interval 4.x / Flocq / Coquelicot (the `interval` tactic closes the generated residual goals)",
            "hand-written models RachfordRiceC05.v / BubbleDewC05.v (tied to the code by the differential runs of this check, not generated from it)",
            "cfg(feos_verif) hooks verif_rachford_rice / verif_update_states / verif_adjust_x2 (pure re-exports)",
            "harness exact dyadic printer, python comparator and Coq-output parser",
            "floating-point round-off is modelled by an arbitrary rounding function in the Rachford-Rice model and not at all in the real-valued residual model",
        ],
        "library_theorems": lib["obligations"],
        "library_files": lib["library_files"],
        "axioms_reported": lib["axioms"],
        "rachford_rice_cases": n_rr,
        "rachford_rice_worst_beta_difference": worst_rr,
        "rachford_rice_roundoff_branch_flips_(|dbeta|<=1e-6,_stopping_test_holds_at_impl_beta;_allowed_<=2%)": [
            {"z": c["z"], "k": c["k"], "beta_in": c["beta_in"], "impl_beta": c["impl"]["beta"], "model_beta": c["model"]["beta"]} for c in flips_rr],
        "rachford_rice_case_classes": {"%s/%s" % k: v for k, v in sorted(classes.items())},
        "update_states_cases": n_sp,
        "update_states_skipped_(density_iteration_failed)": skipped_sp,
        "update_states_worst_relative_amount_difference": worst_sp,
        "residual_interval_goals": n_goals,
        "residual_goal_files": n_goal_files,
        "specified_phase_transitions_compared": n_spec,
        "specified_phase_worst_deviation": worst_spec,
        "tolerances": {"beta": BETA_TOL, "split_rel_feed": SPLIT_TOL, "balance_rel_feed": BAL_TOL, "spec_composition": SPEC_TOL,
                       "residual_goals_rel": 1e-9, "support": sup["tolerances"]},
        "support_search": {k: v for k, v in sup.items() if k not in ("failures", "samples", "known_points")},
        "heteroazeotrope_search": impl.get("hetero", {}),
        "support_search_level": "exploration (partial clause: existence in the stated window; not counted among obligations)",
        "known_points_rerun": known_status,
        "samples": sup["samples"][:4] + [{"rachford_rice_case": {k: impl["rr"][i][k] for k in ("z", "k", "b0", "class", "impl")}} for i in range(min(3, len(impl["rr"])))],
        "rule": "model vs. hooked private functions on seeded random (z, K, beta_in) incl. K = 0 / 1 / huge / borderline; real flashes, bubble and dew points "
                "of PC-SAFT hydrocarbon binaries (gross2001.json) re-checked through ln_phi / pressure / moles of the returned states",
    }
    V.write_evidence(ctx, "proof", cov, [
        "the Coq models are hand-written (route H); they are tied to /repo by the differential runs above on the sampled inputs",
        "existence of bubble/dew points and flashes in the stated window and 'bubble pressure >= dew pressure' are NOT decided by proof (support search only; partial); heteroazeotropes: post-condition theorems + search on water_np/hydrocarbon systems, no existence clause",
        "the bubble/dew solver returns the iterate one Newton step AFTER the one whose residual was tested; the post-condition theorem covers the tested iterate, the returned one is covered by the support search tolerance",
        "Rachford-Rice model domain: z_i >= 0, K_i >= 0 finite (K = exp(..) in the callers); IEEE infinities/NaN modelled only for the existence guard and as RRUndef",
    ])


def replay(rp):
    """re-run the failing input of a replay on the real implementation"""
    print(json.dumps({k: rp[k] for k in rp if k not in ("failing_inputs", "mismatches", "files", "cases")}, indent=1)[:3000])
    lp = rp.get("lle_point")
    if lp:
        exe = os.path.join(V.TARGET, "release", "c05")
        out_dir = os.path.join(V.GEN, "C05_replay")
        os.makedirs(out_dir, exist_ok=True)
        rc, out, _ = V.sh([exe, "--out", out_dir, "--lle-point", lp], cwd=V.VERIF)
        r = json.load(open(os.path.join(out_dir, "impl.json")))
        print(json.dumps(r, indent=1)[:6000])
        return 1 if r["failures"] else 0
    hp = rp.get("hetero_point")
    if hp:
        exe = os.path.join(V.TARGET, "release", "c05")
        out_dir = os.path.join(V.GEN, "C05_replay")
        os.makedirs(out_dir, exist_ok=True)
        rc, out, _ = V.sh([exe, "--out", out_dir, "--hetero-point", hp], cwd=V.VERIF)
        r = json.load(open(os.path.join(out_dir, "impl.json")))
        print(json.dumps(r, indent=1)[:6000])
        return 1 if r["failures"] else 0
    pt = rp.get("point")
    if pt:
        exe = os.path.join(V.TARGET, "release", "c05")
        out_dir = os.path.join(V.GEN, "C05_replay")
        os.makedirs(out_dir, exist_ok=True)
        rc, out, _ = V.sh([exe, "--out", out_dir, "--point", pt], cwd=V.VERIF)
        r = json.load(open(os.path.join(out_dir, "impl.json")))
        print(json.dumps(r, indent=1)[:6000])
        return 1 if r["failures"] else 0
    for key in ("mismatches", "cases", "files"):
        if key in rp:
            print(json.dumps(rp[key][:3], indent=1)[:6000])
    return 1
