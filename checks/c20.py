"""C20 — transport properties and the parameter estimator are consistent with the model.  DESIGN.md section 5, C20.

Deciding obligations (machine-checked):
  coq/props/C20.v over coq/theories/{LossC20,EstimatorC20,TransportC20}.v  — closed forms of the losses for all (loss, f<>0, r),
  zero cost on model-generated data, weight normalisation / scale invariance, MARD = mean, value = reference*exp(correlation),
  positivity of the collision integrals and references on the whole T* box, pure limits of the mixing rules.
Tie (route H, every run): the harness runs the REAL Loss::apply, DataSet::{cost,relative_difference,mean_absolute_relative_difference},
  Estimator::cost (mock data sets), EntropyScaling::{*_correlation,*_reference} of PC-SAFT (+ SAFT-VRQ Mie), State::{viscosity,...}
  on seeded random inputs and emits goals  Rabs (model(exact inputs) - exact impl value) <= tol  closed by `interval`.
Support search (no theorem; labelled partial): predict() of every data-set type vs the direct library call with an independent
  unit conversion; model-generated targets => zero relative difference / cost / MARD; positivity / finiteness / pure limit on State.
"""
import concurrent.futures
import math
import os
import re
import vplib as V

PROP_FILES = [os.path.join(V.PROPS, "C20.v")]
MAX_RETRY = 10


# ---------------------------------------------------------------------------------------------
# python mirrors of the specification (used to decide, by the property text, whether a failing goal is a failing input)

def rho(loss, z):
    if loss == "Linear":
        return z
    if loss == "SoftL1":
        return 2.0 * (math.sqrt(1.0 + z) - 1.0)
    if loss == "Huber":
        return z if z <= 1.0 else 2.0 * math.sqrt(z) - 1.0
    if loss == "Cauchy":
        return math.log1p(z)
    if loss == "Arctan":
        return math.atan(z)
    raise ValueError(loss)


def closed_form(loss, s, r):
    if loss == "SoftL1":
        z = r * r / (s * s)
        return math.sqrt(s * s * 2.0 * (z / (math.sqrt(1.0 + z) + 1.0)))   # cancellation-free
    return math.sqrt(s * s * rho(loss, r * r / (s * s)))


def est_cost_spec(weights, datasets):
    out = []
    sw = sum(weights)
    for w, d in zip(weights, datasets):
        n = len(d["target"])
        for p, t in zip(d["pred"], d["target"]):
            r = (p - t) / t
            c = r if d["loss"] == "Linear" else closed_form(d["loss"], d["s"], r)
            out.append(c / n * (w / sw))
    return out


def close(a, b, rtol, atol=0.0):
    if a is None or b is None or isinstance(a, str) or isinstance(b, str):
        return a == b
    return abs(a - b) <= rtol * max(abs(a), abs(b)) + atol


def num(x):
    return x if isinstance(x, (int, float)) else None


# ---------------------------------------------------------------------------------------------

def compile_collect(path, goals):
    """coqc the generated file; on an error at a goal line record the goal as failed, blank it and retry, so that all
    failing goals of the file are found.  returns (n_ok, failed_goals, infra_error)"""
    by_line = {g["line"]: g for g in goals}
    failed = []
    for _ in range(MAX_RETRY + 1):
        r = V.coqc_one(path, timeout=900)
        if r["rc"] == 0:
            return len(goals) - len(failed), failed, None, r
        m = re.search(r'line (\d+), characters', r["out"])
        if not m or int(m.group(1)) not in by_line:
            return 0, failed, (V.coq_error(r["out"]) or r["out"][-600:]), r
        ln = int(m.group(1))
        g = dict(by_line.pop(ln))
        g["coq_error"] = (V.coq_error(r["out"]) or "")[:300]
        failed.append(g)
        lines = open(path).read().split("\n")
        lines[ln - 1] = "(* goal %s failed and was removed by the check to find further failures *)" % g["lemma"]
        open(path, "w").write("\n".join(lines))
    # too many failing goals: the remaining ones stay unchecked (not counted as discharged); the failures found are reported
    return 0, failed, None, r


def classify_failed(fname, g):
    """(category, failing_input_found, description) of a failed correspondence goal"""
    c = g["case"]
    if fname.startswith("loss_"):
        spec = closed_form(c["loss"], c["s"], c["r"])
        dev = abs(c["impl"] - spec)
        found = dev > 10 * c["tol"] + 1e-9 * abs(spec)
        return "loss", found, {"loss": c["loss"], "scaling_factor": c["s"], "residual": c["r"], "Loss::apply returned": c["impl"],
                               "closed form sqrt(f^2 rho(r^2/f^2))": spec, "tol": c["tol"]}
    if fname.startswith("est_"):
        d = {"what": c.get("what"), "impl": c.get("impl")}
        found = False
        if c.get("what") == "Estimator::cost entry":
            spec = est_cost_spec(c["weights"], c["datasets"])
            k = c["index"]
            d.update({"weights": c["weights"], "datasets": c["datasets"], "index": k, "n_new": c.get("n_new"),
                      "operations": c.get("operations"),
                      "specified (w_i/sum w) * loss(reldiff)/n_i": spec[k] if k < len(spec) else None})
            found = k >= len(spec) or not close(spec[k], c["impl"], 1e-7)
        elif "reldiff" in c:
            fin = [abs(x) for x in c["reldiff"] if isinstance(x, (int, float))]
            spec = sum(fin) / len(fin) if fin else None
            d.update({"reldiff": c["reldiff"], "mean of |.| over finite entries": spec})
            found = spec is None or not close(spec, c["impl"], 1e-9)
        else:
            found = True
            d.update(c)
        return "estimator", found, d
    # transport: the model value is not recomputed in python; the goal's inputs + impl value are the replay
    return "transport", True, c


def run(ctx):
    impl = V.run_harness("c20", ctx)
    gen_files = [os.path.join(ctx.gen, f["file"]) for f in impl["files"]]
    tie = os.path.join(V.THEORIES, "TieC20.v")
    lib = V.check_props(ctx, PROP_FILES, gen_files + [tie])
    # the generated goals use the tactics of TieC20 (not a dependency of the props file): build it too
    ok, out = V.build_coq(ctx, targets=[tie])
    if not ok:
        V.violation(ctx, "coq/theories/TieC20.v does not build: %s" % (V.coq_error(out) or out[-400:]),
                    {"broken": "library (TieC20)", "coq_error": V.coq_error(out)}, found_input=False)
    obligations = lib["obligations"]
    discharged = lib["discharged"]

    # ---- generated correspondence goals
    results = {}
    with concurrent.futures.ThreadPoolExecutor(max_workers=V.NPROC) as ex:
        futs = {ex.submit(compile_collect, os.path.join(ctx.gen, f["file"]), f["goals"]): f for f in impl["files"]}
        for fu in concurrent.futures.as_completed(futs):
            f = futs[fu]
            results[f["file"]] = fu.result()
            ctx.log("coqc_" + f["file"] + ".log", fu.result()[3]["out"])
    goals_total = 0
    goals_ok = 0
    by_kind = {}
    failed_by_cat = {}
    for f in impl["files"]:
        n_ok, failed, infra, _ = results[f["file"]]
        kind = f["file"].split("_")[0]
        k = by_kind.setdefault(kind, [0, 0])
        k[0] += len(f["goals"])
        k[1] += n_ok
        goals_total += len(f["goals"])
        goals_ok += n_ok
        for g in failed:
            cat, found, desc = classify_failed(f["file"], g)
            failed_by_cat.setdefault(cat, []).append({"file": "gen/C20/" + f["file"], "lemma": g["lemma"], "failing_input": found,
                                                      "case": desc, "coq_error": g.get("coq_error")})
        if infra:
            V.violation(ctx, "generated file %s does not compile outside a goal line: %s" % (f["file"], infra),
                        {"broken": "correspondence (generated file)", "file": f["file"], "coq_error": infra}, found_input=False)
    obligations += goals_total
    discharged += goals_ok
    for cat, fl in sorted(failed_by_cat.items()):
        found = [x for x in fl if x["failing_input"]]
        what = {"loss": "Loss::apply differs from the model / closed form sqrt(f^2 rho(r^2/f^2))",
                "estimator": "DataSet::cost / Estimator::cost / mean_absolute_relative_difference differs from the model "
                             "(normalised weights w_i/sum(w), loss(reldiff)/n_i, mean of |.|)",
                "transport": "entropy-scaling reference / correlation / State value differs from the model "
                             "(reference * exp(correlation(s_res)), Chapman-Enskog + Wilke, coefficient mixing rule x_i m_i / m_bar)"}[cat]
        V.violation(ctx, "%s: %d correspondence goal(s) failed; first: %s" % (what, len(fl), str((found or fl)[0]["case"])[:400]),
                    {"broken": "correspondence goals (interval) of category " + cat, "failing": (found or fl)[:10], "n_failed": len(fl)},
                    found_input=bool(found))

    # ---- exact / structural comparisons on the implementation outputs (python side)
    known = V.load_known("C20")
    kn_linear = next((e for e in known if e.get("key", {}).get("loss") == "Linear"), None)
    py_bad = []
    lin_neg_seen = 0
    counts = {"zero": 0, "huber_threshold": 0, "linear_negative": 0, "nonfinite": 0}
    for pc in impl["loss"]["py_cases"]:
        k, c = pc["kind"], pc["case"]
        counts[k] = counts.get(k, 0) + 1
        v = c["impl"]
        if k == "nonfinite" or v is None:
            py_bad.append({"why": "Loss::apply returned a non-finite value for finite inputs", "case": c})
        elif k == "zero":
            if v != 0.0:
                py_bad.append({"why": "apply(0) must be 0 for every loss (apply_zero)", "case": c})
        elif k == "huber_threshold":
            if not close(v, abs(c["s"]), 8e-16):
                py_bad.append({"why": "Huber at |r| = s must be |s| on either branch (huber_threshold_agree)", "case": c})
        elif k == "linear_negative":
            if v == c["r"]:
                lin_neg_seen += 1
            elif v != abs(c["r"]):
                py_bad.append({"why": "Linear on a negative residual must be r (as coded) or |r| (closed form)", "case": c})
    if lin_neg_seen:
        if kn_linear:
            V.report_known(ctx, kn_linear)
        else:
            ex = next(pc["case"] for pc in impl["loss"]["py_cases"] if pc["kind"] == "linear_negative")
            V.violation(ctx, "Loss::Linear returns the signed residual: apply(r) = r <> sqrt(f^2 rho(r^2/f^2)) = |r| for r < 0",
                        {"broken": "closed form of the Linear loss on negative residuals (C20_linear_negative_refuted)", "failing": [ex]}, found_input=True)
    for b in impl["loss"]["batch"]:
        if b["batch"] != b["single"]:
            py_bad.append({"why": "apply on an array differs from element-wise apply", "case": b})
    if py_bad:
        V.violation(ctx, "Loss::apply: %s" % py_bad[0]["why"], {"broken": "exact loss cases", "failing": py_bad[:10]}, found_input=True)

    est_bad = []
    for sc in impl["estimator"]["scenarios"]:
        cost, ws = sc["cost"], sc["weights"]
        if sc["model_data"] and (any(c != 0.0 for c in cost) or any(m != 0.0 for m in sc["mard"])):
            est_bad.append({"why": "model-generated data (prediction == target) must give zero cost and zero MARD", "scenario": sc})
        if len(cost) != len(sc["cost_scaled"]) or any(not close(a, b, 1e-13) for a, b in zip(cost, sc["cost_scaled"])):
            est_bad.append({"why": "cost changed when all weights were multiplied by %r" % sc["scale"], "scenario": sc})
        if len(cost) != len(sc["cost_single_new"]) or any(not close(a, b, 1e-13) for a, b in zip(cost, sc["cost_single_new"])):
            est_bad.append({"why": "Estimator built by new(first %d sets) + add_data(rest) has a different cost than Estimator::new with "
                                   "the same (weight, data set) pairs (est_cost_history_independent)" % sc["n_new"],
                            "case": {"weights": ws, "datasets": sc["datasets"], "n_new": sc["n_new"], "cost": cost,
                                     "cost_single_new": sc["cost_single_new"]}})
        if sc["n_predict"] != len(ws) or sc["n_datasets"] != len(ws):
            est_bad.append({"why": "Estimator::predict / datasets do not return one entry per stored data set", "scenario": sc})
        flat = []
        for w, pc in zip(ws, sc["per_dataset_cost"]):
            flat += [c * (w / sum(ws)) for c in pc]
        if len(flat) != len(cost) or any(not close(a, b, 1e-13) for a, b in zip(flat, cost)):
            est_bad.append({"why": "Estimator::cost is not the concatenation of DataSet::cost_i * w_i / sum(w)", "scenario": sc})
    if est_bad:
        V.violation(ctx, "Estimator: %s" % est_bad[0]["why"], {"broken": "estimator structure on the implementation", "failing": est_bad[:5]}, found_input=True)

    # ---- State layer (support; the value/reference/correlation identity is also an interval goal)
    st_bad = []
    tc_low = 0
    n_states = 0
    for st in impl["transport"]["states"]:
        rec = st["rec"]
        if "state_err" in rec:
            continue
        n_states += 1
        for name in ("viscosity", "diffusion", "thermal_conductivity"):
            if name not in rec:
                continue
            r = rec[name]
            val, ref, red = num(r["value"]), num(r["reference"]), num(r["ln_reduced"])
            ctxd = {"model": st["model"], "components": st["components"], "T": st["T"], "eta": st["eta"], "x": st["x"], "s_res": rec["s_res"], name: r}
            if val is None or ref is None or red is None:
                st_bad.append({"why": "%s is not finite / not available for a fluid state" % name, "state": ctxd})
                continue
            if r["ln_reduced"] != r["trait_correlation"] or r["reference"] != r["trait_reference"]:
                st_bad.append({"why": "State::ln_%s_reduced / %s_reference is not the EntropyScaling call at (s_res of the state, x)" % (name, name), "state": ctxd})
            if not close(val, ref * math.exp(red), 1e-13):
                st_bad.append({"why": "State::%s <> reference * exp(correlation)" % name, "state": ctxd})
            if not val > 0.0 or not ref > 0.0:
                low = name == "thermal_conductivity" and st.get("tstar_over_m") is not None and st["tstar_over_m"] < 0.3552 and not st.get("propane")
                if low:
                    tc_low += 1      # outside the proved range, random (not shipped) record: counted, not decided
                else:
                    st_bad.append({"why": "%s or its reference is not positive for a fluid state" % name, "state": ctxd})
    for pl in impl["transport"]["pure_limit"]:
        a, b = pl["mixture"], pl["pure"]
        if a is None or b is None or any(not close(x, y, 1e-9, 1e-12) for x, y in zip(a, b)):
            st_bad.append({"why": "mixture with n_2 = 0 does not reproduce the pure-component viscosity [value, ln reduced, reference]", "state": pl})
    if st_bad:
        V.violation(ctx, "State transport properties: %s" % st_bad[0]["why"], {"broken": "State layer (support search + identities)", "failing": st_bad[:8]}, found_input=True)

    # ---- data sets: predict vs the direct call; model-generated targets (support search, partial)
    ds = impl["datasets"]
    ds_bad = []
    ds_n = 0
    types = set()
    if ds.get("panic"):
        ds_bad.append({"why": "the data-set part of the harness panicked"})
    for d in ds.get("pure", []):
        types.add(d["type"].split("(")[0])
        if "predict_err" in d:
            # an error of the whole data set is legitimate iff the direct call fails for some entry as well
            if all(isinstance(v, (int, float)) for v in d["direct"]):
                ds_bad.append({"why": "predict failed although the direct library call succeeds for every entry", "dataset": d})
            continue
        ds_n += 1
        p, q = d["predict"], d["direct"]
        if len(p) != len(q) or len(p) != d["datapoints"]:
            ds_bad.append({"why": "predict has the wrong number of entries", "dataset": d})
            continue
        extrap = set(d.get("extrapolated_idx", []))
        for i, (a, b) in enumerate(zip(p, q)):
            if isinstance(a, str) or isinstance(b, str):
                if a != b:
                    ds_bad.append({"why": "predict and the direct call disagree on failure / NaN policy at entry %d: %r vs %r" % (i, a, b), "dataset": d})
            elif i in extrap:
                # documented fallback above the model's critical point: ln p linear in 1/T through (T_c, p_c) and 0.9 T_c
                if not (a > 0) or not close(a, b, 1e-8):
                    ds_bad.append({"why": "extrapolated vapor pressure differs from ln p linear in 1/T through the critical point and 0.9 T_c "
                                          "at entry %d: %r vs %r" % (i, a, b), "dataset": d})
            elif not close(a, b, 1e-12):
                ds_bad.append({"why": "predict differs from the direct library call (independent unit conversion) at entry %d: %r vs %r" % (i, a, b), "dataset": d})
        mg = d.get("model_generated")
        if mg:
            vals = list(mg["reldiff"]) + [mg["mard"]] + list(mg["estimator_cost"]) + [c for cs in mg["cost"].values() for c in cs]
            if any(isinstance(v, str) or abs(v) > 1e-13 for v in vals):
                ds_bad.append({"why": "model-generated targets do not give zero relative difference / cost / MARD", "dataset": d})
    for d in ds.get("binary", []):
        types.add(d["type"].split("(")[0])
        ds_n += 1
        lim = 5e-3 if d["type"].startswith("BinaryPhaseDiagram") else 1e-9
        rd = d.get("reldiff")
        if not isinstance(rd, list) or any(isinstance(v, str) or abs(v) > lim for v in rd):
            ds_bad.append({"why": "binary data set generated by the model does not reproduce its targets (|reldiff| <= %g)" % lim, "dataset": d})
    if ds_bad:
        V.violation(ctx, "data sets: %s" % ds_bad[0]["why"], {"broken": "support search: predict wrappers", "failing": ds_bad[:6]}, found_input=True)

    # ---- evidence
    samples = []
    for f in impl["files"]:
        kind = f["file"].split("_")[0]
        if f["goals"] and not any(s.get("kind") == kind for s in samples):
            g = f["goals"][-1]
            src = open(os.path.join(ctx.gen, f["file"])).read().split("\n")
            samples.append({"kind": kind, "file": "gen/C20/" + f["file"], "goal": src[g["line"] - 1][:600], "case": {k: v for k, v in g["case"].items() if k not in ("datasets",)}})
    cov = {
        "obligations": obligations,
        "discharged": discharged,
        "checker_cmd": "make -C coq (coqc 8.16.1, full .vo) ; coqc coq/gen/C20/<file>.v (interval goals)",
        "trusted_base": V.COMMON_TRUSTED + [
            "C20: hand-written models LossC20/EstimatorC20/TransportC20 (route H), tied by the generated interval goals on the sampled inputs",
            "C20: harness-side mock DataSet (target/prediction given) for the trait's provided methods and Estimator::cost",
            "C20: quantity's SI conversion of the implementation's results (convert_to) and the SI constants KB, NAV, RGAS copied into TransportC20",
        ],
        "library_theorems": lib["obligations"],
        "library_files": lib["library_files"],
        "axioms_reported": lib["axioms"],
        "correspondence_goals": {k: {"emitted": v[0], "proved": v[1]} for k, v in sorted(by_kind.items())},
        "correspondence_goal_kinds": {"loss": "Loss::apply vs loss_apply", "est": "Estimator driven through random operation sequences (new with k sets, then add_data ...): cost entries / length vs est_cost_st (est_run (est_new ..) ..), MARD vs mard",
                                      "tcorr": "PcSaft *_correlation vs visc_corr/diff_corr/tc_corr",
                                      "tref": "PcSaft *_reference (SI) vs visc_ref/diff_ref/tc_ref",
                                      "tstate": "State value vs entropy_scaling reference ln_reduced; SAFT-VRQ Mie correlations / diffusion / thermal conductivity references",
                                      "tvrq": "SaftVRQMie::viscosity_reference of 1-3 component mixtures vs visc_ref with sigma_eff/epsilon_k_eff"},
        "tolerances": {"loss": "1e-12*|v| (+2e-15*s^2/|v| for SoftL1/Cauchy: cancellation of sqrt(1+z)-1, ln(1+z)); |r|/|s| in [1e-3,1e3]",
                       "estimator": "1e-9*|v| per cost entry, 1e-12*|v| MARD", "correlations": "1e-12 * sum of |terms| bound",
                       "references": "1e-11 relative (thermal conductivity 1e-10 + 1e-12)", "state": "1e-12 relative",
                       "predict_vs_direct": "1e-12 relative (extrapolated vapor pressure above T_c: 1e-8)", "model_generated_zero": "1e-13 absolute (unit round trip)",
                       "binary_vle": "1e-9; BinaryPhaseDiagram 5e-3 (piecewise-linear diagram)"},
        "exact_cases": counts,
        "linear_negative_observed_signed": lin_neg_seen,
        "estimator_scenarios": len(impl["estimator"]["scenarios"]),
        "states": n_states,
        "thermal_conductivity_nonpositive_outside_proved_range_(random_records,_not_decided)": tc_low,
        "pure_limit_states": len(impl["transport"]["pure_limit"]),
        "datasets_evaluated": ds_n,
        "dataset_types": sorted(types),
        "samples": samples,
        "rule": "seeded random (loss, f, r), weights, mock data sets, PC-SAFT records with random coefficients, (T, eta, x); "
                "every case is a call of the real implementation; one interval goal per returned number",
    }
    V.write_evidence(ctx, "proof", cov, [
        "floating-point round-off is not modelled (real semantics); comparisons use the stated tolerances",
        "PARTIAL (support search, no theorem): 'every data set predicts exactly what the corresponding library call returns' "
        "is checked per data-set type on sampled inputs against the direct call with an independent unit conversion",
        "PARTIAL: positivity of the thermal-conductivity reference is proved for T*/m >= 0.3552 only; below it is searched, not decided",
        "PARTIAL: 'finite' for fluid states (no NaN from the State layer) is runtime behaviour: searched on sampled states",
        "PeTS has no EntropyScaling implementation in this tree (commented out); SAFT-VRQ Mie shares the correlation code "
        "(tied by viscosity_correlation goals and State identities), its T-dependent sigma_eff/epsilon_eff reference is not modelled",
        "NaN propagation through Loss::apply / cost is not modelled (R has no NaN); MARD's is_finite filter is modelled by option",
        "known finding C20/linear-signed: Loss::Linear returns r (not |r|); theorem C20_apply_closed_form excludes exactly (Linear, r<0)",
    ])


def replay(rp):
    """re-run the failing loss / estimator cases of a replay on the current implementation (other categories: print)"""
    import json
    import subprocess
    print("C20 replay: %s" % rp.get("what", "")[:300])
    exe = V.build_harness("c20")
    path = os.path.join(V.VERIF, "build", "tmp", "c20_replay.json")
    os.makedirs(os.path.dirname(path), exist_ok=True)
    json.dump(rp, open(path, "w"))
    p = subprocess.run([exe, "--replay", path, "--out", os.path.join(V.VERIF, "build", "tmp")], stdout=subprocess.PIPE, env=V.ENV)
    try:
        res = json.loads(p.stdout.decode().strip().splitlines()[-1])
    except Exception:
        res = []
    reproduced = 0
    for r in res:
        if r["kind"] == "loss":
            spec = closed_form(r["loss"], r["s"], r["r"])
            bad = r["impl"] is None or not close(r["impl"], spec, 1e-9, 1e-300)
            print("  Loss::%s(f=%r).apply(r=%r) = %r ; closed form sqrt(f^2 rho(r^2/f^2)) = %r  -> %s"
                  % (r["loss"], r["s"], r["r"], r["impl"], spec, "DEVIATES" if bad else "agrees"))
            reproduced += bad
        elif r["kind"] == "estimator":
            spec = est_cost_spec(r["weights"], r["datasets"])
            bad = len(spec) != len(r["cost"]) or any(not close(a, b, 1e-7) for a, b in zip(spec, r["cost"]))
            print("  Estimator[new(first %s sets) + add_data(rest)]::cost(weights=%r) = %r ; specified (w_i/sum w) loss(reldiff)/n_i = %r -> %s"
                  % (r.get("n_new"), r["weights"], r["cost"], spec, "DEVIATES" if bad else "agrees"))
            reproduced += bad
    if not res:
        print(json.dumps(rp, indent=1)[:6000])
        return 1 if rp.get("failing_input_found") else 0
    print("REPRODUCED" if reproduced else "not reproduced on the current tree")
    return 1 if reproduced else 0
