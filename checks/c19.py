"""C19 — DFT results obey the Gibbs adsorption relation and their reported derivatives.  DESIGN.md section 5, C19 (revised:
proof on the logic that can be modelled, partial on the numerical convergence; see notes/C19.md).

Deciding theorems (coq/props/C19.v; models coq/theories/{GibbsC19,HenryC19,EvalC19}.v), for ANY number of unknowns (segments x
grid points), weights, segment lengths, external potential and ANY smooth discretised functional (F, D, H abstract):
  a. Gibbs adsorption: along a differentiable family of Euler-Lagrange solutions dOmega = - sum_i w_i rho_i dmu_i, and the
     quantity grand_potential_density integrates IS the grand potential at a solution;
  b. the tangent of a family of solutions solves the linear system of density_derivative with exactly the right-hand sides
     drho_dmu / drho_dp / drho_dt assemble (Gibbs-Duhem for the bulk side), uniqueness, dN = weighted sums; ideal-gas closed forms;
  c. Henry coefficient: exact N/p for the ideal gas, sandwich for a real fluid, ideal-gas enthalpy of adsorption = -T^2 dlnK_H/dT.
Tie (route H, every run, `interval` goals regenerated from the REAL implementation):
  * henry_<k>.v   henry_coefficients / ideal_gas_enthalpy_of_adsorption of small slit pores vs henry_sph / qst_sph (spherical) and
                  henry_gen / qst_gen (heterosegmented chains; Boltzmann factor x public bond_integrals as data);
  * ideal_<k>.v   an ideal-gas functional in LJ93 / Steele pores: moles, grand potential, dn_dmu, dn_dp, dn_dt, enthalpy of
                  adsorption, Henry coefficient, N/p vs the closed forms ig_*;
  * lin_<k>.v     solved pores with real functionals: the returned drho_dmu/drho_dp/drho_dt put back into the operator (hook
                  verif_delta_functional_derivative) vs rhs_mu / rhs_p / code_rhs_t at sampled cells; dn_* = wsum.
  * seq_<k>.v     sequences of calls on ONE PoreProfile object (solve / update_bulk / specification change / loose, failed and debug
                  solves): the state machine PoreCacheC19 (invariant proved for every sequence: a stored grand potential / interfacial
                  tension is that of the current profile and bulk) is run in Coq on the observed sequence and must print the stored fields.
Direct checks (f64, whole arrays): max |A x - rhs| of every system; LU identity of the enthalpy of adsorption; equal segment integrals.
Support (labelled partial, never deciding alone): central differences of re-solved profiles (Richardson-extrapolated, tolerance from
  the measured step error) for grand potential vs -N dmu, dn_dmu, dn_dp, dn_dt; N/p at vanishing pressure vs Henry coefficient;
  surface tension vs box length / grid size, monotone in T, small towards Tc, pDGT vs DFT.
"""
import math
import os
import re
import vplib as V

PROP_FILES = [os.path.join(V.PROPS, "C19.v")]
LIN_ABS, LIN_REL = 3e-13, 1e-11     # |A x - rhs| <= LIN_ABS + LIN_REL * max|rhs|  (GMRES stops at an absolute l2 residual 1e-13; worst seen 8e-13 at scale 7e2, 1.5e-14 at 1e-6)
LU_RTOL = 1e-9                      # dn_dmu . h_ads = -T dn_dt  (worst seen 1.6e-16)
SEG_RTOL = 1e-9                     # integrals of Boltzmann factor x bonds of the segments of one molecule (worst seen 4e-16)
FD_FLOOR = 5e-5                     # relative floor of the central-difference comparisons
FD_NOISE = 8.0                      # + FD_NOISE * (solver tolerance 1e-12 x pore volume) / |difference|: the profiles are converged to an ABSOLUTE density
                                    # residual, so a dilute component carries a relative noise (measured: 2e-11 particles on differences of 2e-7)
FD_STEP_FACTOR = 1.0                # + |E1 - E2|: disagreement of the two Richardson estimates (steps 2h,h and h,h/2) = measured error of the comparison
FD_ROUGH = 2.0                      # + FD_ROUGH * roughness: for smooth N(rho_b) the second difference obeys c(h/2) = c(h)/4; the violation of that by the 7 re-solved
                                    # points (-2h..2h), relative to the difference N(+h) - N(-h), measures how far the re-solved data are from ONE smooth branch
FD_INCONCLUSIVE = 1e-3              # two estimates further apart than this: the re-solved profiles do not resolve the derivative at this state (convergence
                                    # noise amplified by a soft mode of the linearised operator, or steps outside the asymptotic range) -> counted as inconclusive
BRANCH = 0.05                       # |N(+h) + N(-h) - 2 N(0)| / |N(+h) - N(-h)| above this: neighbouring solutions are not on one smooth
                                    # branch (hysteresis / capillary condensation region) -> not decidable, listed
HENRY_LIMIT_RTOL = 1e-4             # N/p at rho_b = 1e-11 vs Henry coefficient (worst seen 2.6e-6)
QST_LIMIT_RTOL = 1e-4               # enthalpy of adsorption at rho_b = 1e-11 vs ideal-gas enthalpy of adsorption (worst seen 5e-7)
CACHE_RTOL = 1e-12                  # stored grand_potential / interfacial_tension vs the value recomputed from the same object (same code, same data: seen 0)
SEQ_GIBBS_RTOL = 5e-3               # trapezoid rule Omega_b - Omega_a = -(N_a+N_b)/2 (mu_b - mu_a) between solved states of one object (steps <= 6 % in density:
                                    # error ~ (dln rho)^2/12 <= 3e-4; worst seen 1.1e-4)
EQUIL_RTOL = 1e-3                   # |Omega_vapour-like - Omega_liquid-like| / |Omega| of the pore phase equilibrium (seen 4.5e-5)
GAMMA_BOX_RTOL = 2e-5               # surface tension vs box length (60..300 A; 60 A only for T/Tc <= 0.9), worst seen 2e-7
GAMMA_GRID_RTOL = 1e-4              # surface tension vs grid size 256..4096 on 100 A (worst seen 1e-9 .. 3e-6)
GAMMA_CRIT_RATIO = 0.12             # gamma(0.95 Tc) / gamma(0.5 Tc) (observed 0.045 propane, 0.053 argon; (1-T/Tc)^1.26 scaling gives 0.055)
PDGT_RTOL = {"pcsaft": 0.07, "pets": 0.13}   # measured: PC-SAFT propane/butane <= 4.6 %, PeTS argon <= 10.1 % (0.5 Tc, below its triple point), <= 5.1 % above 0.7 Tc


def num(x):
    return x if isinstance(x, (int, float)) else float("nan")


def failed_tags(out):
    return sorted(set(int(t) for t in re.findall(r"C19FAIL (\d+)", out)))


def roughness(curvs, diff):
    """curvs: |f(+s) + f(-s) - 2 f(0)| for s = 2h, h, h/2; diff: |f(+h) - f(-h)| -> relative non-smoothness of the re-solved data"""
    c0, c1, c2 = curvs
    return max(abs(c2 - c1 / 4.0), abs(c1 - c0 / 4.0)) / max(abs(diff), 1e-300)


def pore_key(c):
    return {k: c.get(k) for k in ("name", "T", "rho_b", "potential", "pore_size", "grid") if k in c}


def richardson(pairs):
    """pairs: [(2h, v), (h, v), (h/2, v)] of a quantity with truncation error ~ h^2 -> (estimate, disagreement): two independent Richardson
    extrapolations, E1 from (2h, h) (least affected by the convergence noise of the re-solved profiles, which grows like 1/h) and E2 from (h, h/2)
    (least truncation error); their disagreement is the error estimate of the comparison itself"""
    (h0, v0), (h1, v1), (h2, v2) = pairs
    e1 = (4.0 * v1 - v0) / 3.0
    e2 = (4.0 * v2 - v1) / 3.0
    return e1, abs(e1 - e2)


def run(ctx):
    impl = V.run_harness("c19", ctx)
    gen_files = sorted(os.path.join(ctx.gen, f) for f in os.listdir(ctx.gen) if f.endswith(".v"))
    lib = V.check_props(ctx, PROP_FILES, gen_files)
    res = V.coqc_many(gen_files, ctx, timeout=900)
    obligations = lib["obligations"]
    discharged = lib["discharged"]
    samples = []
    worst = {}
    undecided = []

    def note_worst(key, val):
        if isinstance(val, (int, float)) and val == val:
            worst[key] = max(worst.get(key, 0.0), val)

    def goals_of(case, what):
        """account for the goals of one generated file; returns the failing tags (None when the file did not compile at all)"""
        nonlocal obligations, discharged
        f = case.get("file")
        if not f:
            return []
        r = res.get(os.path.join(ctx.gen, f)) or {"rc": 1, "out": "file missing"}
        ft = failed_tags(r["out"])
        n = len(case.get("tags", []))
        obligations += n
        if r["rc"] == 0:
            discharged += n
            return []
        if ft:
            discharged += n - len(ft)
            return ft
        V.violation(ctx, "gen/C19/%s does not compile: %s" % (f, V.coq_error(r["out"]) or r["out"][-300:]),
                    {"broken": "correspondence: %s" % what, "coq_error": V.coq_error(r["out"]), "input": pore_key(case)}, found_input=False)
        return None

    # ------------------------------------------------------------------ Part A: Henry coefficients
    n_henry = 0
    for c in impl["henry_cases"]:
        if c.get("error"):
            undecided.append({"henry_case": pore_key(c), "error": c["error"]})
            continue
        n_henry += 1
        ft = goals_of(c, "henry_coefficients / ideal_gas_enthalpy_of_adsorption goals")
        if ft:
            bad = [t for t in c["tags"] if t["tag"] in ft]
            V.violation(ctx, "%s in %s at T=%.2f: %s differ from the model (Boltzmann factor integral / T resp. T (h - T h')/h): impl K_H %s q %s, model K_H %s q %s"
                        % (c["name"], c["potential"], c["T"], sorted(set(t["what"] for t in bad)), c["henry"], c["qst"], c["model_henry_f64"], c["model_qst_f64"]),
                        {"broken": "correspondence: HenryC19.henry_*/qst_* vs PoreProfile::henry_coefficients / ideal_gas_enthalpy_of_adsorption (gen/C19/%s)" % c["file"],
                         "input": pore_key(c), "failing_goals": bad, "impl": {"henry": c["henry"], "qst": c["qst"]},
                         "model_f64": {"henry": c["model_henry_f64"], "qst": c["model_qst_f64"]},
                         "property_clause": "at vanishing pressure N/p equals the Henry coefficient and its temperature dependence the ideal-gas enthalpy of adsorption"},
                        found_input=True)
        # all segments of one molecule carry the same integral (every segment density integrates to the number of molecules)
        si, ci = c.get("segment_integrals") or [], c.get("component_index") or []
        for comp in sorted(set(ci)):
            vals = [num(si[i]) for i in range(len(ci)) if ci[i] == comp and i < len(si)]
            if len(vals) > 1:
                rel = (max(vals) - min(vals)) / max(abs(max(vals)), 1e-300)
                note_worst("segment_integrals_rel_spread", rel)
                if not rel <= SEG_RTOL:
                    V.violation(ctx, "%s: the segments of component %d give different Henry integrals %s" % (c["name"], comp, vals),
                                {"broken": "implementation: Boltzmann factor x bond integrals integrates differently for the segments of one molecule",
                                 "input": pore_key(c), "segment_integrals": vals}, found_input=True)
    if impl["henry_cases"]:
        c = impl["henry_cases"][0]
        samples.append({"henry": {k: c.get(k) for k in ("name", "T", "potential", "pore_size", "grid", "henry", "qst", "model_henry_f64", "model_qst_f64")}})

    # ------------------------------------------------------------------ Part B: ideal gas closed forms
    n_ideal = 0
    for c in impl["ideal_cases"]:
        if c.get("error"):
            V.violation(ctx, "ideal-gas functional in %s: %s" % (c["potential"], c["error"]),
                        {"broken": "implementation: derivative routines fail on the ideal gas", "input": pore_key(c), "error": c["error"]}, found_input=True)
            continue
        n_ideal += 1
        ft = goals_of(c, "ideal-gas closed forms")
        if ft:
            bad = [t for t in c["tags"] if t["tag"] in ft]
            V.violation(ctx, "ideal gas (rho_b=%.3e, T=%.2f) in %s: %s differ from the closed forms: %s" % (
                c["rho_b"], c["T"], c["potential"], [t["what"] for t in bad],
                {t["what"]: (t["impl"], c["model_f64"].get(t["what"])) for t in bad}),
                {"broken": "correspondence: HenryC19.ig_* vs DFTProfile::{moles,dn_dmu,dn_dp,dn_dt}, PoreProfile::{grand_potential,enthalpy_of_adsorption,henry_coefficients} (gen/C19/%s)" % c["file"],
                 "input": pore_key(c), "failing_goals": bad, "model_f64": c["model_f64"],
                 "property_clause": "for F = 0 the reported derivatives have closed forms (HenryC19.ig_dN_dmu, ig_dN_dp, ig_dN_dT, ig_enthalpy_of_adsorption)"},
                found_input=True)
    if impl["ideal_cases"] and not impl["ideal_cases"][0].get("error"):
        c = impl["ideal_cases"][0]
        samples.append({"ideal_gas": {k: c.get(k) for k in ("T", "rho_b", "potential", "grid", "moles", "dn_dmu", "dn_dp", "dn_dt", "enthalpy_of_adsorption", "model_f64")}})

    # ------------------------------------------------------------------ Part C: linear systems
    n_lin = 0
    n_systems = 0
    for c in impl["lin_cases"]:
        if c.get("error"):
            undecided.append({"lin_case": pore_key(c), "error": c["error"]})
            continue
        n_lin += 1
        ft = goals_of(c, "linear-system goals")
        tag_bad = {}
        if ft:
            for t in c["tags"]:
                if t["tag"] in ft:
                    tag_bad.setdefault(t["system"], []).append(t)
        for s in c["systems"]:
            n_systems += 1
            tol = LIN_ABS + LIN_REL * num(s["rhs_scale"])
            r = num(s["max_abs_residual"])
            note_worst("linear_system_residual_over_tol", r / tol)
            if not r <= tol or s["system"] in tag_bad:
                what = {"p": "drho_dp", "t": "drho_dt"}.get(s["system"], "drho_dmu[%s]" % s["system"][2:])
                V.violation(ctx, "%s (T=%.2f, rho_b=%s, %s): %s does not solve the linearised Euler-Lagrange equation with the model's right-hand side: "
                            "max |A x - rhs| = %.3e at segment %d cell %d (A x = %.6e, rhs = %.6e), tolerance %.1e"
                            % (c["name"], c["T"], c["rho_b"], c["potential"], what, r, s["at"][0], s["at"][1], num(s["Ax_at"]), num(s["rhs_at"]), tol),
                            {"broken": "correspondence: GibbsC19.lin_op / rhs_mu / rhs_p / code_rhs_t vs DFTProfile::%s (gen/C19/%s + whole-array check)" % (what, c["file"]),
                             "input": pore_key(c), "system": s, "failing_goals": tag_bad.get(s["system"], []),
                             "property_clause": "the derivative of a family of Euler-Lagrange solutions solves this system (GibbsC19.linearised_EL*, code_rhs_t_correct); "
                                         "a returned field that does not is not the derivative of the adsorbed amounts"}, found_input=True)
        for sysname, bad in tag_bad.items():
            if sysname.startswith("dn_"):
                V.violation(ctx, "%s: %s is not the weighted sum of the density derivative: %s" % (c["name"], sysname, [d for d in c["dn"] if d["what"] == sysname]),
                            {"broken": "correspondence: HenryC19.wsum vs DFTProfile::dn_* (gen/C19/%s)" % c["file"], "input": pore_key(c),
                             "values": [d for d in c["dn"] if d["what"] == sysname]}, found_input=True)
        lu = num(c.get("enthalpy_lu_residual"))
        note_worst("enthalpy_lu_residual", lu)
        hs, ht = num(c.get("enthalpy_sum")), num(c.get("enthalpy_of_adsorption"))
        if not lu <= LU_RTOL or not abs(hs - ht) <= LU_RTOL * max(abs(ht), 1.0):
            V.violation(ctx, "%s: enthalpy of adsorption is not the solution of dn_dmu h = -T dn_dt weighted with the bulk mole fractions (residual %.2e; sum x h = %r, returned %r)"
                        % (c["name"], lu, hs, ht),
                        {"broken": "implementation: partial_molar_enthalpy_of_adsorption / enthalpy_of_adsorption", "input": pore_key(c),
                         "dn_dmu": c.get("dn_dmu"), "dn_dt": c.get("dn_dt"), "partial_molar_enthalpy_of_adsorption": c.get("partial_molar_enthalpy_of_adsorption"),
                         "enthalpy_of_adsorption": ht, "molefracs": c.get("molefracs")}, found_input=True)
    if impl["lin_cases"] and not impl["lin_cases"][0].get("error"):
        c = impl["lin_cases"][0]
        samples.append({"linear_systems": {"input": pore_key(c), "systems": [{k: s[k] for k in ("system", "max_abs_residual", "rhs_scale")} for s in c["systems"]], "dn": c["dn"][:3]}})

    # ------------------------------------------------------------------ Part D: central differences (support)
    fd_cmp = 0
    inconclusive = []
    by_case = {c["case"]: c for c in impl["lin_cases"]}
    for f in impl["fd_cases"]:
        lin = by_case.get(f["case"], {})
        key = pore_key(lin)
        dd = f["density_direction"]
        if any("error" in d for d in dd):
            undecided.append({"fd_density_direction": key, "error": [d.get("error") for d in dd]})
        else:
            ncomp = len(dd[0]["dN"])
            branch = max(num(d["curvature"][i]) / max(abs(num(d["dN"][i])), 1e-300) for d in dd[-1:] for i in range(ncomp))   # smallest step: a constant offset shows most
            if branch > BRANCH:
                undecided.append({"fd_density_direction": key, "why": "neighbouring solutions are not on one smooth branch (|N+ + N- - 2 N0| / |N+ - N-| = %.3g): "
                                  "hysteresis / capillary condensation region, outside the quantifier" % branch})
            else:
                # Gibbs adsorption: Omega(+h) - Omega(-h) = - sum_i N_i dmu_i + O(h^3)
                ratios = [(d["h"], num(d["d_omega"]) / num(d["minus_N_dmu"])) for d in dd]
                ext, step = richardson(ratios)
                rough = roughness([num(d["omega_curvature"]) for d in dd], num(dd[1]["d_omega"]))
                tol = FD_FLOOR + FD_STEP_FACTOR * step + FD_ROUGH * rough + FD_NOISE * num(f["noise_N"]) * lin["T"] / abs(num(dd[1]["d_omega"]))
                fd_cmp += 1
                step = max(step, rough)
                if step > FD_INCONCLUSIVE:
                    inconclusive.append({"what": "grand potential vs -N dmu", "input": key, "estimates_disagree_by": step, "roughness_of_resolved_data": rough, "ratios": ratios})
                else:
                    note_worst("gibbs_adsorption_rel", abs(ext - 1.0))
                if step <= FD_INCONCLUSIVE and not abs(ext - 1.0) <= tol:
                    V.violation(ctx, "%s: grand potential of re-solved profiles changes by %.8e, -N dmu = %.8e (ratio %.6f extrapolated, tolerance %.1e)"
                                % (f["name"], num(dd[1]["d_omega"]), num(dd[1]["minus_N_dmu"]), ext, tol),
                                {"broken": "support (partial): Gibbs adsorption relation on re-solved profiles", "input": key, "steps": dd, "ratio": ext, "tol": tol,
                                 "moles": f["moles"], "grand_potential": f["grand_potential"]}, found_input=True)
                for i in range(ncomp):
                    for what, pred in (("dn_dmu", "dn_dmu_times_dmu"), ("dn_dp", "dn_dp_times_dp")):
                        ratios = [(d["h"], num(d["dN"][i]) / num(d[pred][i])) for d in dd]
                        ext, step = richardson(ratios)
                        rough = roughness([num(d["curvature"][i]) for d in dd], num(dd[1]["dN"][i]))
                        tol = FD_FLOOR + FD_STEP_FACTOR * step + FD_ROUGH * rough + FD_NOISE * num(f["noise_N"]) / abs(num(dd[1]["dN"][i]))
                        fd_cmp += 1
                        step = max(step, rough)
                        if step > FD_INCONCLUSIVE:
                            inconclusive.append({"what": what + " vs re-solved profiles", "component": i, "input": key, "estimates_disagree_by": step,
                                                 "roughness_of_resolved_data": rough, "ratios": ratios})
                        else:
                            note_worst(what + "_fd_rel", abs(ext - 1.0))
                        if step <= FD_INCONCLUSIVE and not abs(ext - 1.0) <= tol:
                            V.violation(ctx, "%s: adsorbed amount of component %d of re-solved profiles changes by %.8e, %s predicts %.8e (ratio %.6f extrapolated, tolerance %.1e)"
                                        % (f["name"], i, num(dd[1]["dN"][i]), what, num(dd[1][pred][i]), ext, tol),
                                        {"broken": "support (partial): %s vs central differences of moles() of re-solved profiles" % what, "input": key, "component": i,
                                         "steps": dd, "ratio": ext, "tol": tol, what: lin.get(what)}, found_input=True)
        tt = f["temperature_direction"]
        if any("error" in d for d in tt):
            undecided.append({"fd_temperature_direction": key, "error": [d.get("error") for d in tt]})
        else:
            ncomp = len(tt[0]["dn_dt"])
            branch = max(num(d["curvature"][i]) / max(abs(num(d["dN_dT_fd"][i])), 1e-300) for d in tt[-1:] for i in range(ncomp))
            if branch > BRANCH:
                undecided.append({"fd_temperature_direction": key, "why": "neighbouring solutions are not on one smooth branch (%.3g)" % branch})
            else:
                for i in range(ncomp):
                    ratios = [(d["h"], num(d["dN_dT_fd"][i]) / num(d["dn_dt"][i])) for d in tt]
                    ext, step = richardson(ratios)
                    # (the harness stores |N+ + N- - 2 N0| / (2 dT) and (N+ - N-) / (2 dT))
                    rough = roughness([num(d["curvature"][i]) * 2.0 * d["dT"] for d in tt], num(tt[1]["dN_dT_fd"][i]) * 2.0 * tt[1]["dT"])
                    tol = FD_FLOOR + FD_STEP_FACTOR * step + FD_ROUGH * rough + FD_NOISE * num(f["noise_N"]) / (2.0 * tt[1]["dT"]) / abs(num(tt[1]["dN_dT_fd"][i]))
                    fd_cmp += 1
                    step = max(step, rough)
                    if step > FD_INCONCLUSIVE:
                        inconclusive.append({"what": "dn_dt vs re-solved profiles", "component": i, "input": key, "estimates_disagree_by": step,
                                             "roughness_of_resolved_data": rough, "ratios": ratios})
                    else:
                        note_worst("dn_dt_fd_rel", abs(ext - 1.0))
                    if step <= FD_INCONCLUSIVE and not abs(ext - 1.0) <= tol:
                        V.violation(ctx, "%s: dN/dT of component %d from re-solved profiles at constant pressure is %.8e, dn_dt returns %.8e (ratio %.6f extrapolated, tolerance %.1e)"
                                    % (f["name"], i, num(tt[1]["dN_dT_fd"][i]), num(tt[1]["dn_dt"][i]), ext, tol),
                                    {"broken": "support (partial): dn_dt (and hence the enthalpy of adsorption) vs central differences of moles() of re-solved profiles",
                                     "input": key, "component": i, "steps": tt, "ratio": ext, "tol": tol}, found_input=True)
    if impl["fd_cases"]:
        f = impl["fd_cases"][0]
        samples.append({"central_differences": {"name": f["name"], "density_direction": f["density_direction"][:1], "temperature_direction": f["temperature_direction"][:1]}})

    # N/p at vanishing pressure vs Henry coefficient, enthalpy of adsorption vs ideal-gas enthalpy of adsorption
    for c in impl["henry_limits"]:
        rows = [r for r in c["rows"] if "error" not in r]
        for r in c["rows"]:
            if "error" in r:
                undecided.append({"henry_limit": pore_key(c), "rho_b": r["rho_b"], "error": r["error"]})
        if not rows:
            continue
        last = min(rows, key=lambda r: r["rho_b"])
        for i, (a, b) in enumerate(zip(last["N_over_p"], last["henry"])):
            rel = abs(num(a) / num(b) - 1.0)
            fd_cmp += 1
            note_worst("N_over_p_vs_henry_rel", rel)
            if not rel <= HENRY_LIMIT_RTOL:
                V.violation(ctx, "%s in %s at T=%.2f: N/p at rho_b=%.0e is %.8e, Henry coefficient %.8e (relative %.2e > %.0e)"
                            % (c["name"], c["potential"], c["T"], last["rho_b"], num(a), num(b), rel, HENRY_LIMIT_RTOL),
                            {"broken": "support (partial): N/p at vanishing pressure vs henry_coefficients", "input": pore_key(c), "rows": c["rows"], "component": i}, found_input=True)
        h, q = last.get("partial_molar_enthalpy_of_adsorption"), last["qst_ideal"]
        if h:
            for i, (a, b) in enumerate(zip(h, q)):
                rel = abs(num(a) - num(b)) / max(abs(num(b)), c["T"])
                fd_cmp += 1
                note_worst("enthalpy_of_adsorption_limit_rel", rel)
                if not rel <= QST_LIMIT_RTOL:
                    V.violation(ctx, "%s in %s at T=%.2f: enthalpy of adsorption at rho_b=%.0e is %.8e, ideal-gas enthalpy of adsorption %.8e"
                                % (c["name"], c["potential"], c["T"], last["rho_b"], num(a), num(b)),
                                {"broken": "support (partial): enthalpy of adsorption at vanishing pressure vs ideal_gas_enthalpy_of_adsorption", "input": pore_key(c),
                                 "rows": c["rows"], "component": i}, found_input=True)
    if impl["henry_limits"]:
        samples.append({"henry_limit": impl["henry_limits"][0]})

    # ------------------------------------------------------------------ Part F: call sequences on one object, drivers
    def close(a, b):
        return isinstance(a, (int, float)) and isinstance(b, (int, float)) and abs(a - b) <= CACHE_RTOL * max(abs(a), abs(b), 1e-300)

    def dy(v):
        """coq_parse of `Some (m, e)` / `None` -> float / None"""
        if v == "None":
            return None
        if isinstance(v, tuple) and v[0] == "Some":
            m, e = v[1]
            return math.ldexp(float(m), int(e)) if abs(e) < 1000 else float(m) * 2.0 ** e
        raise ValueError("unexpected cache value %r" % (v,))

    n_seq_steps = 0
    for c in impl.get("seq_cases", []):
        key = dict(pore_key(c), ops=c.get("ops"))
        if c.get("error") or not c.get("file"):
            undecided.append({"seq_case": key, "error": c.get("error")})
            continue
        r = res.get(os.path.join(ctx.gen, c["file"])) or {"rc": 1, "out": "file missing"}
        steps = c["steps"]
        obligations += len(steps)
        model = None
        if r["rc"] == 0:
            try:
                model = [(dy(a), dy(b)) for a, b in V.tagged(r["out"])["SEQ"][0]]
            except Exception as e:  # noqa
                model = None
        if model is None or len(model) != len(steps):
            V.violation(ctx, "gen/C19/%s: the replay of the call sequence did not evaluate: %s" % (c["file"], V.coq_error(r["out"]) or r["out"][-300:]),
                        {"broken": "correspondence: PoreCacheC19.replay", "input": key, "coq_error": V.coq_error(r["out"])}, found_input=False)
            continue
        bad = []
        for k, (st, (mo, mg)) in enumerate(zip(steps, model)):
            n_seq_steps += 1
            ok = True
            for field, mv in (("grand_potential", mo), ("interfacial_tension", mg)):
                sv = st["stored_" + field]
                if (sv is None) != (mv is None) or (sv is not None and not close(num(sv), mv)):
                    ok = False
                    bad.append({"after_call": k, "call": st["op"], "result": st["result"], "field": field, "stored": sv, "model": mv,
                                "recomputed_from_the_object": st["fresh_" + field], "moles": st["moles"], "rho_b": st["rho_b"]})
            if ok:
                discharged += 1
        if bad:
            # headline: a solved state that reports a value of another state (the failing input proper), else the first mismatch
            b0 = next((b for b in bad if b["stored"] is not None and b["model"] is not None), bad[0])
            V.violation(ctx, "%s: after the calls %s the stored %s is %r, the model (= value recomputed from the current profile and bulk) gives %r"
                        % (c["name"], [s["op"] for s in steps[:b0["after_call"] + 1]], b0["field"], b0["stored"], b0["model"]),
                        {"broken": "correspondence: PoreCacheC19 (cache_fresh_always, solve_ok_stores, update_bulk_clears) vs PoreProfile::{solve_inplace, update_bulk} (gen/C19/%s)" % c["file"],
                         "input": key, "mismatches": bad,
                         "property_clause": "the grand potential reported for a solved pore is that of its current profile and bulk state; a stale value breaks dOmega/dmu = -N"},
                        found_input=True)
        # Gibbs adsorption between the solved states of the object (trapezoid rule; support)
        # (only states reached by a converged tight solve are equilibrium states; loose / debug solves return Ok without being one)
        solved = [st for st in steps if st["result"] == "Ok" and st["op"] == 'Solve("tight")' and st["stored_grand_potential"] is not None]
        for a, b in zip(solved, solved[1:]):
            dmu = [y - x for x, y in zip(a["mu"], b["mu"])]
            pred = -sum(0.5 * (na + nb) * d for na, nb, d in zip(a["moles"], b["moles"], dmu))
            dom = num(b["stored_grand_potential"]) - num(a["stored_grand_potential"])
            scale = abs(num(a["stored_grand_potential"]))
            if abs(pred) < 1e-4 * scale:
                continue    # (nearly) the same bulk state
            rel = abs(dom / pred - 1.0)
            fd_cmp += 1
            note_worst("gibbs_between_states_of_one_object_rel", rel)
            if not rel <= SEQ_GIBBS_RTOL:
                V.violation(ctx, "%s: between two solves of one object the reported grand potential changes by %.8e, -N dmu = %.8e" % (c["name"], dom, pred),
                            {"broken": "support (partial): Gibbs adsorption relation along a continuation on one PoreProfile object", "input": key,
                             "states": [a, b], "ratio": dom / pred}, found_input=True)
    if impl.get("seq_cases"):
        c = impl["seq_cases"][0]
        samples.append({"call_sequence": {"name": c["name"], "ops": c.get("ops"), "steps": [{k: s[k] for k in ("op", "result", "stored_grand_potential", "fresh_grand_potential")} for s in c.get("steps", [])[:4]]}})

    n_driver_profiles = 0
    for c in impl.get("driver_cases", []):
        dkey = {k: c.get(k) for k in ("name", "T", "p_lo", "p_hi", "points", "potential", "pore_size", "grid")}
        for driver in ("adsorption_isotherm", "desorption_isotherm", "phase_equilibrium", "equilibrium_isotherm"):
            v = c.get(driver)
            if v is None:
                continue
            if "error" in v:
                undecided.append({"driver": driver, "input": dkey, "error": v["error"]})
                continue
            getter = v.get("grand_potential_getter")
            for i, pr in enumerate(v["profiles"]):
                if "error" in pr:
                    undecided.append({"driver": driver, "input": dkey, "point": i, "error": pr["error"]})
                    continue
                n_driver_profiles += 1
                fd_cmp += 1
                for field in ("grand_potential", "interfacial_tension"):
                    sv, fv = pr["stored_" + field], pr["fresh_" + field]
                    if sv is None or not close(num(sv), num(fv)) or (field == "grand_potential" and getter and not close(num(getter[i]), num(fv))):
                        V.violation(ctx, "Adsorption::%s (%s), profile %d at p=%.6e: stored %s %r, recomputed from the returned profile %r"
                                    % (driver, c["name"], i, num(pr["pressure"]), field, sv, fv),
                                    {"broken": "implementation: a driver returns a PoreProfile whose stored %s is not that of its profile and bulk state (PoreCacheC19.cache_fresh_always)" % field,
                                     "input": dict(dkey, driver=driver), "profile": i, "values": pr}, found_input=True)
            if driver == "phase_equilibrium" and len(v["profiles"]) == 2 and all("error" not in pr for pr in v["profiles"]):
                a, b = v["profiles"]
                rel = abs(num(a["fresh_grand_potential"]) - num(b["fresh_grand_potential"])) / max(abs(num(a["fresh_grand_potential"])), 1e-300)
                fd_cmp += 1
                note_worst("phase_equilibrium_omega_rel_difference", rel)
                if not rel <= EQUIL_RTOL or not abs(num(a["pressure"]) / num(b["pressure"]) - 1.0) <= 1e-9:
                    V.violation(ctx, "Adsorption::phase_equilibrium (%s): the two pore phases do not have equal grand potentials at one bulk state: %r vs %r (p %r, %r)"
                                % (c["name"], a["fresh_grand_potential"], b["fresh_grand_potential"], a["pressure"], b["pressure"]),
                                {"broken": "support (partial): pore phase equilibrium", "input": dict(dkey, driver=driver), "profiles": v["profiles"]}, found_input=True)
    if impl.get("driver_cases"):
        c = impl["driver_cases"][0]
        samples.append({"driver": {"name": c["name"], "phase_equilibrium": c.get("phase_equilibrium")}})

    # ------------------------------------------------------------------ Part E: planar interfaces (support)
    pdgt_seen = {}
    for c in impl["planar"]:
        if c.get("error"):
            undecided.append({"planar": c["name"], "error": c["error"]})
            continue
        model = "pets" if "pets" in c["name"] else "pcsaft"
        for pt in c["per_T"]:
            if pt.get("error"):
                undecided.append({"planar": c["name"], "tau": pt["tau"], "error": pt["error"]})
                continue
            tau = pt["tau"]
            boxes = [(b["L"], b["n"], num(b["gamma"])) for b in pt["by_box"] if b.get("gamma") is not None and (b["L"] >= 100.0 or tau <= 0.9)]
            for b in pt["by_box"]:
                if b.get("gamma") is None:
                    undecided.append({"planar": c["name"], "tau": tau, "L": b["L"], "n": b["n"], "error": "solve failed"})
            if len(boxes) >= 2:
                g = [x[2] for x in boxes]
                rel = (max(g) - min(g)) / max(abs(max(g)), 1e-300)
                fd_cmp += 1
                note_worst("surface_tension_vs_box_rel", rel)
                if not rel <= GAMMA_BOX_RTOL:
                    V.violation(ctx, "%s at T/Tc=%.4f: surface tension depends on the box length: %s (relative %.2e > %.0e)" % (c["name"], tau, boxes, rel, GAMMA_BOX_RTOL),
                                {"broken": "support (partial): surface tension vs box length", "input": {"functional": c["name"], "T_over_Tc": tau, "Tc": c["Tc"]},
                                 "values": [{"L": x[0], "n": x[1], "gamma": x[2]} for x in boxes]}, found_input=True)
            grids = [(b["L"], b["n"], num(b["gamma"])) for b in pt["by_grid"] if b.get("gamma") is not None]
            if len(grids) >= 2:
                g = [x[2] for x in grids]
                rel = (max(g) - min(g)) / max(abs(max(g)), 1e-300)
                fd_cmp += 1
                note_worst("surface_tension_vs_grid_rel", rel)
                if not rel <= GAMMA_GRID_RTOL:
                    V.violation(ctx, "%s at T/Tc=%.4f: surface tension depends on the grid size: %s (relative %.2e > %.0e)" % (c["name"], tau, grids, rel, GAMMA_GRID_RTOL),
                                {"broken": "support (partial): surface tension vs grid resolution", "input": {"functional": c["name"], "T_over_Tc": tau, "Tc": c["Tc"]},
                                 "values": [{"L": x[0], "n": x[1], "gamma": x[2]} for x in grids]}, found_input=True)
            ref = grids[-1][2] if grids else (boxes[-1][2] if boxes else None)
            if ref is not None and pt.get("pdgt") is not None:
                rel = abs(num(pt["pdgt"]) / ref - 1.0)
                pdgt_seen.setdefault(model, []).append((tau, rel))
                fd_cmp += 1
                if not rel <= PDGT_RTOL[model]:
                    V.violation(ctx, "%s at T/Tc=%.4f: pDGT surface tension %.6f vs DFT %.6f (%.1f %% > %.0f %%)" % (c["name"], tau, num(pt["pdgt"]), ref, 100 * rel, 100 * PDGT_RTOL[model]),
                                {"broken": "support (partial): pDGT vs DFT surface tension", "input": {"functional": c["name"], "T_over_Tc": tau, "Tc": c["Tc"]},
                                 "pdgt": pt["pdgt"], "dft": ref}, found_input=True)
        lad = [(l["tau"], num(l["gamma"]), l.get("pdgt")) for l in c["ladder"] if l.get("gamma") is not None]
        for l in c["ladder"]:
            if l.get("gamma") is None:
                undecided.append({"planar": c["name"], "tau": l["tau"], "error": "solve failed (ladder)"})
        for (t1, g1, _), (t2, g2, _) in zip(lad, lad[1:]):
            fd_cmp += 1
            if not (g2 < g1 and g2 > 0):
                V.violation(ctx, "%s: surface tension does not decrease with temperature: gamma(%.2f Tc) = %.6f, gamma(%.2f Tc) = %.6f" % (c["name"], t1, g1, t2, g2),
                            {"broken": "support (partial): surface tension monotone decreasing in T and positive", "input": {"functional": c["name"], "Tc": c["Tc"]},
                             "ladder": c["ladder"]}, found_input=True)
        if lad and lad[0][0] <= 0.5 + 1e-9 and lad[-1][0] >= 0.95 - 1e-9:
            ratio = lad[-1][1] / lad[0][1]
            note_worst("gamma_0.95Tc_over_gamma_0.5Tc", ratio)
            fd_cmp += 1
            if not ratio <= GAMMA_CRIT_RATIO:
                V.violation(ctx, "%s: surface tension does not become small towards the critical point: gamma(0.95 Tc)/gamma(0.5 Tc) = %.4f > %.2f" % (c["name"], ratio, GAMMA_CRIT_RATIO),
                            {"broken": "support (partial): surface tension vanishes towards the critical point", "input": {"functional": c["name"], "Tc": c["Tc"]},
                             "ladder": c["ladder"]}, found_input=True)
        for (tau, g, pd) in lad:
            if pd is not None:
                rel = abs(num(pd) / g - 1.0)
                pdgt_seen.setdefault(model, []).append((tau, rel))
                fd_cmp += 1
                if not rel <= PDGT_RTOL[model]:
                    V.violation(ctx, "%s at T/Tc=%.2f: pDGT surface tension %.6f vs DFT %.6f (%.1f %% > %.0f %%)" % (c["name"], tau, num(pd), g, 100 * rel, 100 * PDGT_RTOL[model]),
                                {"broken": "support (partial): pDGT vs DFT surface tension", "input": {"functional": c["name"], "T_over_Tc": tau, "Tc": c["Tc"]},
                                 "pdgt": pd, "dft": g}, found_input=True)
    for model, v in pdgt_seen.items():
        worst["pdgt_vs_dft_rel_max_" + model] = max(x[1] for x in v)
    if impl["planar"]:
        c = impl["planar"][0]
        samples.append({"planar": {"name": c.get("name"), "Tc": c.get("Tc"), "ladder": c.get("ladder"), "per_T": (c.get("per_T") or [])[:1]}})

    for e in V.load_known("C19"):
        pass  # no open finding is keyed to an observation of this check (see notes/C19.md)

    cov = {
        "obligations": obligations,
        "discharged": discharged,
        "checker_cmd": "make -C coq (coqc 8.16.1, full .vo) ; coqc coq/gen/C19/{henry_*,ideal_*,lin_*,seq_*}.v",
        "trusted_base": V.COMMON_TRUSTED + [
            "harness/src/bin/c19.rs: weights through integrate(indicator); right-hand sides rebuilt from public quantities (dual-number functional "
            "derivative through ConvolverFFT::plan, bulk functional derivative from a uniform profile on the same even-extension grid, partial molar volumes, dp/dT); "
            "operator applied through the hooks verif_delta_functional_derivative / verif_delta_bond_integrals (cfg feos_verif, C17's hook commit)",
            "the functional (F), its derivative (D) and second derivative (H) are abstract in the model; that the code's convolutions make D the gradient "
            "of F and H its Jacobian is C17's statement, here a hypothesis along the family (chain rule)"],
        "library_theorems": lib["obligations"],
        "library_files": lib["library_files"],
        "axioms_reported": lib["axioms"],
        "evaluations": n_henry + n_ideal + n_systems + fd_cmp + n_seq_steps,
        "call_sequences": [{"name": c["name"], "ops": c.get("ops")} for c in impl.get("seq_cases", [])],
        "call_sequence_states_replayed_in_coq": n_seq_steps, "driver_profiles_checked": n_driver_profiles,
        "henry_cases": n_henry, "ideal_gas_cases": n_ideal, "solved_pores_with_linear_systems": n_lin, "linear_systems": n_systems,
        "support_comparisons": fd_cmp,
        "systems": [pore_key(c) for c in impl["lin_cases"]],
        "henry_systems": [{k: c.get(k) for k in ("name", "potential", "grid", "bonds", "segments")} for c in impl["henry_cases"]],
        "tolerances": {"henry_goal_rel": 1e-11, "qst_goal": "1e-9 (|q| + T)", "ideal_gas_goals_rel": "1e-9 (N, Omega), 1e-8 (dn_*), 1e-7 (enthalpy)",
                       "linear_system": "|A x - rhs| <= %g + %g max|rhs|" % (LIN_ABS, LIN_REL), "dn_goal_rel": 1e-11, "enthalpy_lu_rel": LU_RTOL,
                       "segment_integrals_rel": SEG_RTOL, "stored_vs_recomputed_rel": CACHE_RTOL, "gibbs_between_states_of_one_object_rel": SEQ_GIBBS_RTOL,
                       "phase_equilibrium_omega_rel": EQUIL_RTOL,
                       "central_differences": "steps 2h, h, h/2 (h = 1e-2 relative); two Richardson estimates E1 (2h,h), E2 (h,h/2): |E1 - 1| <= %g + |E1 - E2| + 2 roughness + %g * 1e-12 * volume / |difference| "
                                              "(roughness = violation of c(h/2) = c(h)/4 by the second differences of the 7 re-solved points, relative to the first difference); "
                                              "inconclusive (counted, listed) when |E1 - E2| or the roughness > %g; skipped (listed) when |N+ + N- - 2N0| > %g |N+ - N-| at the smallest step" % (FD_FLOOR, FD_NOISE, FD_INCONCLUSIVE, BRANCH),
                       "henry_limit_rel": HENRY_LIMIT_RTOL, "enthalpy_limit_rel": QST_LIMIT_RTOL,
                       "surface_tension_vs_box_rel": GAMMA_BOX_RTOL, "surface_tension_vs_grid_rel": GAMMA_GRID_RTOL,
                       "gamma(0.95Tc)/gamma(0.5Tc)": GAMMA_CRIT_RATIO, "pdgt_vs_dft_rel": PDGT_RTOL},
        "worst_observed": worst,
        "pdgt_vs_dft": {m: [{"T_over_Tc": t, "rel": r} for t, r in v] for m, v in pdgt_seen.items()},
        "partial_not_decided_by_proof": {
            "what": "that the re-solved profiles and GMRES converge; agreement of the implicit derivatives with central differences of re-solved profiles; "
                    "the zero-pressure limit on real functionals; every planar-interface clause (box/grid independence, monotone in T, vanishing towards Tc, pDGT)",
            "undecided_cases": undecided,
            "inconclusive_comparisons": len(inconclusive), "inconclusive": inconclusive[:12]},
        "samples": samples[:10],
        "rule": "slit pores (LJ93, Steele, hard wall, SimpleLJ93, DoubleWell; seeded parameters, sizes 12-30 A, 64-256 points); functionals PeTS, PC-SAFT "
                "(methane m=1, propane m=2, methane+propane), FMT, gc-PC-SAFT (propane, propane+butane: bond integrals), an ideal-gas functional; "
                "bulk vapour states at seeded T (T/Tc in [0.6,1.5]) and densities; planar interfaces PC-SAFT propane (butane) and PeTS argon at seeded "
                "T/Tc in [0.5,0.95], boxes 60-300 A, 256-4096 points (fewer in the quick tier)",
    }
    V.write_evidence(ctx, "proof", cov, [
        "the discretised functional enters through (F, D, H); the chain rule along the family of solutions is a hypothesis of the theorems "
        "(D = gradient of F w.r.t. the weights, H = Jacobian of D: the adjointness / second-derivative statement of C17, labelled partial there)",
        "bond integrals (heterosegmented chains) are not in the proved linear-system theorems; for them the tie uses the hooks (whole-array residual) and the support runs",
        "floating-point round-off is not modelled; comparisons against f64 use the stated tolerances",
        "existence/differentiability of the family of solutions and injectivity of the linearised operator are hypotheses (they fail at capillary condensation / spinodals, "
        "outside the quantifier of the property)",
        "numerical convergence (re-solved profiles, GMRES, planar interfaces, pDGT) is labelled partial: supported by seeded runs, not decided by proof",
    ])


def replay(rp):
    """re-run the harness with the tier/seed of the replay and print what the implementation does now on the named input"""
    import json
    print(json.dumps({k: rp[k] for k in rp if k not in ("steps",)}, indent=1)[:4000])
    want = rp.get("input")
    if not isinstance(want, dict):
        return 0
    ctx = V.Ctx("C19_replay", rp.get("tier", "quick"), rp.get("seed", 1))
    impl = V.run_harness("c19", ctx)
    for c in impl.get("seq_cases", []):
        if all(c.get(k) == v for k, v in want.items()):
            for st in c.get("steps", []):
                print("now on the implementation: after %-24s (%s): stored Omega %s gamma %s | recomputed Omega %s gamma %s | N %s"
                      % (st["op"], st["result"], st["stored_grand_potential"], st["stored_interfacial_tension"], st["fresh_grand_potential"],
                         st["fresh_interfacial_tension"], st["moles"]))
    for c in impl.get("driver_cases", []):
        if all(c.get(k) == v for k, v in want.items() if k != "driver"):
            print("now on the implementation (%s): %s" % (want.get("driver"), json.dumps(c.get(want.get("driver", "phase_equilibrium")))[:3000]))
    for group in ("henry_cases", "ideal_cases", "lin_cases", "henry_limits"):
        for c in impl.get(group, []):
            if all(c.get(k) == v for k, v in want.items()):
                show = {k: c.get(k) for k in ("name", "T", "rho_b", "potential", "henry", "qst", "model_henry_f64", "model_qst_f64", "moles", "dn_dmu", "dn_dp", "dn_dt",
                                              "enthalpy_of_adsorption", "model_f64", "rows") if k in c}
                if "systems" in c:
                    show["systems"] = [{k: s[k] for k in ("system", "max_abs_residual", "rhs_scale", "Ax_at", "rhs_at")} for s in c["systems"]]
                print("now on the implementation (%s): %s" % (group, json.dumps(show)[:3000]))
    return 0
