"""C10 — total = ideal gas + residual; ideal-gas limits; ideal-gas models.  DESIGN.md section 5, C10.

Deciding obligations (machine-checked): the theorems of coq/props/C10.v about the hand-written models
  StateSelC10     contribution selector / every selector-taking getter of state/{properties,residual_properties}.rs
  IdealGasHelmC10 IdealGas::ideal_gas_helmholtz_energy: ideal pressure & the hard-coded ideal parts, c_v/c_p from ln Lambda^3,
                  mole-fraction averages, ideal mixing, (conditional) zero-density limit
  JobackC10, DipprC10   ln_lambda3 of the two shipped ideal-gas models; c_p from A^ig = the correlation, all T > 0
Tie (route H, every run): the harness runs the real implementation; `interval` goals generated into coq/gen/C10 execute the
models inside Coq on the same inputs (exact dyadic f64 values) and bound the difference to the implementation's results:
  lam_*.v    ln_lambda3(T), State-level and direct c_p^ig vs the correlation, per record (shipped + random DIPPR forms)
  mix_*.v    A^ig, dA/dV, dA/dT, d2A/dT2, dA/dN_i of the IdealGas trait on dual numbers vs the model; mixture c_p
  state_*.v  every getter x {IdealGas, Residual, Total} of the State API vs StateSelC10.value on the primitive jets;
             ideal pressure in SI (rho R T with the constants; -dA^ig/dV converted); ideal mixing in SI
Sampling always contains the corners of the property's quantifier (density 1e-12 rho_max with a trace component x_j = 1e-6) next to
random thin-gas / trace-composition states; a sweep of the IdealGas trait on dual numbers (ideal mixing, Euler relation, -dA/dV = rho T)
covers every density decade.
Oracle on the implementation alone (always on): Total = IdealGas + Residual to 1e-12 of the term scale for every getter,
c_p(State) = c_p(direct), rho_i = 0 guard, and the zero-density sweep (support search for the partial clause).
"""
import math
import os
import re
import vplib as V

PROP_FILES = [os.path.join(V.PROPS, "C10.v")]
GEN_LIB = os.path.join(V.THEORIES, "GenC10.v")
SUM_RTOL = 1e-12          # Total vs IdealGas + Residual, relative to the scale of the terms
CP_RTOL = 1e-9            # State-level c_p vs direct correlation (both implementation)
MODEL_RTOL = "1e-9 * scale (scale = sum of |terms|, computed by the harness; stated in every goal as an exact dyadic)"
Q_RGAS = 8.31446261815324
J_RGAS = 6.022140857 * 1.38064852
D_RGAS = 8.31446261815324 * 1000.0


def py_cp_over_r(model, t):
    """float re-computation of the correlation (search oracle only; the deciding comparison is the Coq goal)"""
    (k, c), = model.items()
    if k == "joback":
        return (c[0] + c[1] * t + c[2] * t ** 2 + c[3] * t ** 3 + c[4] * t ** 4) / J_RGAS
    if k == "DIPPR100":
        return sum(ci * t ** i for i, ci in enumerate(c)) / D_RGAS
    if k == "DIPPR107":
        a, b, cc, d, e = c
        ct, et = cc / t, e / t
        return (a + b * (ct / math.sinh(ct)) ** 2 + d * (et / math.cosh(et)) ** 2) / D_RGAS
    a, b, cc, d, e, f, g = c
    fun = lambda x: x * x * math.exp(x) / (math.exp(x) - 1.0) ** 2
    return (a + b * fun(cc / t) + d * fun(e / t) + f * fun(g / t)) / D_RGAS


def failing_lemma(path, out):
    """name of the lemma a coqc error falls into (generated files: one lemma per correspondence goal)"""
    m = re.search(r'line (\d+), characters', out)
    if not m:
        return None
    line = int(m.group(1))
    name = None
    with open(path) as f:
        for i, l in enumerate(f, 1):
            mm = re.match(r"Lemma (\S+) :", l)
            if mm:
                name = mm.group(1)
            if i >= line:
                break
    return name


def identities_check(report, c, where):
    """ideal-gas identities on the IdealGas trait (reduced units): ideal mixing, Euler relation, pressure; returns #evaluations"""
    n = 0
    state = dict(where, T=c["T"], V=c["V"], N=c["N"], total_number_density_per_A3=c["rho"])
    if not c["finite"]:
        report("trait_nonfinite", "ideal-gas Helmholtz energy or a derivative is not finite at T=%s V=%s N=%s" % (c["T"], c["V"], c["N"]),
               {"broken": "IdealGas::ideal_gas_helmholtz_energy (oracle)", "state": state}, True)
        return 1
    for m in c["mixing"]:
        n += 1
        d = m["mu_mix"] - m["mu_pure"]
        if not abs(d - m["T_ln_x"]) <= m["tol"]:
            report("trait_mixing", "ideal mixing violated on the IdealGas trait: (mu_i - mu_i^pure)/T = %.9g, ln x_i = %.9g "
                   "(x_i = %.3g, rho_i = %.3g /A^3, total density %.3g /A^3, T = %.6g K)" %
                   (d / c["T"], m["T_ln_x"] / c["T"], m["x"], m["rho_i"], c["rho"], c["T"]),
                   {"broken": "C10_ideal_mixing on the implementation (oracle, IdealGas::ideal_gas_helmholtz_energy on Dual64)",
                    "state": state, "mixing": m}, True)
    n += 2
    if not abs(c["euler_residual"]) <= c["euler_tol"]:
        report("trait_euler", "A^ig != -pV + sum mu_i N_i on the IdealGas trait at T=%s V=%s N=%s (residual %.6g)" %
               (c["T"], c["V"], c["N"], c["euler_residual"]),
               {"broken": "Euler relation of A_ig (C10_ideal_pressure + C10_ideal_chemical_potential) on the implementation (oracle)",
                "state": state, "residual": c["euler_residual"], "tol": c["euler_tol"]}, True)
    if not abs(c["p_residual"]) <= c["p_tol"]:
        report("trait_pressure", "-dA^ig/dV != rho T on the IdealGas trait at T=%s V=%s N=%s" % (c["T"], c["V"], c["N"]),
               {"broken": "C10_ideal_pressure on the implementation (oracle)", "state": state, "residual": c["p_residual"]}, True)
    return n


ZQ = ("z_res", "a_res", "s_res", "mu_res", "h_res", "cv_res", "dpdv_res_rel")


def zero_density_check(sweep):
    """support search for the partial clause: along rho/rho_max = 1e-2 ... 1e-12 every residual quantity X (made dimensionless
    with its ideal-gas scale) vanishes like B rho:
      finite      X is finite at every density (when it is at the reference densities: otherwise the model is undefined at this T)
      vanishes    local exponent log10|X(1e-11)/X(1e-12)| >= 0.8      (linear law: 1; sqrt law: 0.5; constant: 0; strongly associating
                  fluids reach the linear regime only below ~1e-9 rho_max, the unchanged tree gives >= 0.97 everywhere)
      converges   the slopes s_k = X/rho at rho <= 1e-8 rho_max form a Cauchy sequence: |s_k - s_(k-1)| <= 2 |s_(k-1) - s_(k-2)| + floor,
                  floor = 100 eps / (rho_k/rho_max) * max(1, |s(1e-7)|)   (round-off of X of 100 ulp of its natural scale; the
                  unchanged tree stays below ~15 ulp) - catches cancellation noise, which grows like 1/rho^2
      total-ideal (p_total - p_ideal)/p_ideal = Z_res to 1e-13 (observed up to 2e-15: SI <-> reduced conversions)
    returns (failures, number of tests, skipped)"""
    bad = []
    if sweep.get("panic"):
        return [{"quantity": "*", "what": "panic"}], 1, False
    rows = sweep["rows"]
    if any("error" in r for r in rows):
        return [{"quantity": "*", "what": "state construction failed", "rows": [r for r in rows if "error" in r][:2]}], 1, False
    refs = [r for r in rows if r["frac"] >= 1e-3]
    if all(any(r[q] is None for q in ZQ) for r in refs):
        return [], 0, True          # model undefined at this temperature already at ordinary densities
    n = 0
    eps = 2.220446049250313e-16
    for q in ZQ:
        n += 3
        vals = [(r["frac"], r[q]) for r in rows]
        if any(v is None for _, v in vals):
            bad.append({"quantity": q, "what": "not finite", "at_fraction_of_rho_max": [f for f, v in vals if v is None][:4]})
            continue
        d = dict(vals)
        if d[1e-12] != 0.0 and not abs(d[1e-12]) <= 10.0 ** (-0.8) * abs(d[1e-11]):
            bad.append({"quantity": q, "what": "does not vanish like rho", "X(1e-11)": d[1e-11], "X(1e-12)": d[1e-12],
                        "local_exponent": (math.log10(abs(d[1e-11]) / abs(d[1e-12])) if d[1e-11] != 0.0 else None)})
        sl = [(f, v / f) for f, v in vals]
        s7 = abs(dict(sl)[1e-7])
        for k in range(2, len(sl)):
            f = sl[k][0]
            if f > 1e-8:
                continue
            dk = abs(sl[k][1] - sl[k - 1][1])
            dk1 = abs(sl[k - 1][1] - sl[k - 2][1])
            floor = 100.0 * eps / f * max(1.0, s7)
            if not dk <= 2.0 * dk1 + floor:
                bad.append({"quantity": q, "what": "X/rho does not converge (noise grows towards zero density)", "fraction_of_rho_max": f,
                            "slopes": [x[1] for x in sl[k - 2:k + 1]], "allowed_step": 2.0 * dk1 + floor})
                break
    for r in rows:
        n += 1
        if r["p_tot_minus_ig_rel"] is None or r["z_res"] is None or not abs(r["p_tot_minus_ig_rel"] - r["z_res"]) <= 1e-13 * (1.0 + abs(r["z_res"])):
            bad.append({"quantity": "p_total - p_ideal", "what": "differs from p_residual", "fraction_of_rho_max": r["frac"],
                        "values": [r["p_tot_minus_ig_rel"], r["z_res"]]})
            break
    return bad, n, False


MAX_PER_KIND = 2


class Reporter:
    """at most MAX_PER_KIND VIOLATION lines per kind of failure (a broken formula fails at every sampled input)"""
    def __init__(self, ctx):
        self.ctx = ctx
        self.count = {}

    def __call__(self, kind, what, replay, found_input):
        n = self.count.get(kind, 0) + 1
        self.count[kind] = n
        if n <= MAX_PER_KIND:
            replay = dict(replay)
            replay["kind"] = kind
            V.violation(self.ctx, what, replay, found_input=found_input)

    def summary(self):
        return {k: v for k, v in self.count.items()}


def run(ctx):
    report = Reporter(ctx)
    impl = V.run_harness("c10", ctx)
    gen_files = sorted(os.path.join(ctx.gen, f) for f in impl["files"])
    lib = V.check_props(ctx, PROP_FILES, gen_files)
    # the support library of the generated goals (dyadic literals, tactics, guard-free form lemmas)
    probs = V.hygiene([GEN_LIB])
    ok, out = V.build_coq(ctx, targets=[GEN_LIB])
    if probs or not ok:
        report("genlib", "GenC10.v does not build / hygiene: %s %s" % (probs, V.coq_error(out) or ""),
                    {"broken": "library GenC10.v", "problems": probs, "coq_error": V.coq_error(out)}, found_input=False)
    gen_lib_thms = len(V.theorems_in(GEN_LIB))
    res = V.coqc_many(gen_files, ctx, timeout=1500)

    obligations = lib["obligations"] + gen_lib_thms
    discharged = lib["discharged"] + (gen_lib_thms if ok and not probs else 0)
    goals_total = 0
    goals_ok = 0
    samples = []

    def file_status(fname):
        r = res[os.path.join(ctx.gen, fname)]
        if r["rc"] == 0:
            return True, None, None
        return False, failing_lemma(os.path.join(ctx.gen, fname), r["out"]), V.coq_error(r["out"])

    # ------------------------------------------------------------------ part A: records
    by_file = {}
    for c in impl["records"]:
        by_file.setdefault(c["file"], []).append(c)
    n_rec_eval = 0
    worst_cp = 0.0
    for fname, cases in by_file.items():
        okf, lemma, err = file_status(fname)
        ngoals = sum(len(c.get("goals", [])) for c in cases)
        goals_total += ngoals
        for c in cases:
            if "error" in c:
                report("lam_error", "ln_lambda3 fails for %s at T=%s: %s" % (c["record"], c["T"], c["error"]),
                            {"broken": "implementation returns no finite ln_lambda3 on a record in the domain", "case": c}, found_input=True)
                continue
            n_rec_eval += 1
            # reference state of the model (C10_joback_reference_state / C10_dippr_reference_state): g^ig(T0, rho0) = 0.
            # 1e-6: joback.rs uses the CODATA-2014 k_B, the SI layer the 2019 value (3.4e-7 relative)
            gref = c.get("g_ref_over_RT")
            if gref is not None and not abs(gref) <= 1e-6:
                report("reference_state", "ideal-gas molar Gibbs energy at the reference state of the model is %.9g RT instead of 0 for %s "
                       "(T0 = 298.15 K; Joback: p0 = 1e5 Pa, DIPPR: rho0 = 1/T0 per A^3)" % (gref, c["record"]),
                       {"broken": "C10_joback_reference_state / C10_dippr_reference_state on the implementation (oracle)", "case": c}, True)
            # oracle on the implementation: State-level c_p (differentiated Helmholtz energy) vs the correlation
            corr = py_cp_over_r(c["model"], c["T"]) * Q_RGAS
            d1 = abs(c["cp_state"] - c["cp_direct"]) / max(abs(c["cp_direct"]), 1.0)
            d2 = abs(c["cp_state"] - corr) / max(abs(corr), 1.0)
            worst_cp = max(worst_cp, d1)
            if not (d1 <= CP_RTOL and d2 <= 1e-8):
                report("cp_oracle", "ideal-gas c_p from the Helmholtz energy differs from the correlation for %s at T=%.6g K: "
                            "state %.12g, direct %.12g, correlation %.12g J/mol/K" % (c["record"], c["T"], c["cp_state"], c["cp_direct"], corr),
                            {"broken": "C10_joback_cp / C10_dippr_cp on the implementation (oracle)", "case": c, "correlation": corr}, found_input=True)
        if okf:
            goals_ok += ngoals
        else:
            case = next((c for c in cases if lemma in c.get("goals", [])), None)
            which = (lemma or "?").split("_")[0]
            # a deviation of ln_lambda3 alone is not visible in the property's observables unless c_p / mixing / pressure move:
            # name a failing input only when the State-level or direct c_p goal is the one that broke
            found = which in ("cpS", "cpD")
            report("record_model", "model of %s and implementation disagree (%s) for %s at T=%s" %
                        ({"lam": "ln_lambda3", "cpS": "State c_p^ig vs correlation", "cpD": "direct c_p^ig vs correlation"}.get(which, which),
                         lemma, case and case["record"], case and case["T"]),
                        {"broken": "correspondence gen/C10/%s lemma %s" % (fname, lemma), "case": case, "coq_error": err}, found_input=found)
    for c in impl["records"][:3]:
        samples.append({k: c.get(k) for k in ("record", "kind", "T", "ln_lambda3", "cp_state", "cp_direct")})

    # ------------------------------------------------------------------ part B: mixtures on the trait, guard
    for c in impl["mixtures"]:
        okf, lemma, err = file_status(c["file"])
        goals_total += len(c["goals"])
        d1 = abs(c["cp_state"] - c["cp_direct"]) / max(abs(c["cp_direct"]), 1.0)
        if not d1 <= CP_RTOL:
            report("mix_cp_oracle", "mixture c_p^ig from the Helmholtz energy is not the mole-fraction average of the correlations: %s" % c["records"],
                        {"broken": "C10_joback_mixture / C10_dippr_mixture on the implementation (oracle)", "case": c}, found_input=True)
        identities_check(report, c["identities"], {"records": c["records"], "models": c["models"], "corner": c.get("corner")})
        if okf:
            goals_ok += len(c["goals"])
        else:
            which = (lemma or "?").split("_")[0]
            report("helm_model", "ideal-gas Helmholtz energy model and implementation disagree (%s) for mixture %s at T=%s V=%s N=%s" %
                        (lemma, c["records"], c["T"], c["V"], c["N"]),
                        {"broken": "correspondence gen/C10/%s lemma %s (A = Helmholtz energy, AV/AT/ATT/ANi its derivatives, cp* heat capacity)" % (c["file"], lemma),
                         "case": c, "coq_error": err}, found_input=which in ("AV", "cpS", "cpD", "cpM", "ATT"))  # A/AT/ANi alone: reference constants only
    if impl["mixtures"]:
        c = impl["mixtures"][0]
        samples.append({k: c.get(k) for k in ("records", "T", "V", "N", "A", "A_V", "A_TT", "cp_state")})
    n_ident = 0
    for c in impl["trait_sweep"]:
        n_ident += identities_check(report, c, {"records": c["records"]})
    n_guard = 0
    for gcase in impl["guard"]:
        n_guard += 1
        bad = not gcase["finite"]
        for a, b in zip(gcase["full"], gcase["subset"]):
            if a is None or b is None or not (abs(a - b) <= 1e-12 * (abs(a) + abs(b)) + 1e-300):
                bad = True
        if bad:
            report("guard", "rho_i = 0 guard: ideal-gas Helmholtz energy with an absent component differs from the subset system",
                        {"broken": "IdealGasHelmC10.comp_term_zero on the implementation (oracle)", "case": gcase}, found_input=True)

    # ------------------------------------------------------------------ part F: DFT profiles (entropy / internal energy density selectors)
    n_dft = 0
    for c in impl["dft"]:
        if "error" in c:
            report("dft_error", "DFT profile with ideal gas could not be evaluated: %s" % c, {"broken": "DFTProfile::entropy_density / internal_energy_density", "case": c}, False)
            continue
        okf, lemma, err = file_status(c["file"])
        goals_total += len(c["goals"])
        where = {k: c[k] for k in ("functional", "records", "models", "T")}
        for pt in c["points"]:
            n_dft += 2
            ds = pt["s_total"] - pt["s_residual"]
            du = pt["u_total"] - pt["u_residual"]
            if not abs(ds - pt["s_ideal_bulk"]) <= 1e-9 * pt["s_scale"]:
                report("dft_entropy", "DFT profile: entropy_density(Total) - entropy_density(Residual) = %.12g differs from the ideal-gas entropy density "
                       "%.12g of the bulk state with the same T and partial densities %s (reduced units, T = %.6g K)" % (ds, pt["s_ideal_bulk"], pt["rho"], c["T"]),
                       {"broken": "C10_total_is_sum / C10_dft_ideal_entropy_density on DFTProfile::entropy_density (oracle)", "profile": where, "point": pt}, True)
            if not abs(du - pt["u_ideal_bulk"]) <= 1e-9 * pt["u_scale"]:
                report("dft_energy", "DFT profile: internal_energy_density(Total) - (Residual) = %.12g differs from the bulk ideal-gas value %.12g at partial densities %s" %
                       (du, pt["u_ideal_bulk"], pt["rho"]),
                       {"broken": "C10_total_is_sum on DFTProfile::internal_energy_density (oracle)", "profile": where, "point": pt}, True)
        if okf:
            goals_ok += len(c["goals"])
        else:
            pt = next((p for p in c["points"] if lemma in p["goals"]), None)
            report("dft_model", "model of the local ideal-gas Helmholtz energy density and DFTProfile disagree at %s (T = %s, partial densities %s)" %
                   (lemma, c["T"], pt and pt["rho"]),
                   {"broken": "correspondence gen/C10/%s lemma %s (dftS: entropy density = -dA_dT(T,1,rho); dftU: internal energy density)" % (c["file"], lemma),
                    "profile": where, "point": pt, "coq_error": err}, True)
    if impl["dft"] and "points" in impl["dft"][0]:
        c = impl["dft"][0]
        samples.append({"dft_profile": c["functional"], "records": c["records"], "T": c["T"], "point": c["points"][2]})

    # ------------------------------------------------------------------ part C: State API
    n_sum = 0
    worst_sum = 0.0
    n_mix = 0
    for s in impl["states"]:
        okf, lemma, err = file_status(s["file"])
        goals_total += len(s["goals"])
        where = {k: s[k] for k in ("config", "ideal_gas", "T", "V", "N", "eta_over_eta_max")}
        for g in s["getters"]:
            if g.get("nonfinite"):
                continue
            n_sum += 1
            d = abs(g["Total"] - (g["IdealGas"] + g["Residual"]))
            rel = d / g["scale"]
            worst_sum = max(worst_sum, rel)
            if not rel <= SUM_RTOL:
                report("sum_oracle", "Total != IdealGas + Residual for %s on %s: total %.17g, ideal %.17g, residual %.17g" %
                            (g["getter"], s["config"], g["Total"], g["IdealGas"], g["Residual"]),
                            {"broken": "C10_total_is_sum on the implementation (oracle)", "state": where, "getter": g}, found_input=True)
        for mc in s["mu_contributions"]:
            li, lr, lt = mc["len"]
            si, sr, stot = mc["sum"]
            tol = SUM_RTOL * 10 * max(mc["scale"], 1e-300)
            if not (lt == li + lr and li == 1 and abs(stot - (si + sr)) <= tol and abs(si - mc["getter"][0]) <= tol
                    and abs(sr - mc["getter"][1]) <= tol and abs(stot - mc["getter"][2]) <= tol):
                report("mu_contributions", "chemical_potential_contributions: Total is not IdealGas ++ Residual / sums differ from chemical_potential on %s" % s["config"],
                       {"broken": "C10_total_is_sum on chemical_potential_contributions (oracle)", "state": where, "contributions": mc}, True)
        sp = s.get("subset_permutation")
        if sp:
            pairs = [sp["A"], sp["S"], sp["cp"]] + [list(z) for z in zip(*sp["mu"])]
            if any(a is None or b is None or not abs(a - b) <= 1e-11 * (abs(a) + abs(b)) + 1e-300 for a, b in pairs):
                report("subset_permutation", "ideal-gas properties change under relabelling with EquationOfState::subset(%s) on %s" % (sp["perm"], s["config"]),
                       {"broken": "ideal-gas part of a relabelled mixture (A, S, c_p, mu_i of Contributions::IdealGas; oracle)", "state": where, "values": sp}, True)
        dp = abs(s["p_ig_SI"] - s["rho_SI"] * Q_RGAS * s["T_SI"]) / abs(s["p_ig_SI"])
        if not dp <= 1e-12:
            report("p_si_oracle", "ideal-gas pressure is not rho R T in SI on %s" % s["config"],
                        {"broken": "C10_ideal_pressure (SI) on the implementation (oracle)", "state": where,
                         "p": s["p_ig_SI"], "rho": s["rho_SI"], "T": s["T_SI"]}, found_input=True)
        for m in s["mixing"]:
            n_mix += 1
            if not abs(m["mu_mix"] - m["mu_pure"] - m["RTlnx"]) <= m["tol"]:
                report("mixing_oracle", "ideal mixing violated on %s: mu_i - mu_i^pure = %.12g, RT ln x_i = %.12g" %
                            (s["config"], m["mu_mix"] - m["mu_pure"], m["RTlnx"]),
                            {"broken": "C10_ideal_mixing on the implementation (oracle)", "state": where, "mixing": m}, found_input=True)
        if okf:
            goals_ok += len(s["goals"])
        else:
            g = next((g for g in s["getters"] if lemma in g.get("goals", [])), None)
            report("state_model", "selector model and implementation disagree at %s (%s) on %s" % (lemma, g and g["getter"], s["config"]),
                        {"broken": "correspondence gen/C10/%s lemma %s (StateSelC10.value vs State getter; pSI/pAV/pMod: ideal pressure; mix: ideal mixing)" % (s["file"], lemma),
                         "state": where, "getter": g, "coq_error": err}, found_input=True)
    if impl["states"]:
        s = impl["states"][0]
        samples.append({"config": s["config"], "T": s["T"], "V": s["V"], "N": s["N"], "eta_over_eta_max": s["eta_over_eta_max"],
                        "getters": [{k: g.get(k) for k in ("getter", "IdealGas", "Residual", "Total")} for g in s["getters"][:4]]})

    # ------------------------------------------------------------------ part D: zero-density sweep (support search, partial clause)
    n_zero = 0
    zero_rows = 0
    zero_skipped = []
    known = [e for e in V.load_known("C10") if e.get("key", {}).get("kind") == "zero_density"]
    for sw in impl["zero_density"]:
        bad, n, skipped = zero_density_check(sw)
        n_zero += n
        zero_rows += len(sw["rows"])
        if skipped:
            zero_skipped.append({"config": sw["config"], "T": sw["T"], "x": sw["x"]})
        if not bad:
            continue
        entry = next((e for e in known if sw["config"] in e["key"]["configs"]
                      and all(b["quantity"] in e["key"]["quantities"] and b["what"] in e["key"]["modes"] for b in bad)), None)
        if entry is not None:
            V.report_known(ctx, entry)
            continue
        report("zero_density", "residual quantity does not vanish like B*rho on %s at T=%.6g x=%s: %s" %
               (sw["config"], sw["T"], sw["x"], bad[0]),
               {"broken": "zero-density limit (support search; C10_residual_zero_density_partial hypothesis / conclusion a/rho -> a'(0))",
                "config": sw["config"], "T": sw["T"], "x": sw["x"], "rho_max": sw["rho_max"], "failing": bad[:10],
                "sweep": [{k: r.get(k) for k in ("frac", "a_res", "z_res", "s_res", "mu_res", "cv_res")} for r in sw["rows"]]}, True)
    if impl["zero_density"]:
        sw = impl["zero_density"][0]
        samples.append({"zero_density": sw["config"], "T": sw["T"], "x": sw["x"],
                        "z_res_by_fraction_of_rho_max": [[r["frac"], r.get("z_res")] for r in sw["rows"]]})

    obligations += goals_total
    discharged += goals_ok
    cov = {
        "obligations": obligations,
        "discharged": discharged,
        "checker_cmd": "make -C coq (coqc 8.16.1, full .vo) ; coqc coq/props/C10.v ; coqc coq/gen/C10/{lam,mix,state}_*.v",
        "trusted_base": [
            "Coq 8.16.1 kernel",
            "standard-library axioms reported by Print Assumptions (classical reals, classic, functional_extensionality_dep; "
            "primitive float/int specs through the interval tactic)",
            "Coquelicot (is_derive, auto_derive), Interval (interval tactic), Flocq as installed",
            "hand-written models StateSelC10 / IdealGasHelmC10 / JobackC10 / DipprC10: tied to the code by the generated interval goals "
            "at the sampled inputs only (route H)",
            "harness bin c10 (exact dyadic printer, re-implementation of properties.rs' dual-number seeding for the primitive ideal-gas jets), "
            "python comparator",
            "floating-point round-off is modelled away (real semantics); tolerances are 1e-9 of the term scale",
            "num-dual's dual numbers, ndarray, the quantity unit algebra (enter only through the interval goals on the returned values)",
        ],
        "library_theorems": lib["obligations"] + gen_lib_thms,
        "library_files": lib["library_files"] + [os.path.relpath(GEN_LIB, V.VERIF)],
        "axioms_reported": lib["axioms"],
        "generated_interval_goals": goals_total,
        "generated_interval_goals_closed": goals_ok,
        "generated_files": len(gen_files),
        "records_evaluated": n_rec_eval,
        "record_counts": impl["counts"],
        "mixture_cases": len(impl["mixtures"]),
        "guard_cases": n_guard,
        "dft_profiles": len(impl["dft"]),
        "dft_point_evaluations": n_dft,
        "trait_identity_evaluations": n_ident,
        "trait_sweep_states": len(impl["trait_sweep"]),
        "state_cases": len(impl["states"]),
        "states_skipped_nonfinite_or_invalid": impl["states_skipped_nonfinite_or_invalid"],
        "total_is_sum_evaluations": n_sum,
        "total_is_sum_worst_relative_residual": worst_sum,
        "cp_state_vs_direct_worst_relative": worst_cp,
        "ideal_mixing_evaluations": n_mix,
        "support_search": {"level": "exploration", "what": "zero-density sweep on every residual configuration, rho/rho_max = 1e-2..1e-12: finite; local exponent log10|X(1e-11)/X(1e-12)| >= 0.8; "
                                   "slopes X/rho Cauchy below 1e-8 rho_max (step <= 2 previous step + 100 ulp/rho); (p_tot - p_ig)/p_ig = Z_res",
                           "skipped_model_undefined_at_T": zero_skipped,
                           "sweeps": len(impl["zero_density"]), "states": zero_rows, "bound_checks": n_zero},
        "tolerances": {"model_vs_implementation": MODEL_RTOL, "total_vs_sum": SUM_RTOL, "cp_state_vs_direct": CP_RTOL,
                       "ideal_pressure_SI": 1e-12, "ideal_mixing": "1e-10 (|mu_mix| + |mu_pure| + RT)"},
        "input_distribution": "T uniform in [150,1500] K (endpoints with prob. 0.3 at the first two draws); shipped records: seeded subset (quick) / all (thorough); "
                              "random DIPPR 100 (1..7 coefficients) / 107 / 127; residual configurations of the core set with a random Joback or DIPPR record per component; "
                              "packing fraction uniform in [0.02,0.85] eta_max or log-uniform in [1e-12,0.5] eta_max; composition in the open simplex",
        "samples": samples,
        "failures_by_kind": report.summary(),
    }
    V.write_evidence(ctx, "proof", cov, [
        "partial: 'residual properties vanish at zero density' is proved only conditionally (virial form of the residual model, "
        "C10_residual_zero_density_partial); that the shipped residual models have this form is supported by the seeded sweep, not proved",
        "partial: floating-point round-off is not modelled; model and implementation are compared with tolerance 1e-9 of the term scale",
        "the models are hand-written; agreement with the code is machine-checked at the sampled records / temperatures / states only",
        "DIPPR 107 / 127 theorems require positive characteristic temperatures C (and E, G for 127): the code takes ln sinh(C/T), ln(exp(C/T)-1)",
    ])


def replay(rp):
    import json
    print(json.dumps({k: rp.get(k) for k in ("property", "what", "broken", "case", "state", "getter", "mixing", "failing", "config", "T", "x")},
                     indent=1, default=str)[:6000])
    return 0
