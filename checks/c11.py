"""C11 — results do not depend on the evaluation history or on the thread schedule.  DESIGN.md section 5, C11.

Deciding theorems (coq/props/C11.v, models coq/theories/Cache.v + ParPure.v): for every history of requests on a pool
of states with clones, under an oracle all of whose tuples are projections of one jet, every response equals what a
fresh state returns (C11_cache_refines_jet, C11_history_independent, C11_pool_refines_jet, C11_clone_preserves,
C11_mixed_key_canonical, C11_interleave_any for any interleaving at lock granularity, C11_par_pure_order for every
chunk size >= 1).

Tie (route H): the harness runs exhaustive short histories and random pool histories on the REAL State (hooks
State::verif_cache_request / verif_cache_snapshot), computes the oracle tuples independently through public API, and
emits both into coq/gen/C11/*.v; there the model replays the same histories under vm_compute and a generated lemma
`model_and_implementation_agree : check O cases = []` states that responses (bit patterns; getter responses within
4 ulp), map contents and hit/miss counters agree exactly.

Not decided by proof (labelled partial): the consistency of the floating-point oracle (measured: same derivative
through different dual number types), atomicity of the mutex-guarded lookup+compute+insert, rayon's order-preserving
collect.  Supported by: deviation of every recorded response from the fresh-state value, a 2-16 thread stress run on a
shared state, par_pure vs pure over (threads, chunksize, npoints).
"""
import json
import os
import vplib as V

PROP_FILES = [os.path.join(V.PROPS, "C11.v")]
# A response after a history may differ from the fresh-state response only by floating-point round-off: the same
# derivative computed with Dual64 / Dual2_64 / HyperDual64 / Dual3_64 is not bit-identical.  Measured on the pinned
# tree over the sampled range (packing fraction down to 1e-6 of the maximum, where cancellation amplifies the
# round-off): <= 2.2e-10 relative (seeds 1-40 quick, 1-7 thorough); anything a mis-keyed entry produces is O(1).
TOL_HIST = 1e-7   # (upper end; the tolerance actually applied is per state, computed by the harness:)
# value_tol(state) = 1e-9 + 2e-12 / (rho / rho_max): measured over all model families (5250 states, seeds 1-25 thorough) the
# deviation is <= max(1e-11, 4e-14 / (rho/rho_max)) — round-off of O(1) intermediate terms against residual values of O(rho).
# par_pure starts every chunk without an initial guess, pure continues from the previous point, and the two build
# their temperature grids with different formulas (a few ulp apart): converged states agree to solver tolerance.
# Measured <= 2.3e-13.
TOL_PAR = 1e-8


def fnum(x):
    return float("inf") if x == "inf" else float(x)


def key_text(k):
    """parsed Coq value of type pd -> the Debug text of the Rust key"""
    def d(x):
        return "DN(%d)" % x[1] if isinstance(x, tuple) else x
    if isinstance(k, str):
        return k
    if k[0] == "SecondMixed":
        return "SecondMixed(%s, %s)" % (d(k[1]), d(k[2]))
    return "%s(%s)" % (k[0], d(k[1]))


def snap_text(sn):
    m, h, mi = sn
    return {"map": sorted([key_text(k), v] for k, v in m), "hit": h, "miss": mi}


def one(ctx, model, state, history, extend=False):
    """re-run one history on the implementation in full detail (separate output directory)"""
    sctx = V.Ctx(ctx.id + "_one", ctx.tier, ctx.seed)
    extra = ["--one", model, "--state", ",".join(repr(float(x)) for x in state), "--history", history]
    if extend:
        extra.append("--extend")
    return V.run_harness("c11", sctx, extra=extra, build=False)["one"]


def run(ctx):
    impl = V.run_harness("c11", ctx)
    gen_files = sorted(os.path.join(ctx.gen, f) for f in os.listdir(ctx.gen) if f.endswith(".v"))
    lib = V.check_props(ctx, PROP_FILES, gen_files)
    res = V.coqc_many(gen_files, ctx, timeout=900)
    obligations = lib["obligations"]
    discharged = lib["discharged"]
    cfg_by_name = {c["name"]: c for c in impl["configs"]}
    n_cases = 0
    n_exh = 0
    n_rnd = 0
    samples = []
    reported_cfg = set()

    # ---- correspondence: model replay vs implementation (generated lemma per file)
    n_par_files = 0
    par_reported = False
    for f in impl["files"]:
        path = os.path.join(ctx.gen, f["file"])
        r = res.get(path)
        obligations += 1
        if f["kind"] == "par":
            # ParPure.v replay: the model (point solver = table of the grid points that converge) must predict the
            # states returned by pure and by par_pure for every chunk size / pool size of this grid
            n_par_files += 1
            tags = V.tagged(r["out"]) if r else {}
            if r and r["rc"] == 0 and tags.get("PARBAD") == [[]] and tags.get("PURE") == [f["observed_pure"]]:
                discharged += 1
                continue
            if par_reported:
                continue
            par_reported = True
            pp = impl.get("par_pure") or {}
            bad = tags.get("PARBAD", [None])[0]
            rp = {"broken": "correspondence gen/C11/%s: model_and_implementation_agree (ParPure.v vs PhaseDiagram::pure / par_pure)" % f["file"],
                  "config": f["config"], "t_min": f["t_min"], "t_min_over_tc": f["t_min_over_tc"], "npoints": f["npoints"],
                  "solver_options": f.get("solver_options"), "initial_critical_temperature": f.get("initial_critical_temperature"),
                  "obligation": "strict: the model predicts the returned grid points for every chunk size" if f.get("strict") else
                                "non-default options / failed call: both results laid out on the default-options grid, ending in the critical point",
                  "pure_outcome": f.get("pure_outcome"),
                  "grid": f["grid"], "grid_points_that_converge_without_guess": f["converges_without_guess"],
                  "model_pure_indices": tags.get("PURE", [None])[0], "observed_pure_indices": f["observed_pure"],
                  "coq_error": V.coq_error(r["out"]) if r else "no result"}
            if isinstance(bad, list) and bad:
                if f.get("strict"):
                    k, obs, mdl = bad[0]
                else:
                    (k, obs), mdl = bad[0], None
                rp["first_mismatch"] = {"chunksize": k, "par_pure_returned_grid_indices": obs, "model_par_pure_grid_indices": mdl,
                                        "threads": [c["threads"] for c in f["cases"] if c["chunksize"] == k and c["returned_grid_indices"] == obs][:6]}
            ff = pp.get("first_failure")
            if ff:
                rp["failing"] = ff
                rp["expected"] = "par_pure returns the same states in the same order as pure (count, T, rho_V, rho_L within %g)" % TOL_PAR
                V.violation(ctx, "PhaseDiagram::par_pure differs from PhaseDiagram::pure: %s" % json.dumps(ff["case"]), rp, found_input=True)
            else:
                V.violation(ctx, "ParPure.v model and PhaseDiagram::pure/par_pure disagree for %s (%s)" % (f["config"], f["file"]), rp,
                            found_input=False)
            continue
        cfg = cfg_by_name[f["config"]]
        n_cases += len(f["cases"])
        if f["kind"] == "exh":
            n_exh += len(f["cases"])
        else:
            n_rnd += len(f["cases"])
        tags = V.tagged(r["out"]) if r else {}
        if r and r["rc"] == 0 and tags.get("BAD") == [[]] and tags.get("N") == [len(f["cases"])]:
            discharged += 1
            if f["kind"] == "exh" and len(samples) < 3 and tags.get("SAMPLE"):
                for h, (vs, sn) in tags["SAMPLE"][0]:
                    samples.append({"config": f["config"], "state_TVN": cfg["state_TVN"],
                                    "history": [key_text(k) for k in h], "model_responses_bits": vs,
                                    "model_snapshot": snap_text(sn), "agrees_with_implementation": True})
            continue
        # model and implementation differ (or the file did not compile)
        bad = tags.get("BAD", [None])[0]
        if f["config"] in reported_cfg:
            continue
        reported_cfg.add(f["config"])
        rp = {"broken": "correspondence gen/C11/%s: model_and_implementation_agree (Cache.v replay vs State)" % f["file"],
              "config": f["config"], "model": cfg["model"], "state_TVN": cfg["state_TVN"], "coq_error": V.coq_error(r["out"]) if r else "no result"}
        found = None
        if isinstance(bad, list) and bad:
            rp["mismatching_cases"] = len(bad)
            for idx, model_res in bad[:3]:
                hist = f["cases"][idx]
                try:
                    det = one(ctx, cfg["model"], cfg["state_TVN"], hist, extend=True)
                except V.InfraError as e:
                    ctx.notes.append("search failed to run: %s" % e)
                    continue
                if f["kind"] == "exh":
                    mvs, msn = model_res
                    mdl = {"responses_bits": mvs, "snapshot": snap_text(msn)}
                else:
                    mvs, msns = model_res
                    mdl = {"responses_bits": [None if x == "None" else x[1] for x in mvs], "snapshots": [snap_text(s) for s in msns]}
                rp.setdefault("first_mismatches", []).append({"history": hist, "model": mdl, "implementation": det})
                w = fnum(det["worst_rel_dev_from_fresh_state"])
                ext = det.get("extension")
                TOL = cfg["value_tol"]
                if w > TOL and not found:
                    found = {"model": cfg["model"], "state_TVN": cfg["state_TVN"], "history": hist, "rel_dev": w}
                elif ext and fnum(ext["rel_dev"]) > TOL and not found:
                    found = {"model": cfg["model"], "state_TVN": cfg["state_TVN"], "history": ext["history"], "rel_dev": fnum(ext["rel_dev"]),
                             "detail": ext}
        # the exhaustive run already compared every response with the fresh state: its first (= shortest) deviation
        for part in ("exhaustive", "random"):
            vf = cfg[part]["vs_fresh"]
            if fnum(vf["worst_rel"]) > cfg["value_tol"] and not found:
                first = None
                for cand in (vf["first"], vf["worst_case"]):
                    if cand and fnum(cand["rel_dev"]) > cfg["value_tol"]:
                        first = cand
                        break
                if first:
                    h = first["history"]
                    found = {"model": cfg["model"], "state_TVN": cfg["state_TVN"], "history": ";".join(h), "rel_dev": fnum(first["rel_dev"]),
                             "detail": first}
        if found:
            rp["failing"] = found
            rp["expected"] = "the value a fresh state returns for the last request (relative tolerance %g)" % cfg["value_tol"]
            V.violation(ctx, "cache model and State disagree for %s; history-dependent value found: after [%s] a property differs "
                        "from the fresh-state value by %.3g relative" % (f["config"], found["history"], found["rel_dev"]), rp, found_input=True)
        else:
            V.violation(ctx, "cache model and State disagree for %s (%s)" % (f["config"], f["file"]), rp, found_input=False)

    # ---- support (partial clauses): measured on the implementation, every run
    worst_cons = 0.0
    cons_over = False
    worst_hist = 0.0
    bitdiff = 0
    responses = 0
    stress_runs = 0
    stress_resp = 0
    cons_samples = []
    for cfg in impl["configs"]:
        oc = cfg["oracle_consistency"]
        worst_cons = max(worst_cons, fnum(oc["worst_rel"]))
        cons_over = cons_over or fnum(oc["worst_rel"]) > cfg["value_tol"]
        if len(cons_samples) < 2:
            cons_samples.append({"config": cfg["name"], "keys": oc["keys"], "claims": oc["claims"],
                                 "keys_not_bit_identical": oc["keys_not_bit_identical"], "worst_rel": oc["worst_rel"],
                                 "worst_key": oc["worst_key"], "worst_pair": oc["worst_pair"]})
        for part in ("exhaustive", "random"):
            vf = cfg[part]["vs_fresh"]
            responses += vf["responses"]
            bitdiff += vf["bit_different_from_fresh"]
            w = fnum(vf["worst_rel"])
            worst_hist = max(worst_hist, w)
            if w > cfg["value_tol"] and cfg["name"] not in reported_cfg:
                reported_cfg.add(cfg["name"])
                case = vf["first"] if fnum(vf["first"]["rel_dev"]) > cfg["value_tol"] else vf["worst_case"]
                V.violation(ctx, "history-dependent value on %s: after %s the request %s returns %r, a fresh state returns %r"
                            % (cfg["name"], case["history"], case["request"], case["after_history"], case["fresh_state"]),
                            {"broken": "support search: response after a history vs fresh state (tolerance %g relative)" % cfg["value_tol"],
                             "failing": {"model": cfg["model"], "state_TVN": cfg["state_TVN"], "history": ";".join(case["history"]),
                                         "rel_dev": fnum(case["rel_dev"]), "detail": case}}, found_input=True)
        gw = fnum(cfg["random"]["getter_vs_fresh_worst_rel"])
        worst_hist = max(worst_hist, gw)
        if gw > cfg["value_tol"] and cfg["name"] not in reported_cfg:
            reported_cfg.add(cfg["name"])
            V.violation(ctx, "a public getter returns a history-dependent value on %s (rel. deviation %.3g)" % (cfg["name"], gw),
                        {"broken": "support search: getter after a history vs fresh state", "config": cfg["name"],
                         "state_TVN": cfg["state_TVN"]}, found_input=False)
        st = cfg["stress"]
        stress_runs += st["runs"]
        stress_resp += st["responses"]
        if st["failures"]:
            valuep = [x for x in st["failures"] if x.get("value_problem")]
            if valuep:
                V.violation(ctx, "threads sharing one state observed a value no fresh state returns (%s)" % cfg["name"],
                            {"broken": "runtime stress: 2-16 threads on a shared State", "failing": valuep}, found_input=True)
            else:
                V.violation(ctx, "cache bookkeeping under threads is not what one atomic lookup+compute+insert per request gives "
                            "(a key computed twice / counters / missing or foreign key) (%s)" % cfg["name"],
                            {"broken": "runtime stress: 2-16 threads on a shared State (bookkeeping only, all values agree with a fresh state)",
                             "cases": st["failures"]}, found_input=False)
    if cons_over and not ctx.violations:
        V.violation(ctx, "the tuples computed for the cache are not projections of one jet: relative spread %.3g" % worst_cons,
                    {"broken": "oracle consistency (hypothesis of C11_cache_refines_jet)", "samples": cons_samples}, found_input=False)

    # ---- consistency of the oracle over all model families (hypothesis of the theorems; a difference is a history dependence)
    sweep = impl.get("consistency_sweep") or {}
    for fl in sweep.get("failures", [])[:3]:
        V.violation(ctx, "history-dependent value on %s: after [%s] the request %s returns %r, a fresh state returns %r (rel. %s): "
                    "the dual number types do not deliver the same derivative" % (fl["model"], fl["history"], fl["request"], fl["after_history"],
                                                                                 fl["fresh_state"], fl["rel_dev"]),
                    {"broken": "oracle consistency sweep (hypothesis `consistent` of C11_cache_refines_jet; observable by "
                               "C11_byproduct_first_of_second_observable / C11_byproduct_eps2_of_mixed_observable), tolerance %g relative" % fl.get("value_tol", TOL_HIST),
                     "failing": {"model": fl["model"], "state_TVN": fl["state_TVN"], "history": fl["history"], "rel_dev": fnum(fl["rel_dev"]),
                                 "detail": fl}}, found_input=bool(fl.get("reproduced_on_state")))
    for pn in (impl.get("panics") or []) + sweep.get("panics", []):
        V.violation(ctx, "the implementation panicked (%s, %s): %s" % (pn.get("config"), pn.get("where"), str(pn.get("panic"))[:200]),
                    {"broken": "panic of the code under test", "failing": pn}, found_input=True)

    # ---- the whole public property API (total properties with an ideal-gas model): every ordered pair; pure evaluators
    api = impl.get("api_pairs") or []
    api_pairs_n = sum(a["ordered_pairs"] for a in api)
    api_worst = max([fnum(a["worst_rel"]) for a in api] or [0.0])
    for a in api:
        touched = a["cache_touched_by_pure_evaluators"]
        fails = a["failures"]
        if fails:
            f0 = fails[0]
            V.violation(ctx, "history-dependent value on %s: State::%s evaluated after State::%s differs from its value on a fresh state "
                        "(rel. %s)" % (a["config"], f0["history"][-1], f0["history"][0], f0["rel_dev"]),
                        {"broken": "API sweep: every ordered pair of public property functions vs fresh state (tolerance %g relative)" % a["tolerance"],
                         "failing": fails[:4], "cache_touched_by_pure_evaluators": touched,
                         "theorem": "C11_pure_evaluators_invisible / C11_getters_history_independent"}, found_input=True)
        elif touched:
            V.violation(ctx, "a pure evaluator of the public API modifies the derivative cache on %s: %s" % (a["config"], touched[0]["function"]),
                        {"broken": "API sweep: pure evaluators leave the cache untouched (C11_pure_evaluators_invisible)", "config": a["config"],
                         "state_TVN": a["state_TVN"], "cases": touched}, found_input=False)
        for pn in a["panics"][:2]:
            V.violation(ctx, "the implementation panicked (%s, %s): %s" % (pn.get("config"), pn.get("where"), str(pn.get("panic"))[:200]),
                        {"broken": "panic of the code under test", "failing": pn}, found_input=True)

    pp = impl.get("par_pure")
    if pp:
        w = fnum(pp["worst_rel"])
        if (w > TOL_PAR or pp["errors"]) and not par_reported:
            V.violation(ctx, "PhaseDiagram::par_pure differs from PhaseDiagram::pure (%s)" %
                        (json.dumps((pp.get("first_failure") or pp["worst_case"] or {}).get("case")) if w > TOL_PAR else pp["errors"][0]),
                        {"broken": "runtime comparison par_pure vs pure (relative tolerance %g on T, rho_V, rho_L; same number and order of states)" % TOL_PAR,
                         "failing": pp.get("first_failure") or pp["worst_case"], "worst_case": (pp["worst_case"] or {}).get("case"),
                         "errors": pp["errors"]}, found_input=True)

    cov = {
        "obligations": obligations,
        "discharged": discharged,
        "checker_cmd": "make -C coq (coqc 8.16.1, full .vo) ; coqc coq/gen/C11/<exh|rnd|par>_<config>_<k>.v",
        "trusted_base": [
            "Coq 8.16.1 kernel incl. the VM (vm_compute); native_compute is not used",
            "no axioms: Print Assumptions reports every C11 theorem closed under the global context (checked every run)",
            "hand-written model coq/theories/Cache.v of cache.rs / residual_properties.rs:14-49 / State::clone and coq/theories/ParPure.v of "
            "phase_diagram_pure.rs, tied by replay of recorded histories (not by regeneration)",
            "hooks State::verif_cache_request / verif_cache_snapshot (cfg feos_verif; re-export the private request function and the cache contents)",
            "harness: history generator, oracle tables computed through public API, emitter of gen/C11/*.v",
            "python comparator and Coq-output parser (tools/vplib.py, checks/c11.py)",
            "modelled rather than verified: std::sync::Mutex, HashMap (as a finite map), rayon; floating-point round-off (values are opaque bit patterns)",
        ],
        "library_theorems": lib["obligations"],
        "library_files": lib["library_files"],
        "axioms_reported": lib["axioms"],
        "generated_files": len(impl["files"]),
        "par_pure_grids_replayed_by_model": n_par_files,
        "evaluations": n_cases,
        "histories_exhaustive": n_exh,
        "histories_random_pool": n_rnd,
        "exhaustive": True,
        "configurations": [{"name": c["name"], "state_TVN": c["state_TVN"], "alphabet": len(c["alphabet"]),
                            "exhaustive_max_len": c["exhaustive"]["max_len"], "exhaustive_histories": c["exhaustive"]["histories"],
                            "random_histories": c["random"]["histories"], "clones": c["random"]["clones"],
                            "getter_calls": c["random"]["getter_calls"],
                            "random_length_histogram_by_10": c["random"]["primitive_length_histogram_by_10"]} for c in impl["configs"]],
        "responses_compared_with_fresh_state": responses,
        "responses_bit_different_from_fresh_state": bitdiff,
        "worst_relative_deviation_from_fresh_state": worst_hist,
        "oracle_consistency_worst_relative_spread": worst_cons,
        "oracle_consistency_samples": cons_samples,
        "tolerances": {"history_vs_fresh_relative": "1e-9 + 2e-12 / (rho/rho_max) per state (%s)" % ", ".join("%s: %.3g" % (c["name"], c["value_tol"]) for c in impl["configs"][:6]), "par_pure_vs_pure_relative": TOL_PAR,
                       "model_vs_implementation": "exact (bit patterns, map contents, counters); responses read through public getters within 4 ulp"},
        "support_search": {"level": "exploration (not counted among obligations)",
                           "thread_stress_runs": stress_runs, "thread_stress_responses": stress_resp,
                           "api_ordered_pairs": {"pairs": api_pairs_n, "worst_rel": api_worst,
                                                 "configs": [{k: a[k] for k in ("config", "state_TVN", "functions", "pure_evaluators", "ordered_pairs",
                                                                                "tolerance", "worst_rel", "worst_case", "sample_functions")} for a in api]},
                           "oracle_consistency_sweep": {k: sweep.get(k) for k in ("configurations", "states", "states_where_the_model_reports_an_error_(NaN)", "comparisons", "worst_rel", "worst_case", "per_config")},
                           "par_pure": {k: pp[k] for k in ("runs", "runs_with_non_default_options", "states_compared", "grids", "grids_with_failing_points",
                                                           "failing_grid_points", "outcomes", "worst_rel", "samples")} if pp else None},
        "samples": samples,
        "rule": "exhaustive: every sequence of length <= max_len over the complete request alphabet (Zeroth, First d, Second d, SecondMixed d1 d2, "
                "Third d; d in DV, DT, DN i) on a fresh State; random: pool histories of 1-50 primitive requests with clone and public getters, "
                "biased to high derivatives first; every case is replayed by the Coq model and compared exactly",
    }
    V.write_evidence(ctx, "proof", cov, [
        "the closures handed to the cache compute tuples that are projections of one jet (consistency hypothesis of the theorems): holds in "
        "floating point only up to round-off; measured every run (oracle_consistency_*, worst_relative_deviation_from_fresh_state) and bounded by "
        "1e-9 + 2e-12/(rho/rho_max) relative",
        "lookup + compute + insert is atomic (one MutexGuard held across get_or_compute_derivative_residual): runtime fact, supported by the thread stress run",
        "rayon's indexed collect preserves chunk order: runtime fact, supported by par_pure vs pure over (threads, chunksize, npoints)",
        "par_pure = pure needs a guess-independent point solver (property C12); the two variants also build their temperature grids with "
        "different floating-point formulas (ulp-level differences)",
        "the model is hand-written; it is tied to the code by replaying the recorded histories, i.e. for the configurations and histories of this run",
    ])


def replay(rp):
    """re-run the failing history of a replay file on the implementation"""
    f = rp.get("failing")
    if isinstance(f, list):
        print(json.dumps(f, indent=1)[:6000])
        return 1
    if not f or "history" not in f:
        print(json.dumps(rp, indent=1)[:6000])
        return 0
    ctx = V.Ctx("C11", rp.get("tier", "quick"), rp.get("seed", 1))
    V.build_harness("c11", ctx)
    det = one(ctx, f["model"], f["state_TVN"], f["history"])
    for s in det["steps"]:
        print(json.dumps(s))
    w = fnum(det["worst_rel_dev_from_fresh_state"])
    tol = det.get("value_tol", TOL_HIST)
    print("worst relative deviation from the fresh-state value: %g (tolerance %g)" % (w, tol))
    if w > tol:
        print("REPRODUCED property=C11 history=[%s]" % f["history"])
        return 1
    print("not reproduced")
    return 0
