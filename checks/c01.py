"""C01 — state properties are exact derivatives of the model's Helmholtz energy.  DESIGN.md section 5, C01.

Deciding theorems: props/C01.v (C01_directional_derivative = AD.tan_line): for EVERY program, state, direction and
order, the output of the derivative program tan_outs^k P is the derivative of the next-lower-order program.
Per run: the program P of A^res(T,V,N) of every model configuration is regenerated from /repo by tracing; obligations
(well-scopedness of P, D1, D2 so that the theorem applies at orders 1..3; closedness = no re-injected f64 constants)
are checked by coqc; the derivative programs are enclosed by the verified multi-precision interval evaluator at
sample states and compared with what the public State API reports for the same derivative (pressure, entropy,
chemical potentials, dp/dV, dp/dT, dp/dN, dmu/dN, dmu/dT, dS/dT, d2S/dT2, d2p/dV2) and with the caloric /
fugacity-coefficient combinations built from them.
"""
import math
import os
from fractions import Fraction
import vplib as V

PROP_FILES = [os.path.join(V.PROPS, "C01.v")]
RTOL = 2e-8       # relative to the magnitude of the compared quantity
ATOL_IG = 1e-11   # relative to the ideal-gas magnitude of the same derivative (absolute floor for round-off)


def by_prog(tags, key):
    d = {}
    for item in tags.get(key, []):
        if isinstance(item, tuple) and len(item) == 2 and isinstance(item[0], str) and item[0] != "unparsed":
            d[item[0]] = item[1]
    return d


def encl(v):
    """('Some', (ml, el, (mu, eu))) -> (lo, hi) floats (outward by one ulp); None otherwise"""
    if not (isinstance(v, tuple) and v and v[0] == "Some"):
        return None
    t = v[1]
    ml, el, (mu, eu) = t
    lo = float(Fraction(ml) * Fraction(2) ** el)
    hi = float(Fraction(mu) * Fraction(2) ** eu)
    return (math.nextafter(lo, -math.inf), math.nextafter(hi, math.inf))


def ig_scale(state, dirs):
    """magnitude N*T / prod(coordinate of each direction): the ideal-gas size of a derivative of A"""
    t, v = state[0], state[1]
    ns = state[2:]
    s = sum(ns) * t
    for d in dirs:
        s /= (t if d == 0 else v if d == 1 else ns[d - 2])
    return abs(s)


def cmp_one(stats, bad, what, cfg, si, x, iv, scale):
    stats["n"] += 1
    if x is None:
        bad.append({"config": cfg["name"], "quantity": what, "state": cfg["states"][si], "reported": "NaN", "model_enclosure": iv})
        return
    if iv is None:
        bad.append({"config": cfg["name"], "quantity": what, "state": cfg["states"][si], "reported": x, "model": "undefined (NaI)"})
        return
    lo, hi = iv
    mid = 0.5 * (lo + hi)
    tol = RTOL * max(abs(x), abs(mid)) + ATOL_IG * scale + (hi - lo)
    err = abs(x - mid)
    if x is None or not (err <= tol):
        bad.append({"config": cfg["name"], "quantity": what, "state": cfg["states"][si], "reported": x,
                    "model_enclosure": [lo, hi], "tolerance": tol})
    else:
        stats["worst"] = max(stats["worst"], err / (RTOL * max(abs(x), abs(mid)) + ATOL_IG * scale + 1e-300))
    stats["relwidth"] = max(stats["relwidth"], (hi - lo) / (abs(mid) + 1e-300))


def derived_checks(stats, bad, cfg, si, mid1, mid2, mid3):
    """caloric / fugacity combinations recomputed from the enclosed derivatives of A^res (reduced units, k_B = 1)"""
    st = cfg["states"][si]
    t, v = st[0], st[1]
    ns = st[2:]
    nc = len(ns)
    n = sum(ns)
    dv = cfg["api"][si]["derived"]
    a_t, a_v = mid1[0], mid1[1]
    a_n = mid1[2:]
    a = lambda i, j: mid2[(min(i, j), max(i, j))]
    p = n * t / v - a_v
    dp_dv = -n * t / v ** 2 - a(1, 1)
    dp_dt = n / v - a(0, 1)
    dp_dn = [t / v - a(1, 2 + k) for k in range(nc)]
    exp = {
        "p_total": p, "dp_dv_total": dp_dv, "dp_dt_total": dp_dt,
        "c_v_res": -t * a(0, 0) / n,
        "c_p_res": t / n * (-a(0, 0) - dp_dt ** 2 / dp_dv) - 1.0,
        "kappa_t": -1.0 / (dp_dv * v),
        "h_res": cfg["api"][si]["a0"] - t * a_t - a_v * v,
        "u_res": cfg["api"][si]["a0"] - t * a_t,
        "dp_drho_total": -v * dp_dv / (n / v),
        "structure_factor": t / (-v * dp_dv / (n / v)),
    }
    vec = {
        "dp_dni_total": dp_dn,
        "partial_molar_volume": [-dp_dn[k] / dp_dv for k in range(nc)],
        "dln_phi_dt": [(a(0, 2 + k) - a_n[k] / t - (-dp_dn[k] / dp_dv) * dp_dt) / t + 1.0 / t for k in range(nc)],
        "dln_phi_dp": [(-dp_dn[k] / dp_dv) / t - 1.0 / p for k in range(nc)],
    }
    if mid3 is not None:
        d2p_dv2 = 2 * n * t / v ** 3 - mid3[1]
        exp["d2p_dv2_total"] = d2p_dv2
        exp["dc_v_res_dt"] = (-t * mid3[0] - a(0, 0)) / n
        rho = n / v
        exp["d2p_drho2_total"] = v / rho ** 2 * (2 * dp_dv + v * d2p_dv2)
    if dv.get("ln_phi") is not None and p > 0:
        z = p * v / (n * t)
        vec["ln_phi"] = [a_n[k] / t - math.log(z) for k in range(nc)]
        exp["g_res"] = -a_v * v + cfg["api"][si]["a0"] - n * t * math.log(z)
    mat = {"dln_phi_dnj": [[(a(2 + i, 2 + j) + dp_dn[i] * dp_dn[j] / dp_dv) / t + 1.0 / n for j in range(nc)] for i in range(nc)]}

    def one(name, got, want, extra_scale=0.0):
        stats["n_derived"] += 1
        # these are algebraic combinations with cancellation (e.g. dln_phi_dnj): scale by the largest term involved
        tol = 1e-6 * max(abs(got), abs(want)) + 1e-9 * extra_scale + 1e-300
        if got is None or not (abs(got - want) <= tol):
            bad.append({"config": cfg["name"], "quantity": name, "state": st, "reported": got, "model_value": want, "tolerance": tol})
    for k_, w in exp.items():
        if dv.get(k_) is not None:
            one(k_, dv[k_], w)
    for k_, ws in vec.items():
        if dv.get(k_) is not None:
            for i, w in enumerate(ws):
                one("%s[%d]" % (k_, i), dv[k_][i], w, extra_scale=(1.0 / t if k_ == "dln_phi_dt" else 0.0))
    for k_, ws in mat.items():
        for i in range(nc):
            for j in range(nc):
                one("%s[%d][%d]" % (k_, i, j), dv[k_][i][j], ws[i][j], extra_scale=abs(a(2 + i, 2 + j)) / t + 1.0 / n)


def run(ctx):
    only = ["--only", os.environ["FV_ONLY"]] if os.environ.get("FV_ONLY") else []   # debugging aid
    impl = V.run_harness("c01", ctx, extra=only)
    gen_files = sorted(os.path.join(ctx.gen, f) for f in os.listdir(ctx.gen) if f.endswith(".v"))
    lib = V.check_props(ctx, PROP_FILES, gen_files)
    res = V.coqc_many(gen_files, ctx, timeout=2400)
    obligations = lib["obligations"]
    discharged = lib["discharged"]
    stats = {"n": 0, "worst": 0.0, "relwidth": 0.0, "n_derived": 0}
    samples = []
    leaky = []
    fd_states = 0
    orders = {"1": 0, "2": 0, "3": 0}
    for cfg in impl["configs"]:
        name = cfg["name"]
        r = res[os.path.join(ctx.gen, name + ".v")]
        tags = V.tagged(r["out"])
        nob = 1 + (0 if cfg["leaky"] else 1) + (2 if cfg["order2"] else 0) + (3 if cfg["order3"] else 0)
        obligations += nob
        bad = []
        fd_states += cfg["fd"]["states"]
        fd_fail = list(cfg["fd"]["failures"])
        if cfg["unsupported"]:
            V.violation(ctx, "%s uses operations the lowering does not support: %s" % (name, cfg["unsupported"][:3]),
                        {"broken": "translator", "unsupported": cfg["unsupported"]}, found_input=False)
        e0 = by_prog(tags, "E0").get("P")
        e1 = by_prog(tags, "E1").get("P")
        e2 = by_prog(tags, "E2").get("P") if cfg["order2"] else []
        e3 = by_prog(tags, "E3").get("P") if cfg["order3"] else []
        if r["rc"] == 0:
            discharged += nob
        if None in (e0, e1, e2, e3):
            V.violation(ctx, "derivative enclosures missing for %s (coqc failed or timed out)" % name,
                        {"broken": "gen/C01/%s.v" % name, "coq_error": V.coq_error(r["out"]), "rc": r["rc"]}, found_input=False)
            continue
        orders["1"] += 1
        orders["2"] += 1 if cfg["order2"] else 0
        orders["3"] += 1 if cfg["order3"] else 0
        nv = cfg["nvars"]
        pairs = [(i, j) for i in range(nv) for j in range(i, nv)]
        for si, st in enumerate(cfg["states"]):
            api = cfg["api"][si]
            if api is None:
                continue
            if api["a0"] is None and encl(e0[si]) is None:
                # the implementation returns NaN and the program is undefined at this state (e.g. outside a
                # correlation's range): consistent, nothing to compare
                stats["undefined_in_both"] = stats.get("undefined_in_both", 0) + 1
                continue
            cmp_one(stats, bad, "A_res", cfg, si, api["a0"], encl(e0[si]), ig_scale(st, []))
            mid1, mid2, mid3 = [], {}, None
            for i in range(nv):
                iv = encl(e1[si][i])
                cmp_one(stats, bad, "dA/d%d" % i, cfg, si, api["a1"][i], iv, ig_scale(st, [i]))
                mid1.append(0.5 * (iv[0] + iv[1]) if iv else float("nan"))
            for pi, (i, j) in enumerate(pairs if cfg["order2"] else []):
                iv = encl(e2[si][pi])
                cmp_one(stats, bad, "d2A/d%dd%d" % (i, j), cfg, si, api["a2"][i][j], iv, ig_scale(st, [i, j]))
                if i != j and i >= 2:
                    cmp_one(stats, bad, "d2A/d%dd%d" % (j, i), cfg, si, api["a2"][j][i], iv, ig_scale(st, [i, j]))
                mid2[(i, j)] = 0.5 * (iv[0] + iv[1]) if iv else float("nan")
            if cfg["order3"] and si < cfg["third_states"]:
                iv_t, iv_v = encl(e3[si][0]), encl(e3[si][1])
                cmp_one(stats, bad, "d3A/dT3", cfg, si, api["a3"]["TTT"], iv_t, ig_scale(st, [0, 0, 0]))
                cmp_one(stats, bad, "d3A/dV3", cfg, si, api["a3"]["VVV"], iv_v, ig_scale(st, [1, 1, 1]))
                if iv_t and iv_v:
                    mid3 = [0.5 * (iv_t[0] + iv_t[1]), 0.5 * (iv_v[0] + iv_v[1])]
            if cfg["order2"]:
                derived_checks(stats, bad, cfg, si, mid1, mid2, mid3)
        if cfg["leaky"]:
            leaky.append({"config": name, "reinjected_f64_constants": len(cfg["leaks"]),
                          "program_depends_on_sweep_count": not cfg["programs_identical_for_all_sweep_counts"]})
        if bad or r["rc"] != 0:
            if not fd_fail:
                sctx = V.Ctx(ctx.id + "_search", ctx.tier, ctx.seed + 7919)
                try:
                    simpl = V.run_harness("c01", sctx, extra=["--only", name, "--fd", "300"], build=False)
                    fd_fail = simpl["configs"][0]["fd"]["failures"]
                    fd_states += simpl["configs"][0]["fd"]["states"]
                except V.InfraError as e:
                    ctx.notes.append("search failed to run: %s" % e)
        if r["rc"] != 0:
            V.violation(ctx, "obligation failed for %s: %s" % (name, (V.coq_error(r["out"]) or "")[:200]),
                        {"broken": "gen/C01/%s.v (P_scoped / P_closed / Q_scoped / Q_D1_scoped / R_*_scoped)" % name,
                         "coq_error": V.coq_error(r["out"]), "failing": fd_fail}, found_input=bool(fd_fail))
            fd_fail = []
        if bad:
            # the disagreeing state is itself a concrete input: the State API does not report the derivative of the
            # function the model's own code denotes (proved for the enclosure by C01_directional_derivative)
            V.violation(ctx, "State API disagrees with the exact derivative of the traced Helmholtz energy for %s: %s"
                        % (name, bad[0]["quantity"]),
                        {"broken": "correspondence State API vs tan_outs enclosures (gen/C01/%s.v)" % name,
                         "mismatches": bad[:12], "finite_difference_confirmation": fd_fail[:5]}, found_input=True)
            fd_fail = []
        if fd_fail:
            V.violation(ctx, "finite-difference oracle on the public API failed for %s: %s" % (name, fd_fail[0]["quantity"]),
                        {"broken": "oracle", "config": name, "failing": fd_fail}, found_input=True)
        if len(samples) < 4:
            samples.append({"config": name, "instructions": cfg["ninstr"], "derivative_program_sizes_P_D1_D2": str(by_prog(tags, "SIZES2").get("P")),
                            "state_TVN": cfg["states"][0] if cfg["states"] else None,
                            "dA/dV_enclosure": encl(e1[0][1]) if e1 and e1[0] else None,
                            "reported_minus_p_res": cfg["api"][0]["a1"][1] if cfg["api"] and cfg["api"][0] else None})
    # --- caloric properties of the State layer: getters vs the expressions of CaloricC01.v (interval goals), and vs Jacobian quotients
    #     of numerical partial derivatives of neighbouring states
    cal = impl.get("caloric", [])
    cal_goals = 0
    for g in cal:
        r = res.get(os.path.join(ctx.gen, g["file"] + ".v"))
        obligations += len(g["api"])
        cal_goals += len(g["api"])
        if r is not None and r["rc"] == 0:
            discharged += len(g["api"])
        else:
            V.violation(ctx, "%s: a caloric getter of the State layer (c_v, c_p, Joule-Thomson, compressibilities, expansivity, Grueneisen) is not "
                        "the expression of CaloricC01.v at T,V,N = %s: %s" % (g["config"], g["state_TVN"], (V.coq_error(r["out"]) if r else "no output") or ""),
                        {"broken": "gen/C01/%s.v (interval goals m_* vs getters)" % g["file"], "state": g,
                         "coq_error": V.coq_error(r["out"]) if r else None}, found_input=True)
        if g["fd_failures"]:
            V.violation(ctx, "%s: %s reported %r but the Jacobian quotient of numerical partial derivatives of neighbouring states gives %r"
                        % (g["config"], g["fd_failures"][0]["quantity"], g["fd_failures"][0]["reported"],
                           g["fd_failures"][0]["from_numerical_partial_derivatives"]),
                        {"broken": "oracle: caloric properties vs numerical Jacobians", "state": g}, found_input=True)
    for oc in impl.get("oracle_only", []):
        fd_states += oc["fd"]["states"]
        if oc["fd"]["failures"]:
            V.violation(ctx, "finite-difference oracle on the public API failed for %s (thorough-tier configuration, oracle only in the "
                        "quick tier): %s" % (oc["name"], oc["fd"]["failures"][0]["quantity"]),
                        {"broken": "oracle", "config": oc["name"], "failing": oc["fd"]["failures"]}, found_input=True)
    cov = {
        "obligations": obligations, "discharged": discharged,
        "checker_cmd": "make -C coq (coqc 8.16.1) ; coqc coq/gen/C01/<config>.v",
        "trusted_base": V.COMMON_TRUSTED + ["Interval's bigint floating-point backend (SpecificFloat BigIntRadix2) at precision %d" % impl["prec"],
                                             "the sign/unit mapping between State getters and partial derivatives of A^res (harness api_jet, checks/c01.py derived_checks)"],
        "programs": len(impl["configs"]), "configurations_enclosed_per_order": orders,
        "library_theorems": lib["obligations"], "library_files": lib["library_files"], "axioms_reported": lib["axioms"],
        "state_api_comparisons": stats["n"], "derived_quantity_comparisons": stats["n_derived"],
        "worst_discrepancy_in_units_of_tolerance": stats["worst"],
        "states_undefined_in_model_and_implementation": stats.get("undefined_in_both", 0),
        "widest_relative_enclosure": stats["relwidth"],
        "programs_with_reinjected_f64_values": leaky,
        "finite_difference_oracle_states": fd_states,
        "caloric_states": len(cal), "caloric_interval_goals": cal_goals,
        "configurations_with_the_finite_difference_oracle_only_(quick_tier)": [c["name"] for c in impl.get("oracle_only", [])],
        "tolerance": "reported value within rtol=%g*|value| + %g*ideal-gas-magnitude + enclosure width of the enclosure midpoint" % (RTOL, ATOL_IG),
        "samples": samples,
        "rule": "one program per model configuration; derivative programs of order 1,2,3 by iterating tan_outs; all first and second "
                "partial derivatives in (T,V,N_i) and TTT, VVV compared at sampled states",
    }
    V.write_evidence(ctx, "proof", cov, [
        "floating-point round-off of feos' dual-number arithmetic is not modelled; num-dual is modelled by tan_outs and tied numerically",
        "the traced program is the code's function on the branch the trace took",
        "programs that re-inject converged f64 values (cross-association) are differentiated with those values as constants plus the "
        "implicit Newton sweeps the code performs; closedness is not claimed for them",
    ])
