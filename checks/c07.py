"""C07 — stability verdicts are sound and separate one-phase from two-phase feeds.  DESIGN.md section 5, C07.

Deciding theorems (coq/props/C07.v over coq/theories/{TpdC07,TpdDerivC07}.v):
  tm_stationary / tpd_at_stationary / tm_tpd_sign     at a fixed point of W <- exp(d - ln phi): tm = 1 - sum W, tpd(W/sum W) = -ln sum W, same sign
  ss_tpd_is_tm                                         the code's `1 - y.sum()` is the objective at the new amounts with the previous ln phi
  tm_neg_tpd_neg / tm_neg_tpd_bound                    tm < 0 => tpd < 0 (tpd <= -ln(1 - tm)) for the same ln phi, no stationarity needed
  accept_recomputed_bound / accept_sound_small_drift / ss_accept_bound   recomputed tpd <= -ln(1 - tm_code) + drift of ln phi (first-order in the tested error)
  equilibrium_phase_not_accepted                       fugacity mismatch < 1e-8 keeps the coexisting phase above ZERO_TPD
  accept_dedup / stable_verdict_iff / minimize_ok_implies   acceptance + deduplication, verdict, control skeleton of minimize_tpd
  tm_partial / newton_gradient / newton_grad_hess / hess_code_vs_true   gradient and Hessian of stability_newton_step as derivatives of tm
  cascade_failed_guess_falls_back / cascade_guess_only_helps / no_phase_split_only_from_stability   start cascade of tp_flash (FlashCascadeC07.v)
Tie (route H, every run): hooked define_trial_state / minimize_tpd / stability_newton_step and the public stability_analysis, ln_phi,
dln_phi_dnj, is_trivial_solution on real mixtures vs. the models (`interval` goals over R, vm_compute over Q).
Partial (support search, not decided by proof): completeness of the verdict on both sides of the envelope with the 2 % margin,
flash after an unstable verdict, pure density grid.
"""
import json
import os
import vplib as V

PROP_FILES = [os.path.join(V.PROPS, "C07.v")]
SCALE = float(2 ** 70)
NOISE_BAND_DEFAULT = 1e-6


def known_entries():
    pts, classes = {}, {}
    for e in V.load_known("C07"):
        k = e.get("key", {})
        if "point" in k:
            pts[k["point"]] = e
        elif "class" in k:
            classes[k["class"]] = e
    return pts, classes


def classify(f, classes):
    """a failure of the support search that is one of the recorded known-finding classes -> the entry, else None"""
    kind, ty = f.get("kind", ""), f.get("type", "")
    e = classes.get("negative_pressure")
    if e and ty == "error_instead_of_verdict" and kind.startswith("pure:inside") and f["feed"]["p"] < 0 \
            and e["key"]["error"] in f["what"]:
        return e
    e = classes.get("marginal_equilibrium_phase")
    if e and ty in ("reported_unstable", "unsound_trial_phase") and kind.split(":")[0] in ("bubble", "dew", "flash"):
        band = e["key"].get("band", NOISE_BAND_DEFAULT)
        codes = f.get("tpd_accepted_by_the_code") or []
        # tight key: every returned trial phase was accepted by the code on a value below the DEFAULT constant threshold -1e-8
        # (and within the band), and its recomputed tpd is within the band; anything accepted above -1e-8 is a different behaviour
        if codes and all(c is not None and -band <= c < -1e-8 for c in codes) \
                and f.get("max_abs_tpd_recomputed") is not None and f["max_abs_tpd_recomputed"] <= band \
                and "pressure" not in f["what"] and "copy" not in f["what"] and "copies" not in f["what"] and "temperature" not in f["what"]:
            return e
    return None


def run(ctx):
    pts, classes = known_entries()
    extra = ["--known", ";".join(sorted(pts))] if pts else []
    impl = V.run_harness("c07", ctx, extra=extra)
    gen_files = sorted(os.path.join(ctx.gen, f) for f in os.listdir(ctx.gen) if f.endswith(".v"))
    lib = V.check_props(ctx, PROP_FILES, gen_files)
    res = V.coqc_many(gen_files, ctx, timeout=1500)
    obligations = lib["obligations"]
    discharged = lib["discharged"]
    sup = impl["support"]

    # ---- support search on the real code (partial clauses; also the oracle that turns a broken correspondence into an input)
    new_fail = []
    n_known = {}
    for f in sup["failures"]:
        e = classify(f, classes)
        if e is not None:
            V.report_known(ctx, e)
            n_known[e["key"]["class"]] = n_known.get(e["key"]["class"], 0) + 1
        else:
            new_fail.append(f)
    known_status = []
    for kp in sup.get("known_points", []):
        e = pts.get(kp["point"])
        fl = kp.get("failures", [])
        known_status.append({"point": kp["point"], "still_fails": bool(fl), "inside_2pct_margins": kp.get("inside_2pct_margins"), "skipped": kp.get("skipped")})
        for f in fl:
            if e is not None and f.get("type") == "flash_failed":
                V.report_known(ctx, e)
            else:
                new_fail.append(f)
        if e is not None and not fl and not kp.get("skipped"):
            ctx.notes.append("known finding no longer reproduces: %s" % kp["point"])
    by_type = {}
    for f in new_fail:
        by_type.setdefault(f.get("type", "other"), []).append(f)
    for ty, fl in sorted(by_type.items()):
        f0 = fl[0]
        V.violation(ctx, "%s [%s]: %s" % (f0["kind"], json.dumps({k: f0["key"][k] for k in f0["key"] if k != "spec"})[:700], f0["what"]),
                    {"broken": "support search on the real implementation: " + ty, "failing_inputs": fl[:10], "count": len(fl),
                     "sys": f0["key"].get("sys"), "spec": f0["key"].get("spec") or (f0["key"].get("sweep") or {}).get("feed_spec"),
                     "guess_spec": (f0["key"].get("sweep") or {}).get("guess_spec"), "known_point": f0["key"].get("known_point")}, found_input=True)
    any_support_failure = bool(new_fail)

    def corr_violation(what, rp, concrete=None):
        rp = dict(rp)
        rp["support_search_found_failures"] = any_support_failure
        V.violation(ctx, what, rp, found_input=any_support_failure if concrete is None else concrete)

    # ---- A. recomputed tangent-plane distance of returned trial phases (interval goals)
    n_tpd_goals, bad = 0, []
    for g in impl["tpd_goals"]:
        out = res[os.path.join(ctx.gen, g["file"])]
        obligations += 1
        n_tpd_goals += len(g["goals"])
        if out["rc"] == 0:
            discharged += 1
        else:
            bad.append({"file": g["file"], "coq_error": V.coq_error(out["out"]), "cases": g["goals"][:3]})
    if bad:
        corr_violation("recomputed tangent-plane distance of a returned trial phase is not negative in Coq's interval arithmetic / differs from the f64 value: %s"
                       % (bad[0]["coq_error"] or "")[:300], {"broken": "gen/C07/tpd_*.v", "files": bad[:5]}, True)

    # ---- B0. trial states of define_trial_state: composition (interval goals) and state of aggregation (public new_npt)
    n_trial_goals, bad = 0, []
    for g in impl.get("trial_goals", []):
        out = res[os.path.join(ctx.gen, g["file"])]
        obligations += 1
        n_trial_goals += len(g["trials"])
        if out["rc"] == 0:
            discharged += 1
        else:
            bad.append({"file": g["file"], "coq_error": V.coq_error(out["out"]), "trials": g["trials"][:4]})
    if bad:
        corr_violation("composition of a trial state differs from the model TpdC07.trial_liquid / trial_vapor: %s" % (bad[0]["coq_error"] or "")[:300],
                       {"broken": "correspondence gen/C07/trial_*.v (define_trial_state)", "files": bad[:4]})
    if impl["tie"].get("trial_mismatch"):
        m = impl["tie"]["trial_mismatch"]
        corr_violation("define_trial_state does not create the trial phase of the model (N nearly pure LIQUID-like trials x_k = 0.99, one VAPOUR-like ideal-vapour estimate) on %d of %d trial states; first: %s"
                       % (len(m), impl["tie"]["trial_states_compared_with_the_model_of_define_trial_state"], json.dumps(m[0])[:600]),
                       {"broken": "correspondence define_trial_state (hooked) vs State::new_npt(T, p, model composition, Liquid / Vapor)", "cases": m[:10],
                        "sys": m[0]["key"].get("sys"), "spec": m[0]["key"].get("spec")})

    # ---- B. step formulas (substitution map, 1 - sum y, Newton gradient / Hessian / step / frozen objective)
    n_steps, bad = 0, []
    kinds = {}
    for g in impl["step_goals"]:
        out = res[os.path.join(ctx.gen, g["file"])]
        obligations += 1
        n_steps += len(g["steps"])
        for st in g["steps"]:
            kinds[st["kind"]] = kinds.get(st["kind"], 0) + 1
        if out["rc"] == 0:
            discharged += 1
        else:
            bad.append({"file": g["file"], "coq_error": V.coq_error(out["out"]), "steps": g["steps"]})
    if bad:
        corr_violation("a step formula of TpdC07.v (substitution map / 1 - sum y / Newton gradient, Hessian, step / objective) no longer matches the hooked implementation: %s"
                       % (bad[0]["coq_error"] or "")[:300],
                       {"broken": "correspondence gen/C07/step_*.v (tm_stationary / ss_tpd_is_tm / newton_grad_hess are about the model formulas)", "files": bad[:4]})
    if impl["tie"]["formula_mismatch"]:
        m = impl["tie"]["formula_mismatch"][0]
        corr_violation("the value returned by minimize_tpd is not the model objective of its last step: %s" % json.dumps(m)[:400],
                       {"broken": "correspondence: tpd returned by the hooked minimize_tpd vs 1 - sum y / frozen objective", "cases": impl["tie"]["formula_mismatch"][:10]})

    # ---- C. control skeleton of minimize_tpd
    n_ctrl, skipped_ctrl, bad, missing = 0, 0, [], []
    for g in impl["ctrl"]:
        out = res[os.path.join(ctx.gen, g["file"])]
        obligations += 1
        tags = V.tagged(out["out"]).get("CTRL")
        if out["rc"] != 0 or not tags or not isinstance(tags[0], list) or len(tags[0]) != len(g["cases"]):
            missing.append({"file": g["file"], "coq_error": V.coq_error(out["out"])})
            continue
        discharged += 1
        src = open(os.path.join(ctx.gen, g["file"])).read()
        for m, c in zip(tags[0], g["cases"]):
            n_ctrl += 1
            code, it, tq = m[0], m[1], m[2]
            flags = list(m[3])
            ok = (code == c["impl_outcome"])
            if code in (0, 1):
                ok = ok and it == c["impl_iterations"]
            if code == 1 and ok:
                ok = abs(tq / SCALE - c["impl_tpd"]) <= 1e-12 * (1 + abs(c["impl_tpd"]))
            iflags = c["impl_newton_flags"]
            ok = ok and all(b is None or a == b for a, b in zip(flags, iflags)) and (code == 2 or len(flags) == len(iflags))
            if not ok:
                c2 = dict(c)
                c2["model"] = {"outcome": code, "iterations": it, "tpd": tq / SCALE, "newton_flags": flags}
                bad.append(c2)
    if missing:
        V.violation(ctx, "control-skeleton model did not evaluate: %s" % missing[0], {"broken": "gen/C07/ctrl_*.v", "files": missing}, found_input=False)
    if len(bad) > max(1, 0.02 * n_ctrl) or any(abs(b["model"]["iterations"] - b["impl_iterations"]) > 1 and b["model"]["outcome"] != 2 for b in bad):
        c = bad[0]
        corr_violation("hooked minimize_tpd differs from the control skeleton TpdC07.minimize_ctrl on %d of %d runs; first: %s" % (len(bad), n_ctrl, json.dumps(c)[:500]),
                       {"broken": "correspondence minimize_tpd (minimize_ok_implies is about the model)", "mismatches": bad[:10]})
    else:
        skipped_ctrl = len(bad)      # isolated one-iteration differences: a value on a threshold (round-off); counted, allowed <= 2 %

    # ---- D. acceptance / deduplication
    n_stab, bad, missing = 0, [], []
    for g in impl["stab"]:
        out = res[os.path.join(ctx.gen, g["file"])]
        obligations += 1
        tags = V.tagged(out["out"]).get("STAB")
        if out["rc"] != 0 or not tags or not isinstance(tags[0], list) or len(tags[0]) != len(g["cases"]):
            missing.append({"file": g["file"], "coq_error": V.coq_error(out["out"])})
            continue
        discharged += 1
        for m, c in zip(tags[0], g["cases"]):
            n_stab += 1
            model = None if m == "None" else list(m[1]) if isinstance(m, tuple) and m[0] == "Some" else m
            if model != c["expected"]:
                c2 = dict(c)
                c2["model"] = model
                bad.append(c2)
    if missing:
        V.violation(ctx, "acceptance model did not evaluate: %s" % missing[0], {"broken": "gen/C07/stab_*.v", "files": missing}, found_input=False)
    if bad:
        c = bad[0]
        corr_violation("stability_analysis accepts other trial phases than the model TpdC07.stability (threshold tpd < -1e-8, not within 1e-5 of an earlier candidate) on %d of %d feeds; first: %s"
                       % (len(bad), n_stab, json.dumps(c)[:600]),
                       {"broken": "correspondence stability_analysis (accept_dedup / stable_verdict_iff are about the model)", "mismatches": bad[:10]})

    # ---- E. is_trivial_solution
    n_triv, bad, missing, near = 0, [], [], 0
    for g in impl["triv"]:
        out = res[os.path.join(ctx.gen, g["file"])]
        obligations += 1
        tags = V.tagged(out["out"]).get("TRIV")
        if out["rc"] != 0 or not tags or not isinstance(tags[0], list) or len(tags[0]) != len(g["cases"]):
            missing.append({"file": g["file"], "coq_error": V.coq_error(out["out"])})
            continue
        discharged += 1
        for m, c in zip(tags[0], g["cases"]):
            n_triv += 1
            if m[0] != c["impl"]:
                if abs(m[1] / SCALE - 1e-5) <= 1e-12:
                    near += 1
                else:
                    c2 = dict(c)
                    c2["model"] = {"trivial": m[0], "max_rel_deviation": m[1] / SCALE}
                    bad.append(c2)
    if missing:
        V.violation(ctx, "is_trivial model did not evaluate: %s" % missing[0], {"broken": "gen/C07/triv_*.v", "files": missing}, found_input=False)
    if bad:
        corr_violation("PhaseEquilibrium::is_trivial_solution differs from the model TpdC07.is_trivial on %d of %d pairs; first: %s" % (len(bad), n_triv, json.dumps(bad[0])[:400]),
                       {"broken": "correspondence is_trivial_solution", "mismatches": bad[:10]})

    # ---- F. start cascade of tp_flash (initial state -> stability start 1 -> stability start 2) vs FlashCascadeC07.cascade
    n_casc, bad, missing = 0, [], []
    for g in impl.get("cascade", []):
        out = res[os.path.join(ctx.gen, g["file"])]
        obligations += 1
        tags = V.tagged(out["out"]).get("CASC")
        if out["rc"] != 0 or not tags or not isinstance(tags[0], list) or len(tags[0]) != len(g["cases"]):
            missing.append({"file": g["file"], "coq_error": V.coq_error(out["out"])})
            continue
        discharged += 1
        for m, c in zip(tags[0], g["cases"]):
            n_casc += 1
            visited, result = list(m[0]), list(m[1])
            # error kinds of attempts that are not returned are unobservable (code 9 in the model input): compare the kind only
            # when the model's error is an observed one
            ok = visited == c["impl_visited"] and result[0] == c["impl_result"][0] and (result[1] == c["impl_result"][1] or (result[0] == 0 and result[1] == 9))
            if not ok:
                c2 = dict(c)
                c2["model"] = {"visited": visited, "result": result}
                bad.append(c2)
    if missing:
        V.violation(ctx, "flash start-cascade model did not evaluate: %s" % missing[0], {"broken": "gen/C07/casc_*.v", "files": missing}, found_input=False)
    if bad:
        c = bad[0]
        failing = c["impl_result"][0] == 0
        corr_violation("tp_flash with an initial state does not follow the start cascade FlashCascadeC07.cascade (guess -> stability start) on %d of %d flashes; first: %s"
                       % (len(bad), n_casc, json.dumps(c)[:700]),
                       {"broken": "correspondence tp_flash start cascade (cascade_failed_guess_falls_back / no_phase_split_only_from_stability are about the model)",
                        "mismatches": bad[:10], "sys": c["key"]["sweep"]["sys"], "spec": c["key"]["sweep"]["feed_spec"], "guess_spec": c["key"]["sweep"]["guess_spec"]},
                       True if failing else None)

    cov = {
        "obligations": obligations,
        "discharged": discharged,
        "checker_cmd": "make -C coq (coqc 8.16.1, full .vo: theories/TpdC07.v theories/TpdDerivC07.v theories/FlashCascadeC07.v props/C07.v) ; coqc coq/gen/C07/{tpd,trial,step,ctrl,stab,triv,casc}_*.v",
        "trusted_base": [
            "Coq 8.16.1 kernel incl. the VM (vm_compute)",
            "standard-library axioms reported by Print Assumptions (classical reals, classic, functional_extensionality_dep); the Q-valued theorems are closed under the global context",
            "Interval 4.x / Flocq / Coquelicot (the `interval` tactic closes the generated goals; Coquelicot's is_derive for the gradient/Hessian theorems)",
            "hand-written models TpdC07.v / TpdDerivC07.v (tied to the code by the differential runs of this check, not generated from it)",
            "cfg(feos_verif) hooks verif_define_trial_state / verif_minimize_tpd / verif_stability_newton_step (pure re-exports); verif_c12 event trace (Stage / IterStart / Converged events of tp_flash, observation only)",
            "harness: iterates of minimize_tpd are obtained by re-running the hooked function with max_iter = k; per-iteration error/tpd of the control-skeleton trace are recomputed in f64 by the harness with the model formulas (tied to Coq by the step goals on a subset)",
            "harness exact dyadic printer, python comparator and Coq-output parser",
            "floating-point round-off is not modelled (real / rational semantics); thresholds hit within round-off are counted, not judged",
        ],
        "library_theorems": lib["obligations"],
        "library_files": lib["library_files"],
        "axioms_reported": lib["axioms"],
        "tpd_interval_goals_(returned_trial_phases,_tpd<0_and_|model-f64|<=1e-12)": n_tpd_goals,
        "trial_phases_recomputed_in_f64": sup.get("trial_phases_recomputed_in_f64"),
        "trial_state_composition_goal_groups": n_trial_goals,
        "step_goal_groups": n_steps,
        "step_goal_kinds": kinds,
        "control_skeleton_runs_compared": n_ctrl,
        "control_skeleton_threshold_ties_(allowed_<=2%)": skipped_ctrl,
        "acceptance_dedup_feeds_compared": n_stab,
        "is_trivial_pairs_compared": n_triv,
        "flash_start_cascade_runs_compared": n_casc,
        "flashes_with_initial_state": impl.get("sweep"),
        "is_trivial_threshold_ties": near,
        "tie": {k: v for k, v in impl["tie"].items() if k not in ("formula_mismatch", "trial_mismatch")},
        "tolerances": {"tpd_model_vs_f64": 1e-12, "substitution_map_rel": 1e-12, "newton_err_and_objective_rel": 1e-11,
                       "newton_linear_system_residual": "1e-6 * (|grad_i| + sum_j |H_ij delta_j|) + 1e-11", "returned_tpd_vs_model_formula_rel": 1e-10,
                       "trial_phase_pressure": "|dp| <= 1e-8 p + 1e-9 (reduced units)", "known_finding_noise_band_tpd": classes.get("marginal_equilibrium_phase", {}).get("key", {}).get("band")},
        "support_search": {k: v for k, v in sup.items() if k not in ("failures", "known_points")},
        "support_search_level": "exploration (partial clauses: completeness of the verdict, flash after an unstable verdict; not counted among obligations)",
        "support_failures_matching_known_classes": n_known,
        "known_points_rerun": known_status,
        "samples": [g["goals"][0] for g in impl["tpd_goals"][:3]] + [g["steps"][0] for g in impl["step_goals"][:2]]
                   + [c for g in impl["ctrl"][:1] for c in g["cases"][:2]] + [c for g in impl["stab"][:1] for c in g["cases"][:1]],
        "rule": "real State::stability_analysis / is_stable / tp_flash on PC-SAFT hydrocarbon binaries (gross2001.json, T_c ratio < 1.5), a PC-SAFT ternary, "
                "Peng-Robinson binary/ternary and pure fluids; every returned trial phase recomputed from ln_phi of trial and feed; hooked private functions vs Coq models",
    }
    V.write_evidence(ctx, "proof", cov, [
        "the Coq models are hand-written (route H); they are tied to /repo by the differential runs above on the sampled inputs",
        "completeness of the verdict (feeds 2 % inside the envelope reported unstable, states 2 % outside and converged phases reported stable, flash succeeds) "
        "is global minimisation / convergence: NOT decided by proof (support search only; partial)",
        "the sign of the recomputed tpd of a returned trial phase is guaranteed by theorem only up to the drift of ln phi between the last two iterates "
        "(accept_recomputed_bound); the check recomputes it for every returned phase",
        "ln phi degree-0 homogeneity (C02) and Gibbs-Duhem are hypotheses of the composition/gradient theorems",
        "the Hessian as coded has g_i instead of g_i/2 on the diagonal (hess_code_vs_true): a quasi-Newton matrix, exact at stationary points; not a violation of the property",
    ])


def replay(rp):
    """re-run the failing input of a replay on the real implementation"""
    print(json.dumps({k: rp[k] for k in rp if k not in ("failing_inputs", "mismatches", "files", "cases")}, indent=1)[:3000])
    exe = os.path.join(V.TARGET, "release", "c07")
    out_dir = os.path.join(V.GEN, "C07_replay")
    os.makedirs(out_dir, exist_ok=True)
    if rp.get("known_point"):
        V.sh([exe, "--out", out_dir, "--known", rp["known_point"], "--known-only", "x"], cwd=V.VERIF)
        r = json.load(open(os.path.join(out_dir, "impl.json")))
        print(json.dumps(r, indent=1)[:6000])
        return 1 if any(k.get("failures") for k in r["known_points"]) else 0
    if rp.get("sys") and rp.get("spec"):
        cmd = [exe, "--out", out_dir, "--sys", rp["sys"], "--spec", json.dumps(rp["spec"])]
        if rp.get("guess_spec"):
            cmd += ["--guess", json.dumps(rp["guess_spec"])]
        V.sh(cmd, cwd=V.VERIF)
        r = json.load(open(os.path.join(out_dir, "impl.json")))
        print(json.dumps(r, indent=1)[:6000])
        return 1 if r["failures"] else 0
    for key in ("mismatches", "cases", "files"):
        if key in rp:
            print(json.dumps(rp[key][:3], indent=1)[:6000])
    return 1
