"""C13 — virial coefficients equal the low-density limit of the compressibility factor.  DESIGN.md section 5, C13.

Theorems: props/C13.v — Virial.v (for a function g with g(0)=g'(0)=0 whose derivative is derivable at 0,
(rho g'(rho) - g(rho))/rho^2 -> g''(0)/2, i.e. (Z-1)/rho -> B) and the AD theorem of C01 instantiated on the regenerated
program of g(T, rho) = beta A^res(T, V=1, N=rho x): the enclosed rho-derivatives at rho = 0 ARE derivatives.
Per run and configuration:
  * the program is traced at rho = 0 exactly (the path the virial functions take) and at a finite density;
  * B = G2/2, C = G3/3, dB/dT = G2T/2 enclosed by the verified evaluator are compared with the public virial functions;
  * the rho = 0 path must be the limit of the finite-density path: same program (prog_eqb), or equal per-contribution
    second density derivatives of the finite-density program evaluated at rho = 0 (when it is closed and defined there);
  * always-on oracle on real states: Richardson-extrapolated (Z-1)/rho and its slope, central differences in T.
"""
import math
import os
from fractions import Fraction
import vplib as V

PROP_FILES = [os.path.join(V.PROPS, "C13.v")]
RTOL_MODEL = 1e-9
RTOL_B, RTOL_C, RTOL_DT = 2e-5, 3e-3, 2e-5
# model classes for which the complete limit theorem (C13_second_virial_limit_of_program) is instantiated on the unchanged tree
EXPECT_LIMIT_THEOREM = {"PengRobinson", "PcSaft", "GcPcSaft", "Pets"}


def by_prog(tags, key):
    d = {}
    for item in tags.get(key, []):
        if isinstance(item, tuple) and len(item) == 2 and isinstance(item[0], str) and item[0] != "unparsed":
            d[item[0]] = item[1]
    return d


def encl(v):
    if not (isinstance(v, tuple) and v and v[0] == "Some"):
        return None
    ml, el, (mu, eu) = v[1]
    lo = float(Fraction(ml) * Fraction(2) ** el)
    hi = float(Fraction(mu) * Fraction(2) ** eu)
    return (math.nextafter(lo, -math.inf), math.nextafter(hi, math.inf))


def num(x):
    return x if isinstance(x, (int, float)) else None


def classify(cfg):
    """model class of a configuration, for matching known findings"""
    n = cfg.get("base", cfg["name"])
    if n.startswith("bare_"):
        n = n[5:]
    if n.startswith("fn_pcsaft"):
        return "Functional(PcSaft)"
    if n.startswith("uv_bh"):
        return "UVTheory(BarkerHenderson)"
    if n.startswith("uv_"):
        return "UVTheory"
    if n.startswith("saftvrqmie") and cfg["ncomp"] > 1:
        return "SaftVRQMie(mixture)"
    if n.startswith("saftvrqmie"):
        return "SaftVRQMie"
    if n.startswith("saftvrmie"):
        return "SaftVRMie"
    if n.startswith("gcpcsaft"):
        return "GcPcSaft"
    if n.startswith("pcsaft"):
        return "PcSaft"
    if n.startswith("pets"):
        return "Pets"
    if n.startswith("pr"):
        return "PengRobinson"
    return n


def run(ctx):
    only = ["--only", os.environ["FV_ONLY"]] if os.environ.get("FV_ONLY") else []
    impl = V.run_harness("c13", ctx, extra=only)
    gen_files = sorted(os.path.join(ctx.gen, f) for f in os.listdir(ctx.gen) if f.endswith(".v"))
    lib = V.check_props(ctx, PROP_FILES, gen_files)
    res = V.coqc_many(gen_files, ctx, timeout=2400)
    known = V.load_known("C13")
    obligations, discharged = lib["obligations"], lib["discharged"]
    stats = {"model_vs_api": 0, "oracle": 0, "worst_model": 0.0, "worst_oracle_B": 0.0, "same_program": 0,
             "contributions_compared": 0}
    samples = []
    limit_theorem = {}
    limit_theorem3 = {}

    def report(cfg, kind, contribution, what, detail, found=True):
        """a violation of the property for this configuration, unless it is a listed known finding"""
        cls = classify(cfg)
        for e in known:
            k = e.get("key", {})
            # boundary compositions are compared through the oracle only (no per-contribution localisation): for them a finding
            # listed for the configuration matches whatever its contribution
            is_edge = cfg.get("base", cfg["name"]) != cfg["name"]
            if k.get("model") in (cls, "any") and k.get("kind") == kind \
                    and (k.get("contribution") in (None, contribution) or (is_edge and "configs" in k)) \
                    and ("configs" not in k or cfg.get("base", cfg["name"]).replace("bare_", "") in k["configs"]):
                V.report_known(ctx, e)
                return
        V.violation(ctx, "%s [%s]: %s" % (cfg["name"], cls, what), dict(detail, config=cfg["name"], model_class=cls,
                    kind=kind, contribution=contribution, x=cfg["x"]), found_input=found)

    for cfg in impl["configs"]:
        name = cfg["name"]
        r = res.get(os.path.join(ctx.gen, name + ".v"), {"rc": 0, "out": ""})
        tags = V.tagged(r["out"])
        if not cfg["enclosed"]:
            r = {"rc": 0, "out": ""}     # program too large for this tier: oracle only
        nob = (2 + (1 if cfg["order3"] else 0)) if cfg["enclosed"] else 0
        obligations += nob
        if r["rc"] == 0:
            discharged += nob
        else:
            V.violation(ctx, "obligation failed / coqc error for %s: %s" % (name, (V.coq_error(r["out"]) or "")[:200]),
                        {"broken": "gen/C13/%s.v" % name, "coq_error": V.coq_error(r["out"])}, found_input=False)
            continue
        if cfg["unsupported"]:
            V.violation(ctx, "%s uses operations the lowering does not support" % name,
                        {"broken": "translator", "unsupported": cfg["unsupported"]}, found_input=False)
        g2, g3, g2t = by_prog(tags, "G2").get("P"), by_prog(tags, "G3").get("P"), by_prog(tags, "G2T").get("P")
        g2c, f2c = by_prog(tags, "G2C").get("P"), by_prog(tags, "F2C").get("P")
        same = by_prog(tags, "SAMEPROG").get("P")
        vobl = by_prog(tags, "VOBL").get("P")
        if cfg["enclosed"]:
            inst = isinstance(vobl, list) and len(vobl) > 0 and all(x is True for x in vobl)
            limit_theorem[name] = inst
            if inst:
                obligations += len(vobl)
                discharged += len(vobl)
            elif classify(cfg) in EXPECT_LIMIT_THEOREM:
                obligations += len(cfg["temperatures"])
                V.violation(ctx, "%s: the limit theorem is no longer instantiated (virial_obligations = %s): the zero-density program is "
                            "not defined on a neighbourhood of rho = 0, or g(0), g'(0) are not zero" % (name, vobl),
                            {"broken": "gen/C13/%s.v: virial_obligations (C13_second_virial_limit_of_program)" % name, "config": name,
                             "values": str(vobl), "oracle": cfg["oracle"]}, found_input=False)
        vobl3 = by_prog(tags, "VOBL3").get("P")
        if cfg["enclosed"] and cfg["order3"]:
            inst3 = isinstance(vobl3, list) and len(vobl3) > 0 and all(x is True for x in vobl3)
            limit_theorem3[name] = inst3
            if inst3:
                obligations += len(vobl3)
                discharged += len(vobl3)
            elif classify(cfg) in EXPECT_LIMIT_THEOREM:
                obligations += len(cfg["temperatures"])
                V.violation(ctx, "%s: the third-virial limit theorem is no longer instantiated (virial_obligations3 = %s)" % (name, vobl3),
                            {"broken": "gen/C13/%s.v: virial_obligations3 (C13_third_virial_limit_of_program)" % name, "config": name,
                             "values": str(vobl3), "oracle": cfg["oracle"]}, found_input=False)
        if same is True:
            stats["same_program"] += 1
        for ti, t in enumerate(cfg["temperatures"]):
            api, orc, fdt = cfg["api"][ti], cfg["oracle"][ti], cfg["fd_T"][ti]
            B, C, dB, dC = num(api["B"]), num(api["C"]), num(api["dB_dT"]), num(api["dC_dT"])
            where = {"temperature": t, "x": cfg["x"], "reported": api}
            # ---- 1. the reported coefficients are what the rho = 0 program yields (model <-> implementation)
            pairs = [("B", B, g2, 0.5)] if cfg["enclosed"] else []
            if cfg["order3"] and cfg["enclosed"]:
                pairs += [("C", C, g3, 1.0 / 3.0), ("dB_dT", dB, g2t, 0.5)]
            nan_reported = False
            for (q, x, g, fac) in pairs:
                iv = encl(g[ti]) if g else None
                stats["model_vs_api"] += 1
                if x is None and iv is None:
                    nan_reported = True
                    continue
                if x is None or iv is None:
                    report(cfg, "model_vs_api", None, "%s: implementation %s, program of the rho=0 path %s" % (q, api[q], iv),
                           dict(where, quantity=q, enclosure=iv))
                    continue
                lo, hi = sorted((fac * iv[0], fac * iv[1]))
                mid = 0.5 * (lo + hi)
                tol = RTOL_MODEL * max(abs(x), abs(mid)) + (hi - lo) + 1e-300
                if not abs(x - mid) <= tol:
                    report(cfg, "model_vs_api", None, "%s reported %r but the rho=0 program gives %r" % (q, x, (lo, hi)),
                           dict(where, quantity=q, enclosure=[lo, hi]))
                else:
                    stats["worst_model"] = max(stats["worst_model"], abs(x - mid) / tol)
            if B is None:
                nan_reported = True
            if nan_reported:
                report(cfg, "nan", None, "virial coefficient is not finite (%s) although (Z-1)/rho has the finite limit %s"
                       % (api, orc and orc.get("B_limit")), dict(where, oracle=orc))
                continue
            # ---- 2. the rho = 0 path is the limit of the finite-density path, per contribution
            if same is not True and g2c and f2c and cfg["leaks_fd"] == 0:
                for j, cname in enumerate(reversed(cfg["outs"])):      # value lists are most-recent-first
                    a, b = encl(g2c[ti][j]), encl(f2c[ti][j])
                    stats["contributions_compared"] += 1
                    if a is None or b is None:
                        continue    # the finite-density program is not defined at rho = 0: oracle only
                    tol = 1e-9 * max(abs(a[0]), abs(b[0]), 1e-300) + (a[1] - a[0]) + (b[1] - b[0])
                    if abs(0.5 * (a[0] + a[1]) - 0.5 * (b[0] + b[1])) > tol:
                        report(cfg, "limit_mismatch", cname,
                               "contribution %s: d2g/drho2 at rho=0 is %r on the zero-density path but %r for the finite-density code"
                               % (cname, a, b), dict(where, contribution_zero_path=a, contribution_finite_density_code=b, oracle=orc))
            # ---- 3. oracle on real states
            if orc:
                stats["oracle"] += 1
                bl, cl = orc["B_limit"], orc["C_limit"]
                if bl is None or cl is None:
                    # the states themselves are not finite at this composition / temperature although the coefficient is
                    if B is not None:
                        report(cfg, "state_nan", None, "B reported %r but the compressibility factor of real states at low density is not "
                               "finite (samples %s)" % (B, orc.get("samples")), dict(where, oracle=orc))
                    continue
                # truncation error of the extrapolation: difference to the estimate with a 16 times smaller base step
                blf, clf = num(orc.get("B_limit_fine")), num(orc.get("C_limit_fine"))
                unc_b = 2.0 * abs(bl - blf) if blf is not None else 0.0
                unc_c = 2.0 * abs(cl - clf) if clf is not None else 0.0
                # an extrapolation whose two step sizes disagree by more than half of the value is not in its asymptotic range (strongly
                # associating fluid at low temperature: the radius of the density expansion is tiny): the oracle says nothing there
                inconclusive_b = blf is not None and abs(bl - blf) > 0.5 * abs(blf)
                inconclusive_c = clf is not None and abs(cl - clf) > 0.5 * abs(clf)
                if inconclusive_b or inconclusive_c:
                    stats["oracle_inconclusive"] = stats.get("oracle_inconclusive", 0) + 1
                if blf is not None:
                    bl = blf
                if clf is not None:
                    cl = clf
                scale_b = max(abs(B), abs(bl))
                okB = inconclusive_b or abs(B - bl) <= RTOL_B * scale_b + 1e-9 + unc_b
                stats["worst_oracle_B"] = max(stats["worst_oracle_B"], abs(B - bl) / (scale_b + 1e-300)) if (okB and not inconclusive_b) else stats["worst_oracle_B"]
                if not okB:
                    # localise: a contribution whose zero-density path value is exactly 0 while the code is iterative there
                    contrib = None
                    if cfg["leaks_fd"] > 0 and g2c:
                        for j, cname in enumerate(reversed(cfg["outs"])):
                            a = encl(g2c[ti][j])
                            if a == encl(("Some", (0, 0, (0, 0)))) and "ssociation" in cname:
                                contrib = cname
                    report(cfg, "limit_mismatch", contrib, "B reported %r but (Z-1)/rho -> %r as rho -> 0%s"
                           % (B, bl, (" (contribution %s is dropped on the zero-density path)" % contrib) if contrib else ""),
                           dict(where, oracle=orc))
                elif C is not None and not inconclusive_c and not abs(C - cl) <= RTOL_C * max(abs(C), abs(cl)) + 1e-3 * abs(B) ** 2 + unc_c:
                    report(cfg, "limit_mismatch", None, "C reported %r but d((Z-1)/rho)/drho -> %r as rho -> 0" % (C, cl),
                           dict(where, oracle=orc))
            for (q, x, key) in (("dB_dT", dB, "dB_dT_fd"), ("dC_dT", dC, "dC_dT_fd")):
                fd = num(fdt.get(key))
                if x is not None and fd is not None:
                    if not abs(x - fd) <= RTOL_DT * max(abs(x), abs(fd)) + 1e-12:
                        report(cfg, "dT_mismatch", None, "%s reported %r but the central difference of the coefficient is %r" % (q, x, fd),
                               dict(where, quantity=q, finite_difference=fd))
        if len(samples) < 5:
            samples.append({"config": name, "x": cfg["x"], "T": cfg["temperatures"][0], "reported": cfg["api"][0],
                            "B_enclosure_from_program": (lambda iv: [0.5 * iv[0], 0.5 * iv[1]] if iv else None)(encl(g2[0]) if g2 else None),
                            "oracle": cfg["oracle"][0], "same_program_as_finite_density": same})
    cov = {
        "obligations": obligations, "discharged": discharged,
        "checker_cmd": "make -C coq (coqc 8.16.1) ; coqc coq/gen/C13/<config>.v",
        "trusted_base": V.COMMON_TRUSTED + ["Interval bigint backend at precision %d" % impl["prec"],
                                             "Richardson extrapolation of (Z-1)/rho from real states (oracle; tolerance B %g, C %g relative)" % (RTOL_B, RTOL_C)],
        "programs": 2 * len(impl["configs"]),
        "library_theorems": lib["obligations"], "library_files": lib["library_files"], "axioms_reported": lib["axioms"],
        "comparisons_program_vs_virial_functions": stats["model_vs_api"],
        "worst_discrepancy_in_units_of_tolerance": stats["worst_model"],
        "configurations_where_zero_density_path_is_the_same_program": stats["same_program"],
        "contribution_limits_compared": stats["contributions_compared"],
        "limit_theorem_instantiated": limit_theorem,
        "third_virial_limit_theorem_instantiated": limit_theorem3,
        "oracle_evaluations": stats["oracle"], "oracle_worst_relative_B": stats["worst_oracle_B"],
        "oracle_evaluations_outside_the_asymptotic_range_of_the_extrapolation": stats.get("oracle_inconclusive", 0),
        "samples": samples,
        "rule": "per configuration one composition, 2 (quick) / 4 (thorough) temperatures in [0.5,3] T_scale; programs traced at rho = 0 and at 1e-3 rho_max",
    }
    V.write_evidence(ctx, "proof", cov, [
        "the limit statement is proved for the function the program denotes; floating-point round-off is not modelled",
        "third-order quantities are enclosed only for programs below a size limit; dC/dT is compared with a central difference only",
        "for iterative (leaky) finite-density code the per-contribution comparison is replaced by the oracle",
    ])
