"""C09 — invariance under relabelling, padding, splitting and subsets.  DESIGN.md section 5, C09.

Deciding obligations:
  * subset: `M.subset(idx)` vs a model built directly from `records[idx]` with the same options: the regenerated programs must
    be syntactically identical (`prog_eqb`, equality for ALL states by C09_identical_programs_agree) and `compute_max_density`
    (where the options enter) must agree; the index logic of `Parameter::subset` is C09_subset_lookup (model shared with C14);
  * permutation, zero-mole padding: the verified AC-canonicaliser (coq/theories/Canon.v, C09_canonical_programs_agree) is run on
    the two regenerated programs over one shared environment (variables permuted / padded mole number flagged zero, constants
    identified by value); where it returns true for an output, the two outputs are EQUAL FOR ALL STATES by theorem; the pairs in
    EXPECT_CANON must be proved that way (a regression is a violation), the others (iterative association solver: LU with
    pivoting is not AC-invariant) and splitting (needs distributivity) fall back to the
  * LABELLED TEST — value and the corresponding first derivatives of both regenerated
    programs are enclosed by the verified multi-precision evaluator at sampled states and must agree to 1e-12 relative
    (disjoint enclosures prove a difference at that state), plus a plain-f64 oracle on more states.
"""
import json
import math
import os
from fractions import Fraction
import vplib as V

PROP_FILES = [os.path.join(V.PROPS, "C09.v")]
# relative tolerance of the enclosure comparison per pair: round-off free, so tight, except where the two code paths
# contain different numerical methods (quadrature / iteration to a tolerance)
TOL_DEFAULT = 1e-12
TOL = {}
TOL_ITERATIVE = 1e-7   # cases whose programs contain the iterative cross-association solver (converged to 1e-10)
F64_RTOL = 1e-5
# pairs whose TOTAL residual Helmholtz energy must be proved equal for all states by the canonicaliser
# (permute_gc_homosegmented is NOT listed: `Parameter::from_segments` sums the segment-pair records in HashMap iteration order, so the two
#  members' k_ij may differ in the last bit from run to run; the canonicaliser proves the pair in the runs where they coincide)
EXPECT_CANON = {"permute_pcsaft_alkanes_kij", "permute_pcsaft_acetone_co2", "pad_pcsaft_alkanes", "pad_pcsaft_propane_plus_acetone",
                "gperm_pr2", "gpad1_pr2", "gpad0_pr2",
                "gperm_pcsaft_propane_butane_kij", "gpad1_pcsaft_propane_butane_kij", "gpad0_pcsaft_propane_butane_kij",
                "gpad1_pcsaft_acetone_butanone", "gpad0_pcsaft_acetone_butanone",
                "gpad1_pcsaft_co2_chlorine", "gpad0_pcsaft_co2_chlorine",
                "gperm_pcsaft_acetone_co2", "gpad1_pcsaft_acetone_co2", "gpad0_pcsaft_acetone_co2",
                "gperm_pcsaft_csite_propane", "gpad1_pcsaft_csite_propane", "gpad0_pcsaft_csite_propane",
                "gperm_pets2", "gpad1_pets2", "gpad0_pets2",
                "gperm_epcsaft_water_nacl", "gpad2_epcsaft_water_nacl", "gpad0_epcsaft_water_nacl"}


# index lists (number of components of the parent, list) for the correspondence of Components::subset with ParamLookup.subset_pure
SUBSET_LISTS = [(1, [0]), (1, [0, 0]), (2, [0]), (2, [1]), (2, [1, 0]), (2, [0, 1]), (2, [1, 1, 0]), (3, [2]), (3, [2, 0]), (3, [0, 2]), (3, [1, 0]),
                (3, [2, 1]), (3, [1, 2, 0]), (3, [2, 1, 0]), (3, [2, 0, 1]), (3, [0, 1, 2]), (3, [1, 1, 2]), (3, [2, 0, 2, 1])]


def by_prog(tags, key):
    d = {}
    for item in tags.get(key, []):
        if isinstance(item, tuple) and len(item) == 2 and isinstance(item[0], str) and item[0] != "unparsed":
            d[item[0]] = item[1]
    return d


def encl(v):
    if not (isinstance(v, tuple) and v and v[0] == "Some"):
        return None
    ml, el, (mu, eu) = v[1]
    lo = float(Fraction(ml) * Fraction(2) ** el)
    hi = float(Fraction(mu) * Fraction(2) ** eu)
    return (math.nextafter(lo, -math.inf), math.nextafter(hi, math.inf))


def run(ctx):
    only = ["--only", os.environ["FV_ONLY"]] if os.environ.get("FV_ONLY") else []
    impl = V.run_harness("c09", ctx, extra=only)
    # the plan of HenryIdxC09.v (solvent indices, write-back codes, selected results) for every zero pattern of 2..4 components,
    # evaluated by coqc from the model's definitions; replayed on the public API below (correspondence of that model with the code)
    pats = [[(m >> i) & 1 for i in range(n)] for n in (2, 3, 4) for m in range(1, 2 ** n - 1)]
    with open(os.path.join(ctx.gen, "henry_plan.v"), "w") as f:
        f.write("From Coq Require Import List Arith String.\nImport ListNotations.\nFrom FeosVerif Require Import HenryIdxC09.\n"
                "(* a zero pattern (1 = solute, mole fraction exactly 0) as a mole-fraction vector of tokens: 0 for a solute, i+1 for the solvent at position i *)\n"
                "Definition pat_x (p : list nat) : list nat := map (fun q => if Nat.eqb (snd q) 1 then 0 else S (fst q)) (combine (seq 0 (List.length p)) p).\n"
                "Definition plan (p : list nat) :=\n  let x := pat_x p in let idx := solvent_idx (Nat.eqb 0) x in\n"
                "  (idx, scatter x idx (map (fun k => 100 + k) (seq 0 (List.length idx))), select_solutes (Nat.eqb 0) (seq 0 (List.length p)) x).\n"
                "Eval vm_compute in (\"PLAN\"%%string, map (fun p => (p, plan p)) [%s]).\n"
                "(* Components::subset of every model: position a of the sub-model is parent component idx_a (ParamLookup.subset_pure on tokens 1..n) *)\n"
                "From FeosVerif Require Import ParamLookup.\n"
                "Eval vm_compute in (\"SUBSETPLAN\"%%string, map (fun q => (q, @subset_pure nat 0 (seq 1 (fst q)) (snd q))) [%s]).\n"
                % ("; ".join("[" + "; ".join(str(b) for b in p) + "]" for p in pats),
                   "; ".join("(%d, [%s])" % (n, "; ".join(str(i) for i in l)) for (n, l) in SUBSET_LISTS)))
    gen_files = sorted(os.path.join(ctx.gen, f) for f in os.listdir(ctx.gen) if f.endswith(".v"))
    lib = V.check_props(ctx, PROP_FILES, gen_files)
    res = V.coqc_many(gen_files, ctx, timeout=2400)
    obligations, discharged = lib["obligations"], lib["discharged"]
    n_cmp = 0
    worst = {}
    samples = []
    identical = 0
    canon_total = 0
    known_hits = []
    oracle_only = []
    canon_rows = {}
    known = V.load_known("C09")

    def known_for(name):
        """an open finding covers a mismatch of pair `name` only if it lists the pair AND the canonicaliser has proved every
        contribution other than the named one equal for all states (so the difference sits in that contribution)"""
        row = canon_rows.get(name)
        for e in known:
            k = e.get("key", {})
            if name in k.get("pairs", []) and row is not None and \
                    set(row["not_decided_by_the_canonicaliser"]) <= {k.get("contribution"), "A_total"}:
                return e
        return None
    def known_f64(name, fails):
        """plain-f64 cases: an open finding covers the pair only if it lists it AND at every reported failing state the named
        contributions that differ are among those the finding names (a difference elsewhere is still a violation)"""
        for e in known:
            k = e.get("key", {})
            if name in k.get("pairs_f64", []) and all(
                    f.get("differing_contributions") and set(f["differing_contributions"]) <= set(k.get("contributions", []))
                    for f in fails):
                return e
        return None
    for p in impl["cases"]:
        name = p["name"]
        tol = TOL.get(name, TOL_ITERATIVE if ("water_methanol" in name or "assoc" in name) else TOL_DEFAULT)
        # (a non-finite value on one side only arrives as null: always a failure)
        f64_fail = [f for f in p["f64"]["failures"]
                    if f["a"] is None or f["b"] is None
                    or not abs(f["a"] - f["b"]) <= max(F64_RTOL, 10 * tol) * max(abs(f["a"]), abs(f["b"]))]
        if p.get("oracle_only"):
            # quick tier, large programs: plain f64 comparison at the sampled states only (the thorough tier regenerates them)
            oracle_only.append(name)
            if f64_fail and known_f64(name, f64_fail):
                V.report_known(ctx, known_f64(name, f64_fail))
                known_hits.append(name)
            elif f64_fail:
                V.violation(ctx, "%s: the two implementations differ in plain f64 at %s (contributions that differ: %s)"
                            % (name, f64_fail[0].get("state_a"), f64_fail[0].get("differing_contributions")),
                            {"broken": "oracle", "pair": name, "failing": f64_fail}, found_input=True)
            continue
        r = res[os.path.join(ctx.gen, name + ".v")]
        tags = V.tagged(r["out"])
        same = by_prog(tags, "SAME").get("P")
        if p["unsupported"][0] or p["unsupported"][1]:
            V.violation(ctx, "%s uses operations the lowering does not support" % name,
                        {"broken": "translator", "unsupported": p["unsupported"]}, found_input=False)
        if p.get("max_density_failures"):
            V.violation(ctx, "%s: compute_max_density of the sub-model differs from the directly built model (options dropped?)" % name,
                        {"broken": "oracle: max density", "case": name, "failing": p["max_density_failures"]}, found_input=True)
        if p["expect_identical"]:
            obligations += 1
            if r["rc"] == 0 and same is True and p["consts_identical"]:
                discharged += 1
                identical += 1
            else:
                V.violation(ctx, "%s: the container no longer evaluates the same program as the bare model "
                            "(prog_eqb = %s, constant tables identical = %s)" % (name, same, p["consts_identical"]),
                            {"broken": "gen/C09/%s.v: pair_identical" % name, "coq_error": V.coq_error(r["out"]),
                             "failing": f64_fail}, found_input=bool(f64_fail))
                continue
        elif r["rc"] != 0:
            V.violation(ctx, "coqc failed for %s" % name, {"broken": "gen/C09/%s.v" % name, "coq_error": V.coq_error(r["out"])},
                        found_input=False)
            continue
        canon_lost = False
        if p.get("canon_outputs"):
            flags = by_prog(tags, "CANON").get("P")
            names = p["canon_outputs"]
            ok = isinstance(flags, list) and len(flags) == len(names)
            row = dict(zip(names, flags)) if ok else {}
            canon_rows[name] = {"proved_equal_for_all_states": [n for n in names if row.get(n) is True],
                                "not_decided_by_the_canonicaliser": [n for n in names if row.get(n) is not True],
                                "state_dependent_constants": p.get("leaks")}
            total = row.get("A_total") is True
            if name in EXPECT_CANON:
                obligations += 1
                if total:
                    discharged += 1
            if total:
                canon_total += 1
            elif name in EXPECT_CANON:
                canon_lost = True
        ea0, eb0 = by_prog(tags, "EA0").get("P"), by_prog(tags, "EB0").get("P")
        ea1, eb1 = by_prog(tags, "EA1").get("P"), by_prog(tags, "EB1").get("P")
        bad = []
        if None in (ea0, eb0, ea1, eb1):
            V.violation(ctx, "enclosures missing for %s" % name, {"broken": "gen/C09/%s.v" % name, "coq_error": V.coq_error(r["out"])},
                        found_input=False)
            continue
        for si, st in enumerate(p["states"]):
            rows = [("A", ea0[si], eb0[si])] + [("dA/d(%d|%d)" % tuple(p["dirs"][i]), ea1[si][i], eb1[si][i]) for i in range(p["ndirs"])]
            scale0 = None
            for (q, xa, xb) in rows:
                a, b = encl(xa), encl(xb)
                n_cmp += 1
                if a is None and b is None:
                    continue
                if a is None or b is None:
                    bad.append({"quantity": q, "state": st, "a": a, "b": b})
                    continue
                ma, mb = 0.5 * (a[0] + a[1]), 0.5 * (b[0] + b[1])
                t = tol * max(abs(ma), abs(mb)) + (a[1] - a[0]) + (b[1] - b[0])
                rel = abs(ma - mb) / (max(abs(ma), abs(mb)) + 1e-300)
                worst[name] = max(worst.get(name, 0.0), rel)
                if not abs(ma - mb) <= t:
                    bad.append({"quantity": q, "state": st, "a": list(a), "b": list(b), "relative_difference": rel, "tolerance": tol})
        if (bad or f64_fail) and known_for(name):
            V.report_known(ctx, known_for(name))
            known_hits.append(name)
        elif bad:
            V.violation(ctx, "%s: the two implementations differ at a sampled state: %s (relative %.3g)"
                        % (name, bad[0]["quantity"], bad[0].get("relative_difference", float("nan"))),
                        {"broken": "verified enclosures of both regenerated programs (gen/C09/%s.v)" % name, "pair": name,
                         "mismatches": bad[:8], "f64_confirmation": f64_fail[:3]}, found_input=True)
        elif f64_fail:
            V.violation(ctx, "%s: the two implementations differ in plain f64 at %s" % (name, f64_fail[0].get("state_a")),
                        {"broken": "oracle", "pair": name, "failing": f64_fail}, found_input=True)
        elif canon_lost:
            V.violation(ctx, "%s: the two regenerated programs are no longer equal modulo associativity/commutativity "
                        "(canon_eqbs false for A_total); no differing state found among the sampled ones" % name,
                        {"broken": "gen/C09/%s.v: pair_agree (C09_canonical_programs_agree) for A_total" % name,
                         "canon": canon_rows.get(name)}, found_input=False)
        if len(samples) < 5:
            samples.append({"pair": name, "instructions": [p["ninstr_a"], p["ninstr_b"]], "syntactically_identical": same,
                            "kind": p["kind"], "states_TVN": p["states"][0] if p["states"] else None,
                            "A_enclosures": [encl(ea0[0]), encl(eb0[0])] if ea0 and eb0 else None})
    # --- correspondence of HenryIdxC09.v with State::henrys_law_constant
    hm = {"comparisons": 0, "failures": [], "both_failed_to_converge": 0}
    sm = {"comparisons": 0, "failures": []}
    rp = res.get(os.path.join(ctx.gen, "henry_plan.v"))
    plan_rows = V.tagged(rp["out"]).get("PLAN") if rp and rp["rc"] == 0 else None
    obligations += 1
    if not plan_rows:
        V.violation(ctx, "the plan of the Henry index model could not be evaluated: %s" % (V.coq_error(rp["out"]) if rp else "no output"),
                    {"broken": "gen/C09/henry_plan.v", "coq_error": V.coq_error(rp["out"]) if rp else None}, found_input=False)
    else:
        plan = {}
        for (pat, (idx, vap, sel)) in plan_rows[0]:
            plan["".join(str(b) for b in pat)] = {"idx": list(idx), "vapor": list(vap), "solutes": list(sel)}
        plan["subset"] = [{"n": n, "idx": list(l), "parents": [t - 1 for t in toks]}
                          for (n, l, toks) in (V.tagged(rp["out"]).get("SUBSETPLAN") or [[]])[0]]
        sub = os.path.join(ctx.gen, "henry")
        os.makedirs(sub, exist_ok=True)
        pj = os.path.join(sub, "plan.json")
        with open(pj, "w") as f:
            json.dump(plan, f, indent=1, sort_keys=True)
        rc, out, _ = V.sh([os.path.join(V.TARGET, "release", "c09"), "--out", sub, "--tier", ctx.tier, "--seed", str(ctx.seed), "--plan", pj],
                          cwd=V.VERIF, timeout=1800)
        if rc != 0:
            raise V.InfraError("harness c09 --plan exited %d:\n%s" % (rc, out[-2000:]))
        hm = json.load(open(os.path.join(sub, "impl.json")))["henry_model"]
        if hm["failures"]:
            f0 = hm["failures"][0]
            V.violation(ctx, "State::henrys_law_constant does not follow the index model HenryIdxC09.v (solvent indices / write-back of the solvent "
                             "vapour composition / selection of the solutes): %s order %s, mole fractions %s: returned %s, the model's plan replayed on "
                             "the public API gives %s" % (f0["family"], f0["component_order"], f0["molefracs"], f0["henrys_law_constant"], f0["model_plan_replayed"]),
                        {"broken": "correspondence: HenryIdxC09.v (plan evaluated by coqc) vs State::henrys_law_constant", "failing": hm["failures"][:6]},
                        found_input=True)
        elif hm["comparisons"] > 0:
            discharged += 1
        sm = json.load(open(os.path.join(sub, "impl.json"))).get("subset_model", {"comparisons": 0, "failures": []})
        obligations += 1
        if sm["failures"]:
            f0 = sm["failures"][0]
            V.violation(ctx, "Components::subset of %s does not follow the index model (ParamLookup.subset_pure): subset(%s) has at position %s a "
                             "component whose %s is %s, the parent's component %s has %s" % (f0["model"], f0["idx"], f0["position"], f0["observable"],
                                                                                              f0["got"], f0["parent_component"], f0["expected"]),
                        {"broken": "correspondence: ParamLookup.subset_pure (evaluated by coqc) vs Components::subset", "failing": sm["failures"][:8]},
                        found_input=True)
        elif sm["comparisons"] > 0:
            discharged += 1
    # --- quantities the mixture algorithms derive for pure components / solvents (labelled tests on the public API)
    der = impl.get("derived", {"comparisons": 0, "failures": []})
    seen = set()
    for f in der["failures"]:
        key = (f["family"], f["quantity"])
        if key in seen:
            continue
        seen.add(key)
        V.violation(ctx, "%s: %s depends on the order / the way the (sub-)model was obtained: %s" % (
            f["family"], f["quantity"], {k: v for k, v in f.items() if k not in ("family", "quantity")}),
            {"broken": "oracle: derived pure-component / solvent quantities (harness/src/bin/c09.rs: derived)", "failing": f,
             "all_failures": [g for g in der["failures"] if (g["family"], g["quantity"]) == key][:10]}, found_input=True)
    cov = {
        "obligations": obligations, "discharged": discharged,
        "derived_quantity_comparisons": der["comparisons"],
        "subset_index_model_correspondence": {"index_lists": len(SUBSET_LISTS), "comparisons": sm["comparisons"] if plan_rows else 0,
                                              "models": sm.get("models") if plan_rows else None,
                                              "rule": "for every model family of the shared configuration list and for EquationOfState<Joback, PengRobinson> / "
                                                      "<Dippr, PengRobinson>: component a of model.subset(idx) must be parent component idx_a as computed by "
                                                      "ParamLookup.subset_pure (coqc), observed through the per-component molar weight (residual models) and "
                                                      "ln Lambda^3 (ideal-gas models); index lists in any order, with repetitions"},
        "henry_index_model_correspondence": {"zero_patterns": 22, "comparisons": hm["comparisons"],
                                             "both_sides_failed_to_converge": hm.get("both_failed_to_converge", 0),
                                             "rule": "plan (solvent_idx, scatter, select_solutes of HenryIdxC09.v) evaluated by coqc for all 22 zero patterns of 2-4 "
                                                     "components; replayed on the public API (subset, bubble point / pure VLE, liquid and vapour state, ln phi) for "
                                                     "Peng-Robinson (2 and 3 components, several orders) and PC-SAFT (4 components, 3 orders); must reproduce "
                                                     "henrys_law_constant to 1e-12"},
        "derived_quantities": "Henry constants (mixed and pure solvent, every component order, vs the binary model built directly), "
                              "PhaseEquilibrium::vapor_pressure, State::critical_point_pure, ln_phi_pure_liquid, "
                              "ln_symmetric_activity_coefficient for all 6 orders of three components (Peng-Robinson, PC-SAFT; associating "
                              "PC-SAFT in the thorough tier) against the pure models built directly; EquationOfState<Joback, PengRobinson>::subset "
                              "for 11 ordered index lists against the equation of state built directly (total c_p, s, h)",
        "checker_cmd": "make -C coq (coqc 8.16.1) ; coqc coq/gen/C09/<pair>.v",
        "trusted_base": V.COMMON_TRUSTED + ["Interval bigint backend at precision %d" % impl["prec"],
                                             "the list of pairs and how each member is constructed (harness/src/bin/c09.rs)"],
        "programs": 2 * (len(impl["cases"]) - len(oracle_only)), "cases": len(impl["cases"]), "pairs_proved_identical": identical,
        "pairs_proved_equal_for_all_states_by_canonicaliser": canon_total,
        "canonicaliser_per_output": canon_rows, "pairs_matching_a_known_finding": known_hits,
        "pairs_compared_by_enclosures_only_(labelled_test)": len(impl["cases"]) - identical - canon_total - len(oracle_only),
        "pairs_compared_in_plain_f64_only_(quick_tier,_large_programs)": oracle_only,
        "disagreements_checked": n_cmp,
        "worst_relative_difference_per_pair": worst,
        "library_theorems": lib["obligations"], "library_files": lib["library_files"], "axioms_reported": lib["axioms"],
        "samples": samples,
        "rule": "invariance cases (subset / permute / pad / split); 2 (quick) / 4 (thorough) states per pair in the C01 state range; value and all "
                "first derivatives of both regenerated programs enclosed at 100 bits",
    }
    V.write_evidence(ctx, "proof", cov, [
        "decided by theorems for all states: the subset cases (identical programs) and the permutation / padding cases in which "
        "the AC-canonicaliser identifies the outputs (see canonicaliser_per_output); the remaining pairs (iterative association "
        "solver, splitting) are compared at sampled states (verified enclosures: a machine-checked comparison, not a proof of "
        "equality everywhere)",
        "the canonicaliser identifies constants by their value in the traced state; for a program with state-dependent constants "
        "(state_dependent_constants > 0) the theorem covers the states with the same coincidences",
        "pure-component / solvent quantities inside mixture algorithms (Henry constants, vapor pressures, critical points, activity "
        "coefficients) and EquationOfState::subset with an ideal-gas part: compared on the public API for every component order (labelled test)",
    ])
