"""C02 — extensivity (Euler / Gibbs-Duhem).  DESIGN.md section 5, C02.

Deciding obligations (machine-checked, per regenerated program = per distinct trace shape of a configuration):
  outputs_deg P = true    (+ C02_program_homogeneous)            every contribution and T*sum is homogeneous of degree 1 in (V,N)
  events_sign_ok P = true (+ C02_observed_signs_scale_invariant)  every value the code looked at has a scale-invariant sign/definedness
  events_cmp_ok P = true  (+ C02_comparisons_scale_invariant)     every comparison the code made is scale invariant
Tie: the programs are regenerated from /repo's working tree by tracing (route T) and validated against the
implementation with the verified interval evaluator (translation validation).  A broken obligation triggers a
scaling / Euler search on the public State API for a concrete failing state.
"""
import math
import os
from fractions import Fraction
import vplib as V

PROP_FILES = [os.path.join(V.PROPS, "C02.v")]
TV_RTOL = 1e-9
NOBL = 5   # homogeneous, events, comparisons, scoped, first derivatives (entropy degree 1; pressure, chemical potentials degree 0)


def by_prog(tags, key):
    """{'P0': payload, ...} for results printed as (key, "P0", payload)"""
    d = {}
    for item in tags.get(key, []):
        if isinstance(item, tuple) and len(item) == 2 and isinstance(item[0], str) and item[0] != "unparsed":
            d[item[0]] = item[1]
    return d


def iv_of(v):
    """exact dyadic enclosure ('Some', (m_lo, e_lo, (m_hi, e_hi))) -> (lo, hi) widened outwards by one ulp; 'None' -> None"""
    if not (isinstance(v, tuple) and v and v[0] == "Some"):
        return None
    ml, el, (mu, eu) = v[1]
    lo = float(Fraction(ml) * Fraction(2) ** el)
    hi = float(Fraction(mu) * Fraction(2) ** eu)
    return (math.nextafter(lo, -math.inf), math.nextafter(hi, math.inf))


def tv_compare(name, prog, tv):
    """translation validation: interval enclosures of the regenerated program vs the f64 implementation"""
    bad = []
    n = 0
    for si, (encl_row, impl_row) in enumerate(zip(tv, prog["tv_impl"])):
        st = prog["tv_states"][si]
        if any(x is None for x in impl_row):
            # the implementation returns NaN at this state: the program must be undefined there too
            if all(iv_of(e) is None for e, x in zip(encl_row, impl_row) if x is None):
                continue
            bad.append({"config": name, "program": prog["name"], "state": st, "impl": "NaN", "model": "defined"})
            continue
        scale = sum(abs(x) for x in impl_row[:-1]) + 1e-300   # contributions are beta*A_k; the last output is T*sum
        for k, (e, x) in enumerate(zip(encl_row, impl_row)):
            n += 1
            iv = iv_of(e)
            if iv is None:
                bad.append({"config": name, "program": prog["name"], "state": st, "output": k, "impl": x, "model": "NaI"})
                continue
            lo, hi = iv
            mid = 0.5 * (lo + hi)
            sc = scale * st[0] if k == len(impl_row) - 1 else scale
            if not (abs(x - mid) <= TV_RTOL * sc + (hi - lo)):
                bad.append({"config": name, "program": prog["name"], "state": st, "output": k, "impl": x, "model": [lo, hi]})
    return n, bad


def run(ctx):
    impl = V.run_harness("c02", ctx)
    gen_files = sorted(os.path.join(ctx.gen, f) for f in os.listdir(ctx.gen) if f.endswith(".v"))
    lib = V.check_props(ctx, PROP_FILES, gen_files)
    res = V.coqc_many(gen_files, ctx, timeout=3000)
    lib_obl = lib["obligations"]
    obligations = lib_obl
    discharged = lib["discharged"]
    deps, axioms = lib["deps"], lib["axioms"]
    programs = 0
    tv_n = 0
    samples = []
    oracle_checks = 0
    worst = 0.0
    sign_only_total = 0
    euler_n = 0
    leaky = []
    for cfg in impl["configs"]:
        name = cfg["name"]
        r = res[os.path.join(ctx.gen, name + ".v")]
        tags = V.tagged(r["out"])
        tvs, degs, evdegs, fns = by_prog(tags, "TV"), by_prog(tags, "DEG"), by_prog(tags, "EVDEG"), by_prog(tags, "FIRSTNONE")
        fails = list(cfg["oracle"]["failures"])
        oracle_checks += cfg["oracle"]["checks"]
        w = cfg["oracle"]["worst_rel"]
        worst = max(worst, float("inf") if w == "inf" else w)
        nprog = len(cfg["programs"])
        nobl = sum(NOBL if pr.get("with_first_derivative_obligations", True) else NOBL - 1 for pr in cfg["programs"])
        obligations += nobl
        programs += nprog
        if r["rc"] == 0:
            discharged += nobl
        for prog in cfg["programs"]:
            pn = prog["name"]
            # --- translation validation
            if pn in tvs:
                n, bad = tv_compare(name, prog, tvs[pn])
                tv_n += n
                if bad:
                    V.violation(ctx, "translation validation failed for %s/%s: traced program and implementation differ" % (name, pn),
                                {"broken": "correspondence: translation validation (gen/C02/%s.v TV vs f64)" % name,
                                 "mismatches": bad[:10]}, found_input=False)
            elif r["rc"] == 0 or pn == "P0":
                V.violation(ctx, "translation validation output missing for %s/%s" % (name, pn),
                            {"broken": "correspondence: translation validation", "coq_error": V.coq_error(r["out"])},
                            found_input=False)
            # --- Euler's relation, numerically: enclosure of the (0,V,N,0)-directional derivative vs enclosure of A
            eul = by_prog(tags, "EULER").get(pn)
            if isinstance(eul, list):
                for si, pair_ in enumerate(eul):
                    a, d = iv_of(pair_[0]), iv_of(pair_[1])
                    if a is None or d is None:
                        continue
                    euler_n += 1
                    if d[1] < a[0] - 1e-9 * abs(a[0]) or d[0] > a[1] + 1e-9 * abs(a[1]):
                        V.violation(ctx, "Euler's relation fails for %s/%s: A in %r but V dA/dV + sum N dA/dN in %r" % (name, pn, a, d),
                                    {"broken": "gen/C02/%s.v EULER (verified enclosures)" % name, "state": prog["tv_states"][si],
                                     "A": a, "directional_derivative": d}, found_input=True)
            if prog["unsupported"]:
                V.violation(ctx, "%s uses operations the lowering does not support: %s" % (name, prog["unsupported"][:3]),
                            {"broken": "translator", "unsupported": prog["unsupported"]}, found_input=False)
            if not prog["scaled_same_shape"] or prog["scaled_leaks"]:
                V.violation(ctx, "%s/%s: the trace at the scaled state differs from the trace at the original state "
                            "(a scale-dependent value escaped through .re(): constants %s, same shape %s)"
                            % (name, pn, prog["scaled_leaks"][:5], prog["scaled_same_shape"]),
                            {"broken": "correspondence: scaled differential trace", "config": name,
                             "scaled_leaks": prog["scaled_leaks"], "same_shape": prog["scaled_same_shape"],
                             "state": prog["trace_state"]}, found_input=False)
            if prog["leaks"]:
                leaky.append({"config": name, "program": pn, "reinjected_f64_constants": len(prog["leaks"])})
            evdeg = evdegs.get(pn, [])
            if isinstance(evdeg, list):
                sign_only_total += sum(1 for d in evdeg if d != ("DSome", 0) and d != "DAny")
            if len(samples) < 5 and pn == "P0":
                samples.append({"config": name, "shapes": nprog, "instructions": prog["ninstr"], "constants": prog["nconsts"],
                                "outputs": prog["outs"], "re_events": prog["n_re"], "cmp_events": prog["n_cmp"],
                                "trace_state_TVN": prog["trace_state"], "output_degrees": str(degs.get(pn, "?"))})
        # --- the obligations
        if r["rc"] != 0:
            if not fails:
                # search: many more states / scale factors on this configuration
                sctx = V.Ctx(ctx.id + "_search", ctx.tier, ctx.seed + 7919)
                try:
                    simpl = V.run_harness("c02", sctx, extra=["--only", name, "--oracle", "3000"], build=False)
                    fails = simpl["configs"][0]["oracle"]["failures"]
                    oracle_checks += simpl["configs"][0]["oracle"]["checks"]
                except V.InfraError as e:
                    ctx.notes.append("search failed to run: %s" % e)
            d1ok = by_prog(tags, "D1OK")
            d1none = by_prog(tags, "D1NONE")
            what = "degree obligation failed for %s (output degrees %s, homogeneity lost at instruction %s; first derivatives (T,V,N_i) " \
                   "homogeneous of degree (1,0,0..): %s, lost at %s)" % (name, degs, fns, d1ok, d1none)
            rp = {"broken": "gen/C02/%s.v: P*_homogeneous_check / P*_events_check / P*_cmp_check / P*_scoped" % name, "config": name,
                  "coq_error": V.coq_error(r["out"]), "degrees": str(degs), "first_none": str(fns)}
            if fails:
                rp["failing"] = fails
                V.violation(ctx, what + "; failing state found on the State API", rp, found_input=True)
                fails = []
            else:
                V.violation(ctx, what, rp, found_input=False)
        if fails:
            V.violation(ctx, "Euler/scaling identity violated on the implementation for %s: %s" % (name, fails[0]["identity"]),
                        {"broken": "oracle", "config": name, "failing": fails}, found_input=True)
    cov = {
        "obligations": obligations,
        "discharged": discharged,
        "checker_cmd": "make -C coq (coqc 8.16.1, full .vo) ; coqc coq/gen/C02/<config>.v",
        "trusted_base": V.COMMON_TRUSTED,
        "programs": programs,
        "configurations": len(impl["configs"]),
        "library_theorems": lib_obl,
        "library_files": [os.path.relpath(d, V.VERIF) for d in deps],
        "axioms_reported": sorted(axioms),
        "translation_validation_points": tv_n, "euler_relation_enclosure_comparisons": euler_n,
        "observed_values_of_nonzero_degree_(sign_only_invariance)": sign_only_total,
        "programs_with_reinjected_f64_values": leaky,
        "oracle_identity_evaluations": oracle_checks,
        "oracle_worst_relative_residual": worst,
        "samples": samples,
        "rule": "one program per distinct trace shape of each model configuration (contributions + T*sum), 4 obligations each; "
                "translation validation at random states; oracle = Euler/Gibbs-Duhem/scaling identities on the State API, lambda in [1e-3,1e3]",
    }
    V.write_evidence(ctx, "proof", cov, [
        "branch conditions of the traced path are proved scale invariant (sign/comparison level), not modelled otherwise",
        "floating-point round-off is not modelled (real semantics)",
        "the program shapes covered are those of the listed configurations at the sampled states",
        "programs that re-inject converged f64 values (cross-association monomer fractions) treat them as constants: "
        "their scale invariance is checked by the scaled differential trace (bit-identical constants at lambda=3.7), not proved",
    ])
