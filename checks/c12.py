"""C12 — converged equilibria do not depend on the initial guess or on the continuation order.  DESIGN.md section 5, C12.

Deciding theorems (coq/props/C12.v over coq/theories/ContinuationC12.v), for ALL point lists, failure patterns, directions:
  pure_t_cascade / pure_t_H_cascade            a failing guess falls back to the guess-free start (proved of the model of pure_t)
  solvers_unique / pure_t_guess_independent    acceptance belongs to the attempt: every solver inherits uniqueness of accepted results
  diagram_sound / _complete / _eq_standalone   diagram = filter_map (stand-alone solve) of its points
  diagram_rev / _npoints / _earlier_points     direction, number of points, failures at earlier points are irrelevant
  guess_origin / run_shape / run_in_class      a guess is the initial value or the converged result of the previous point
  tp_flash_cascade_refuted, bd_cascade_refuted, dew_line_pressure_stage_refuted     where the code has no fallback (witnesses)
Hypothesis H_unique (any two accepted results at the same point are equal) is the numerical content: PARTIAL, supported by
the seeded search of the harness (with/without guess, npoints, direction, diagram vs stand-alone) on the real code.

Tie (route H, every run): the cfg(feos_verif) hook `verif_c12` records, for real PhaseDiagram::{pure, binary_vle (one and two
branches), bubble_point_line, dew_point_line, lle} calls and single solver calls, which guess every point received, which
cascade stages ran with which outcome, and what the returned diagram contains.  The executable model (ContinuationC12.Tie,
vm_compute) gets only the observed failure pattern and must predict all of it exactly.
"""
import json
import os
import vplib as V

PROP_FILES = [os.path.join(V.PROPS, "C12.v")]
UNKNOWN = 9999
STAGE = {0: "guess", 1: "given", 2: "ideal_gas", 3: "spinodal", 4: "stability_1", 5: "stability_2"}
OUT = {0: "init_failed", 1: "iteration_failed", 2: "converged"}


def named(tags, key):
    d = {}
    for item in tags.get(key, []):
        if isinstance(item, tuple) and len(item) == 2 and isinstance(item[0], str) and item[0] != "unparsed":
            d[item[0]] = item[1]
    return d


def as_list(x):
    return list(x) if isinstance(x, (list, tuple)) else [x]


def norm_log(lg):
    return [[int(a), int(b)] for (a, b) in lg]


def norm_events(evs):
    """model events: (origin, log, ok) triples printed by Coq"""
    return [[int(e[0]), norm_log(e[1]), bool(e[2])] for e in evs]


def obs_events(calls, shift=0, lo=0):
    out = []
    for c in calls:
        o = c["origin"]
        if o not in (0, UNKNOWN):
            o = o - shift if o > lo else UNKNOWN
        out.append([o, [list(x) for x in c["log"]], c["ok"]])
    return out


def pretty_log(lg):
    return ", ".join("%s:%s" % (STAGE.get(s, s), OUT.get(o, o)) for s, o in lg)


def first_diff(model, obs):
    for k, (m, o) in enumerate(zip(model, obs)):
        if m != o:
            return k, m, o
    if len(model) != len(obs):
        k = min(len(model), len(obs))
        return k, (model[k] if k < len(model) else None), (obs[k] if k < len(obs) else None)
    return None


def compare_case(t, loops, psts, asms, classes):
    """returns (cascade_problems, origin_notes, class_problems, asm_problems, n_events)"""
    name = t["name"]
    calls = t["calls"]
    asm = t["assembly"]
    parts = []      # (label, model events or None, observed events)
    if asm.startswith("vlle:"):
        n1 = int(asm.split(":")[1])
        parts.append((name + "#1", loops.get(name + "#1"), obs_events(calls[:n1])))
        parts.append((name + "#2", loops.get(name + "#2"), obs_events(calls[n1:], shift=n1, lo=n1)))
    elif asm.startswith("dew:"):
        n_t = int(asm.split(":")[1])
        parts.append((name + "#T", loops.get(name + "#T"), obs_events(calls[:n_t])))
    else:
        parts.append((name, loops.get(name), obs_events(calls)))
    casc, notes, cls, asmp = [], [], [], []
    n_ev = 0
    for label, model, obs in parts:
        if model is None:
            casc.append({"case": label, "problem": "no model output (coqc failed?)"})
            continue
        mev = norm_events(model[0])
        n_ev += len(obs)
        if len(mev) != len(obs):
            casc.append({"case": label, "problem": "model and implementation attempted a different number of points", "model": len(mev), "impl": len(obs)})
            continue
        for k, (m, o) in enumerate(zip(mev, obs)):
            if m[1] != o[1] or m[2] != o[2]:
                casc.append({"case": label, "point": k, "spec": calls[k]["spec"] if k < len(calls) else None,
                             "model_cascade": pretty_log(m[1]), "impl_cascade": pretty_log(o[1]), "model_ok": m[2], "impl_ok": o[2],
                             "guess_present": o[0] != 0 or t["reset_given"]})
                break
            if m[0] != o[0]:
                notes.append({"case": label, "point": k, "model_origin": m[0], "impl_origin": o[0],
                              "meaning": "origin 0 = initial/reset value, j+1 = result of point j, 9999 = neither"})
    if asm.startswith("dew:"):
        n_t = int(asm.split(":")[1])
        model = psts.get(name + "#P")
        obs = [[c["origin"], c["ok"]] for c in calls[n_t:]]
        if model is None:
            casc.append({"case": name + "#P", "problem": "no model output"})
        else:
            mev = [[int(a), bool(b)] for (a, b) in model[0]]
            n_ev += len(obs)
            if [m[1] for m in mev] != [o[1] for o in obs]:
                casc.append({"case": name + "#P", "problem": "pressure stage: attempted points / outcomes differ (the model stops after the first failed point)",
                             "model": mev, "impl": obs})
            elif mev != obs:
                notes.append({"case": name + "#P", "model": mev, "impl": obs})
    for label in [p[0] for p in parts] + ([name + "#P"] if asm.startswith("dew:") else []):
        ok = classes.get(label)
        if ok is not True:
            cls.append({"case": label, "class_ok": ok,
                        "calls": [{"point": k, "origin": c["origin"], "ok": c["ok"], "spec": c["spec"]} for k, c in enumerate(calls)][:60]})
    for k, c in enumerate(calls):
        if c["origin"] == UNKNOWN:
            cls.append({"case": name, "point": k, "spec": c["spec"], "guess": c["guess"],
                        "problem": "the guess is neither the initial value nor built from a converged point of this run"})
            break
    masm = asms.get(name)
    if masm is None:
        asmp.append({"case": name, "problem": "no model output"})
    else:
        masm = [int(x) for x in as_list(masm)]
        if masm != t["observed_states"]:
            asmp.append({"case": name, "model_states": masm, "impl_states": t["observed_states"],
                         "ids": "k = result of point k, 1000+k = second branch / pressure stage, 2000/2001 = pure-component end points, 3000 = critical point, 9999 = unknown state",
                         "first_difference": first_diff(masm, t["observed_states"])})
    return casc, notes, cls, asmp, n_ev


def known_match(entry, rec):
    k = entry.get("key", {})
    kk = rec.get("key", rec)
    if k.get("class") == "mixture_spurious_low_temperature_solution":
        # narrow class: this call, a guess at >= min_factor x T_c,mix, and a returned temperature below half the guess-free one
        try:
            return (rec.get("what") == k["what"] and kk.get("factor", 0.0) >= k["min_factor"]
                    and rec["with_guess"][0] < 0.5 * rec["without_guess"][0])
        except Exception:
            return False
    try:
        return all(kk.get(f) == v or (isinstance(v, float) and abs(kk.get(f, 1e300) - v) <= 1e-9 * abs(v)) for f, v in k.items())
    except Exception:
        return False


def run(ctx):
    impl = V.run_harness("c12", ctx)
    gen_files = sorted(os.path.join(ctx.gen, f) for f in os.listdir(ctx.gen) if f.endswith(".v"))
    lib = V.check_props(ctx, PROP_FILES, gen_files)
    res = V.coqc_many(gen_files, ctx, timeout=900)
    tie = res[os.path.join(ctx.gen, "tie.v")]
    tags = V.tagged(tie["out"])
    loops, psts, asms, classes, callsm = (named(tags, k) for k in ("LOOP", "PSTAGE", "ASM", "CLASS", "CALL"))
    obligations = lib["obligations"] + 1
    discharged = lib["discharged"] + (1 if tie["rc"] == 0 else 0)
    if tie["rc"] != 0:
        V.violation(ctx, "generated model run coq/gen/C12/tie.v does not compile", {"broken": "correspondence", "coq_error": V.coq_error(tie["out"])},
                    found_input=False)

    sup = impl["support"]
    known = V.load_known("C12")

    # ---- bookkeeping correspondence
    n_events = 0
    all_notes = []
    drivers = {}
    for t in impl["ties"]:
        casc, notes, cls, asmp, n_ev = compare_case(t, loops, psts, asms, classes)
        n_events += n_ev
        drv = t["info"].get("driver", "?")
        drivers[drv] = drivers.get(drv, 0) + 1
        all_notes += notes
        # result differences found by the support search on the same system decide whether a concrete failing input exists
        related = [f for f in sup["failures"] + sup["missing_points"] if f.get("key", {}).get("system") == t["info"].get("system")]
        if casc:
            V.violation(ctx, "start cascade of the implementation differs from the model for %s: %s" % (t["name"], json.dumps(casc[0])[:200]),
                        {"broken": "correspondence: cascade model (pure_t_cascade / tp_flash / bd_t) vs hook trace", "driver_call": t["info"],
                         "differences": casc, "result_differences_on_the_same_system": related[:5]}, found_input=bool(related))
        if cls:
            V.violation(ctx, "guess bookkeeping outside the proved class for %s (a guess crosses a failed point or comes from nowhere): %s"
                        % (t["name"], json.dumps(cls[0])[:200]),
                        {"broken": "correspondence: class_okb on the recorded run (run_in_class / class_ok_spec)", "driver_call": t["info"],
                         "problems": cls, "result_differences_on_the_same_system": related[:5]}, found_input=bool(related))
        if asmp:
            V.violation(ctx, "the returned diagram is not the model's assembly of the converged points for %s: %s" % (t["name"], json.dumps(asmp[0])[:260]),
                        {"broken": "correspondence: diagram assembly (results / binary_vle_states / vlle_states / dew line)", "driver_call": t["info"],
                         "problems": asmp}, found_input=True)
    if len(all_notes) > 0:
        ctx.notes.append("guess origins differ from the faithful model in %d point(s) but stay inside the proved class (harmless by the property text): %s"
                         % (len(all_notes), json.dumps(all_notes[:3])[:600]))

    n_single = 0
    for s in impl["singles"]:
        n_single += 1
        m = callsm.get(s["name"])
        c = s["call"]
        if m is None:
            V.violation(ctx, "no model output for single call %s" % s["name"], {"broken": "correspondence", "call": s}, found_input=False)
            continue
        mlog, mok = norm_log(m[0]), bool(m[1])
        if mlog != [list(x) for x in c["log"]] or mok != c["ok"]:
            V.violation(ctx, "start cascade of %s differs from the model: model [%s] ok=%s, implementation [%s] ok=%s"
                        % (s["name"], pretty_log(mlog), mok, pretty_log(c["log"]), c["ok"]),
                        {"broken": "correspondence: cascade model vs hook trace (single call)", "call": s,
                         "model": {"log": mlog, "ok": mok}}, found_input=not c["ok"])

    # ---- State::critical_point: trial-temperature cascade (public API only) and the acceptance test on every path
    critm = named(tags, "CRIT")
    n_crit = 0
    for c in impl.get("crit_ties", []):
        n_crit += 1
        m = critm.get(c["name"])
        if m is None:
            V.violation(ctx, "no model output for %s" % c["name"], {"broken": "correspondence", "case": c}, found_input=False)
            continue
        mi = int(m[1]) if isinstance(m, tuple) and m[0] == "Some" else -1
        if mi != c["observed"]:
            V.violation(ctx, "State::critical_point(eos, None, None) of %s is not the first successful trial temperature: model %s, implementation %s "
                        "(-1 = error, -2 = a state none of the trials returns; trials 300/700/500 K ok = %s)" % (c["system"], mi, c["observed"], c["trial_ok"]),
                        {"broken": "correspondence: crit_none (trial cascade of State::critical_point) vs public API", "case": c}, found_input=True)
    for f in impl.get("rejected_results", []):
        e = next((e for e in known if known_match(e, f)), None)
        if e is not None:
            V.report_known(ctx, e)
            continue
        n_rej = locals().get("n_rej", 0) + 1
        if n_rej > 8:
            continue
        V.violation(ctx, "%s: %s" % (f["broken"], json.dumps(f["key"])[:220]),
                    {"broken": "crit_accepted / accepted_only on the real code: a result returned on the guessed path does not pass the acceptance test "
                               "of the guess-free path", "failing": f}, found_input=True)

    # ---- support search (H_unique; partial clause) — a failure is a violation of the property on the real code
    n_known = 0
    MAX_REPORT = 8      # individual VIOLATION lines per category; the rest is summarised in the last one
    n_rep = 0
    for f in sup["failures"]:
        e = next((e for e in known if known_match(e, f)), None)
        if e is not None:
            V.report_known(ctx, e)
            n_known += 1
            continue
        n_rep += 1
        if n_rep > MAX_REPORT:
            continue
        more = len(sup["failures"]) - MAX_REPORT if n_rep == MAX_REPORT and len(sup["failures"]) > MAX_REPORT else 0
        V.violation(ctx, "result accepted with a guess differs from the stand-alone result: %s %s (max rel diff %.3g > %.1g)%s"
                    % (f["what"], json.dumps(f["key"])[:160], f["max_rel_diff"], f["tol"], " [+%d more such failures in this run]" % more if more else ""),
                    {"broken": "H_unique (support search on the public API)", "failing": f,
                     "further_failures": sup["failures"][MAX_REPORT:MAX_REPORT + 40] if more else []}, found_input=True)
    for f in sup["missing_points"]:
        e = next((e for e in known if known_match(e, f)), None)
        if e is not None:
            V.report_known(ctx, e)
            n_known += 1
            continue
        V.violation(ctx, "%s: %s" % (f["broken"], json.dumps(f["key"])[:200]),
                    {"broken": "diagram_complete / pure_t_H_cascade on the real code", "failing": f}, found_input=True)
    for f in impl["driver_errors"]:
        e = next((e for e in known if known_match(e, f)), None)
        if e is not None:
            V.report_known(ctx, e)
            n_known += 1
            continue
        V.violation(ctx, "%s fails as a whole (%s) after a failed point: %s" % (f["driver"], f["error"], json.dumps(f)[:200]),
                    {"broken": "continuation driver crashes/fails because of a failure at an earlier point (p_stage model)", "failing": f},
                    found_input=True)

    cov = {
        "obligations": obligations,
        "discharged": discharged,
        "checker_cmd": "make -C coq (coqc 8.16.1, full .vo) ; coqc coq/gen/C12/tie.v",
        "trusted_base": V.COMMON_TRUSTED + [
            "cfg(feos_verif) hook verif_c12 (thread-local event trace: Enter/Stage/IterStart/Converged/Leave in pure_t, State::tp_flash, bubble_dew_point) "
            "and the harness' bitwise matching of guesses against earlier results",
        ],
        "library_theorems": lib["obligations"],
        "library_files": lib["library_files"],
        "axioms_reported": lib["axioms"],
        "tie_driver_calls": len(impl["ties"]),
        "tie_driver_calls_by_driver": drivers,
        "tie_points_compared_exactly": n_events,
        "tie_single_solver_calls": n_single,
        "tie_critical_point_trial_cascades": n_crit,
        "results_failing_the_acceptance_test": len(impl.get("rejected_results", [])),
        "origin_differences_inside_class": len(all_notes),
        "partial": "H_unique (any two accepted results at the same point are equal) is not decided by proof; support search below",
        "support_search": {
            "level": "exploration",
            "comparisons": sup["comparisons"], "both_converged": sup["both_converged"], "only_with_guess": sup["only_with_guess"],
            "only_without_guess_(no_fallback_by_design_or_far_guess)": sup["only_without_guess"], "both_failed": sup["both_failed"],
            "grid_or_direction_comparisons": sup["grid_comparisons"],
            "worst_relative_difference_inside_tolerance": sup["worst_rel_diff_within_tol"],
            "tolerances_relative": sup["tolerances"], "failures": len(sup["failures"]), "missing_points": len(sup["missing_points"]),
            "dropped_points_where_the_code_has_no_fallback": len(sup["dropped_points_no_fallback_by_design"]),
            "dropped_examples": sup["dropped_points_no_fallback_by_design"][:3],
            "driver_errors": len(impl["driver_errors"]), "known_findings_matched": n_known,
            "systems": sup["systems"],
            "ranges": "pure: T in [0.45,0.99] T_c, guess = solution at |T_g - T| <= 0.3 T_c or new_npt at f p_sat, f in [1/3,3]; "
                      "binary PC-SAFT hydrocarbon pairs (T_c ratio < 1.8): T in [0.6,0.95] T_c(light), x in [0.02,0.98], p_init = f p, f in [1/3,3], "
                      "y_init from |dx| <= 0.15, T_init within 0.1 T_c; flashes from flashes at another pressure inside the envelope; "
                      "state constructors at T in [1.15,2] T_c with InitialDensity(f rho), initial_temperature f T, f in [0.8,1.25]",
            "notes": sup["notes"][:6],
        },
        "samples": sup["samples"][:4] + [{"driver_call": t["info"], "calls": t["calls"][:4], "states": t["observed_states"]} for t in impl["ties"][:2]],
    }
    assumptions = [
        "H_unique / H_unique_att (uniqueness of accepted results at a point) is a hypothesis of the theorems: the numerical content of C12, "
        "supported by the seeded search only",
        "H_standalone (the stand-alone calculation converges wherever some guess converges) is needed for the equalities diagram = stand-alone list, "
        "not for soundness/completeness",
        "the point solvers are abstract attempts; what an iteration accepts is the subject of C04/C05",
        "bubble/dew points with a given pressure/temperature and tp_flash with a state whose update_pressure fails have no fallback "
        "(refutation theorems); points dropped for that reason are counted, not alarmed",
    ]
    V.write_evidence(ctx, "proof", cov, assumptions)


def replay(rp):
    """print the failing input; for support-search failures re-run the harness with the same seed/tier restricted to the system"""
    print(json.dumps({k: rp[k] for k in rp if k not in ("differences", "problems")}, indent=1)[:5000])
    f = rp.get("failing") or {}
    system = (f.get("key") or f).get("system") if isinstance(f, dict) else None
    if not system and "driver_call" in rp:
        system = rp["driver_call"].get("system")
    if system:
        exe = os.path.join(V.TARGET, "release", "c12")
        out_dir = os.path.join(V.GEN, "C12_replay")
        os.makedirs(out_dir, exist_ok=True)
        rc, out, _ = V.sh([exe, "--out", out_dir, "--tier", rp.get("tier", "quick"), "--seed", str(rp.get("seed", 1))], cwd=V.VERIF)
        r = json.load(open(os.path.join(out_dir, "impl.json")))
        s = r["support"]
        bad = [x for x in s["failures"] + s["missing_points"] + r["driver_errors"] if (x.get("key") or x).get("system") == system]
        print(json.dumps(bad[:5], indent=1)[:6000])
        return 1 if bad else 0
    return 1
