//! Tracing entry points: run the real generic code on `Sym` and extract programs.
use crate::configs::{Config, RState};
use crate::prog::{compare, extract, Prog};
use crate::sym::{self, Sym};
use feos_core::{Residual, StateHD};
use ndarray::Array1;

/// Trace `T * beta A^res` contributions (+ total) of a residual model at a state.
/// Outputs: one per contribution (beta A_k, as the trait returns it), then `A_total = T * sum_k`.
pub fn trace_residual<R: Residual>(model: &R, s: &RState) -> Prog {
    trace_residual_k::<R, 1>(model, s)
}

/// the same with `DualNum::NDERIV = K` for the tracing number type: code that performs `D::NDERIV`
/// implicit Newton sweeps (cross-association) is traced with the number of sweeps it performs when a
/// derivative of order K is requested
pub fn trace_residual_k<R: Residual, const K: usize>(model: &R, s: &RState) -> Prog {
    sym::reset();
    let t: Sym<K> = sym::var(0, s.t);
    let v: Sym<K> = sym::var(1, s.v);
    let n = Array1::from_iter(s.n.iter().enumerate().map(|(i, x)| sym::var::<K>(2 + i as u32, *x)));
    let sh = StateHD::new(t, v, n);
    let contribs = model.residual_helmholtz_energy_contributions(&sh);
    let mut outs: Vec<(String, u32)> = Vec::new();
    // the trait's default `residual_helmholtz_energy`: fold from zero
    let mut acc = <Sym<K> as num_traits::Zero>::zero();
    for (name, a) in &contribs {
        outs.push((name.clone(), a.0));
        acc = acc + *a;
    }
    // the State layer differentiates  residual_helmholtz_energy * temperature
    let total = acc * sh.temperature;
    outs.push(("A_total".into(), total.0));
    let tr = sym::take();
    extract(&tr, 2 + s.n.len(), &outs)
}

pub struct Traced {
    /// number of implicit sweeps (`NDERIV`) the tracing number type announced
    pub k: usize,
    pub prog: Prog,
    /// the un-deduplicated program of the first trace state (for shape comparisons)
    pub raw: Prog,
    /// constant slot remapping raw -> prog
    pub remap: Vec<u32>,
    pub same_shape: bool,
    pub leaks: Vec<usize>,
    pub leak_values: Vec<(f64, f64)>,
}

/// Trace at two states that differ in every coordinate; report shape stability and leaked constants.
pub fn trace_two<R: Residual>(model: &R, a: &RState, b: &RState) -> Traced {
    trace_two_k::<R, 1>(model, a, b)
}

pub fn trace_two_k<R: Residual, const K: usize>(model: &R, a: &RState, b: &RState) -> Traced {
    let pa = trace_residual_k::<R, K>(model, a);
    let pb = trace_residual_k::<R, K>(model, b);
    let c = compare(&pa, &pb);
    let leak_values = c.leaks.iter().map(|&i| (pa.consts[i], pb.consts[i])).collect();
    let raw = pa.clone();
    let mut prog = pa;
    let remap = prog.dedup_consts_keep(&c.leaks);
    Traced { k: K, prog, raw, remap, same_shape: c.same_shape, leaks: c.leaks, leak_values }
}

impl Traced {
    /// constant table of the program when traced at another state (`None`: the shape differs there);
    /// constants that are not state dependent keep their value, leaked slots get the value of that state
    pub fn consts_at<R: Residual>(&self, model: &R, s: &RState) -> Option<Vec<f64>> {
        let p = match self.k {
            1 => trace_residual_k::<R, 1>(model, s),
            2 => trace_residual_k::<R, 2>(model, s),
            3 => trace_residual_k::<R, 3>(model, s),
            k => panic!("unsupported NDERIV {k}"),
        };
        let c = compare(&self.raw, &p);
        if !c.same_shape {
            return None;
        }
        let mut out = self.prog.consts.clone();
        // two constants that coincided at the trace state were merged into one slot; if they differ at this state (a state-dependent f64 value
        // that happened to equal a genuine constant there, e.g. a tabulated temperature equal to a reference temperature), this program's
        // constant table cannot represent the state: treat it as a different shape (a program of its own is traced at that state)
        let mut written: Vec<Option<u64>> = vec![None; out.len()];
        for (i, v) in p.consts.iter().enumerate() {
            let slot = self.remap[i] as usize;
            match written[slot] {
                Some(bits) if bits != v.to_bits() => return None,
                _ => written[slot] = Some(v.to_bits()),
            }
            out[slot] = *v;
        }
        Some(out)
    }
}

/// All distinct program shapes met at the trace state and the validation states.
pub struct ProgramSet {
    pub progs: Vec<Traced>,
    /// (program index, state, constant table of that program at that state)
    pub tv: Vec<(usize, RState, Vec<f64>)>,
}

/// Trace at `a`/`b` (leak detection) and assign every validation state to a program of matching shape,
/// tracing a further program (at `s` and a slightly hotter twin) when no existing shape matches.
pub fn trace_set<R: Residual>(model: &R, a: &RState, b: &RState, tv_states: &[RState]) -> ProgramSet {
    trace_set_k::<R, 1>(model, a, b, tv_states)
}

pub fn trace_set_k<R: Residual, const K: usize>(model: &R, a: &RState, b: &RState, tv_states: &[RState]) -> ProgramSet {
    let mut progs = vec![trace_two_k::<R, K>(model, a, b)];
    let mut tv = Vec::new();
    for s in tv_states {
        let mut found = None;
        for (i, p) in progs.iter().enumerate() {
            if let Some(cs) = p.consts_at(model, s) {
                found = Some((i, cs));
                break;
            }
        }
        let (i, cs) = match found {
            Some(x) => x,
            None => {
                let mut s2 = s.clone();
                s2.t *= 1.0 + 1e-3;
                let t = trace_two_k::<R, K>(model, s, &s2);
                let cs = t.prog.consts.clone();
                progs.push(t);
                (progs.len() - 1, cs)
            }
        };
        tv.push((i, s.clone(), cs));
    }
    ProgramSet { progs, tv }
}

impl ProgramSet {
    /// Coq definition `<prefix><i>_inputs : list (list (Z*Z))`: state ++ constants per validation state of program i
    pub fn emit_inputs(&self, prefix: &str, i: usize) -> String {
        let rows: Vec<String> = self
            .tv
            .iter()
            .filter(|(k, _, _)| *k == i)
            .map(|(_, s, cs)| {
                let mut x = s.vars();
                x.extend(cs);
                crate::emit::dy_list(&x)
            })
            .collect();
        format!("Definition {}{}_inputs : list (list (Z * Z)) := [{}].\n", prefix, i, rows.join(";\n "))
    }
}

/// plain f64 evaluation of the same outputs (what the implementation returns)
pub fn eval_f64<R: Residual>(model: &R, s: &RState) -> Vec<f64> {
    let sh = StateHD::new(s.t, s.v, Array1::from_vec(s.n.clone()));
    let contribs = model.residual_helmholtz_energy_contributions(&sh);
    let mut out: Vec<f64> = contribs.iter().map(|(_, a)| *a).collect();
    let tot = model.residual_helmholtz_energy(&sh) * s.t;
    out.push(tot);
    out
}

pub fn config_states(c: &Config, seed: u64, k: usize) -> Vec<RState> {
    let mut rng = crate::configs::Rng(seed ^ fxhash(&c.name));
    (0..k).map(|_| crate::configs::sample_state(c, &mut rng)).collect()
}

pub fn fxhash(s: &str) -> u64 {
    let mut h: u64 = 0xcbf29ce484222325;
    for b in s.bytes() {
        h ^= b as u64;
        h = h.wrapping_mul(0x100000001b3);
    }
    h
}
