//! Shared pieces of the feos verification harness (tracer, program emitter, configurations, PRNG, CLI).
pub mod cli;
pub mod configs;
pub mod emit;
pub mod functionals;
pub mod prog;
pub mod sym;
pub mod trace;
