//! Tracing number type: running the generic feos code with `Sym<K>` records the
//! straight-line real-arithmetic program the code executes (route T of DESIGN.md).
//!
//! Every node carries the concrete f64 value the plain f64 run would have computed, so all
//! control flow (`.re()`, comparisons) follows exactly the path of the f64 run; every such
//! observation is logged as an event.
use ndarray::ScalarOperand;
use num_dual::{DualNum, DualStruct};
use num_traits::{FromPrimitive, Inv, Num, One, Signed, Zero};
use std::cell::RefCell;
use std::fmt;
use std::iter::{Product, Sum};
use std::ops::*;

#[derive(Clone, Copy, Debug, PartialEq, Eq, Hash, PartialOrd, Ord)]
pub enum Op1 {
    Neg,
    Abs,
    Inv,
    Sqr,
    Sqrt,
    Cos,
    Sin,
    Tan,
    Atan,
    Exp,
    Ln,
}

#[derive(Clone, Copy, Debug, PartialEq, Eq, Hash, PartialOrd, Ord)]
pub enum Op2 {
    Add,
    Sub,
    Mul,
    Div,
}

#[derive(Clone, Copy, Debug, PartialEq)]
pub enum Node {
    Var(u32),
    Const(f64),
    Un(Op1, u32),
    Bin(Op2, u32, u32),
}

#[derive(Clone, Debug, PartialEq)]
pub enum Event {
    /// `.re()` applied to a node (value escaped to f64)
    Re(u32),
    /// comparison of two nodes (PartialOrd / PartialEq / is_zero ...)
    Cmp(u32, u32),
    /// an operation the lowering does not support (program is then not claimed)
    Unsupported(&'static str),
}

#[derive(Default, Clone)]
pub struct Trace {
    pub nodes: Vec<(Node, f64)>,
    pub events: Vec<Event>,
}

thread_local! {
    static ARENA: RefCell<Trace> = RefCell::new(Trace::default());
}

#[derive(Clone, Copy, Debug)]
pub struct Sym<const K: usize = 1>(pub u32);

pub fn reset() {
    ARENA.with(|a| *a.borrow_mut() = Trace::default());
}
pub fn take() -> Trace {
    ARENA.with(|a| std::mem::take(&mut *a.borrow_mut()))
}
fn push<const K: usize>(n: Node, v: f64) -> Sym<K> {
    ARENA.with(|a| {
        let mut a = a.borrow_mut();
        a.nodes.push((n, v));
        Sym((a.nodes.len() - 1) as u32)
    })
}
fn event(e: Event) {
    ARENA.with(|a| a.borrow_mut().events.push(e));
}
pub fn val<const K: usize>(s: Sym<K>) -> f64 {
    ARENA.with(|a| a.borrow().nodes[s.0 as usize].1)
}
fn set_val<const K: usize>(s: Sym<K>, v: f64) {
    ARENA.with(|a| a.borrow_mut().nodes[s.0 as usize].1 = v);
}
pub fn var<const K: usize>(k: u32, v: f64) -> Sym<K> {
    push(Node::Var(k), v)
}
pub fn cst<const K: usize>(v: f64) -> Sym<K> {
    push(Node::Const(v), v)
}
fn un<const K: usize>(op: Op1, a: Sym<K>) -> Sym<K> {
    let x = val(a);
    let v = match op {
        Op1::Neg => -x,
        Op1::Abs => x.abs(),
        Op1::Inv => x.recip(),
        Op1::Sqr => x * x,
        Op1::Sqrt => x.sqrt(),
        Op1::Cos => x.cos(),
        Op1::Sin => x.sin(),
        Op1::Tan => x.tan(),
        Op1::Atan => x.atan(),
        Op1::Exp => x.exp(),
        Op1::Ln => x.ln(),
    };
    push(Node::Un(op, a.0), v)
}
fn bin<const K: usize>(op: Op2, a: Sym<K>, b: Sym<K>) -> Sym<K> {
    let (x, y) = (val(a), val(b));
    let v = match op {
        Op2::Add => x + y,
        Op2::Sub => x - y,
        Op2::Mul => x * y,
        Op2::Div => x / y,
    };
    push(Node::Bin(op, a.0, b.0), v)
}
/// the final node of a lowered operation keeps the value of the native f64 operation, so that
/// subsequent control flow is exactly that of the f64 run
fn with_native<const K: usize>(s: Sym<K>, v: f64) -> Sym<K> {
    set_val(s, v);
    s
}

/// x^n by square-and-multiply (exact real identity; x^0 = 1; negative n through Inv)
fn powi_lowered<const K: usize>(x: Sym<K>, n: i32) -> Sym<K> {
    if n == 0 {
        return cst(1.0);
    }
    let neg = n < 0;
    let mut e = n.unsigned_abs();
    let mut base = x;
    let mut acc: Option<Sym<K>> = None;
    loop {
        if e & 1 == 1 {
            acc = Some(match acc {
                None => base,
                Some(a) => bin(Op2::Mul, a, base),
            });
        }
        e >>= 1;
        if e == 0 {
            break;
        }
        base = un(Op1::Sqr, base);
    }
    let r = acc.unwrap();
    if neg {
        un(Op1::Inv, r)
    } else if r.0 == x.0 {
        // n == 1: make a fresh node so that with_native never overwrites an operand
        bin(Op2::Mul, x, cst(1.0))
    } else {
        r
    }
}

macro_rules! binop {
    ($tr:ident, $m:ident, $op:expr) => {
        impl<const K: usize> $tr<Sym<K>> for Sym<K> {
            type Output = Sym<K>;
            fn $m(self, o: Sym<K>) -> Sym<K> {
                bin($op, self, o)
            }
        }
        impl<'a, const K: usize> $tr<&'a Sym<K>> for Sym<K> {
            type Output = Sym<K>;
            fn $m(self, o: &Sym<K>) -> Sym<K> {
                bin($op, self, *o)
            }
        }
        impl<'a, const K: usize> $tr<Sym<K>> for &'a Sym<K> {
            type Output = Sym<K>;
            fn $m(self, o: Sym<K>) -> Sym<K> {
                bin($op, *self, o)
            }
        }
        impl<'a, 'b, const K: usize> $tr<&'b Sym<K>> for &'a Sym<K> {
            type Output = Sym<K>;
            fn $m(self, o: &Sym<K>) -> Sym<K> {
                bin($op, *self, *o)
            }
        }
        impl<const K: usize> $tr<f64> for Sym<K> {
            type Output = Sym<K>;
            fn $m(self, o: f64) -> Sym<K> {
                bin($op, self, cst(o))
            }
        }
        impl<'a, const K: usize> $tr<f64> for &'a Sym<K> {
            type Output = Sym<K>;
            fn $m(self, o: f64) -> Sym<K> {
                bin($op, *self, cst(o))
            }
        }
        impl<const K: usize> $tr<Sym<K>> for f64 {
            type Output = Sym<K>;
            fn $m(self, o: Sym<K>) -> Sym<K> {
                bin($op, cst(self), o)
            }
        }
    };
}
binop!(Add, add, Op2::Add);
binop!(Sub, sub, Op2::Sub);
binop!(Mul, mul, Op2::Mul);
binop!(Div, div, Op2::Div);

fn rem_unsupported<const K: usize>(a: Sym<K>, b: Sym<K>) -> Sym<K> {
    event(Event::Unsupported("rem"));
    cst(val(a) % val(b))
}
impl<const K: usize> Rem<Sym<K>> for Sym<K> {
    type Output = Sym<K>;
    fn rem(self, o: Sym<K>) -> Sym<K> {
        rem_unsupported(self, o)
    }
}
impl<'a, const K: usize> Rem<&'a Sym<K>> for Sym<K> {
    type Output = Sym<K>;
    fn rem(self, o: &Sym<K>) -> Sym<K> {
        rem_unsupported(self, *o)
    }
}
impl<'a, const K: usize> Rem<Sym<K>> for &'a Sym<K> {
    type Output = Sym<K>;
    fn rem(self, o: Sym<K>) -> Sym<K> {
        rem_unsupported(*self, o)
    }
}
impl<'a, 'b, const K: usize> Rem<&'b Sym<K>> for &'a Sym<K> {
    type Output = Sym<K>;
    fn rem(self, o: &Sym<K>) -> Sym<K> {
        rem_unsupported(*self, *o)
    }
}
impl<const K: usize> Rem<f64> for Sym<K> {
    type Output = Sym<K>;
    fn rem(self, o: f64) -> Sym<K> {
        rem_unsupported(self, cst(o))
    }
}

macro_rules! asg {
    ($tr:ident, $m:ident, $op:tt) => {
        impl<const K: usize> $tr<Sym<K>> for Sym<K> { fn $m(&mut self, o: Sym<K>) { *self = *self $op o; } }
        impl<'a, const K: usize> $tr<&'a Sym<K>> for Sym<K> { fn $m(&mut self, o: &Sym<K>) { *self = *self $op *o; } }
        impl<const K: usize> $tr<f64> for Sym<K> { fn $m(&mut self, o: f64) { *self = *self $op o; } }
    };
}
asg!(AddAssign, add_assign, +);
asg!(SubAssign, sub_assign, -);
asg!(MulAssign, mul_assign, *);
asg!(DivAssign, div_assign, /);
asg!(RemAssign, rem_assign, %);

impl<const K: usize> Neg for Sym<K> {
    type Output = Sym<K>;
    fn neg(self) -> Sym<K> {
        un(Op1::Neg, self)
    }
}
impl<'a, const K: usize> Neg for &'a Sym<K> {
    type Output = Sym<K>;
    fn neg(self) -> Sym<K> {
        un(Op1::Neg, *self)
    }
}
impl<const K: usize> PartialEq for Sym<K> {
    fn eq(&self, o: &Sym<K>) -> bool {
        event(Event::Cmp(self.0, o.0));
        val(*self) == val(*o)
    }
}
impl<const K: usize> PartialOrd for Sym<K> {
    fn partial_cmp(&self, o: &Sym<K>) -> Option<std::cmp::Ordering> {
        event(Event::Cmp(self.0, o.0));
        val(*self).partial_cmp(&val(*o))
    }
}
impl<const K: usize> Zero for Sym<K> {
    fn zero() -> Sym<K> {
        cst(0.0)
    }
    fn is_zero(&self) -> bool {
        event(Event::Re(self.0));
        val(*self) == 0.0
    }
}
impl<const K: usize> One for Sym<K> {
    fn one() -> Sym<K> {
        cst(1.0)
    }
}
impl<const K: usize> Num for Sym<K> {
    type FromStrRadixErr = ();
    fn from_str_radix(_: &str, _: u32) -> Result<Self, ()> {
        Err(())
    }
}
impl<const K: usize> Signed for Sym<K> {
    fn abs(&self) -> Sym<K> {
        un(Op1::Abs, *self)
    }
    fn abs_sub(&self, o: &Sym<K>) -> Sym<K> {
        event(Event::Cmp(self.0, o.0));
        if val(*self) <= val(*o) {
            cst(0.0)
        } else {
            *self - *o
        }
    }
    fn signum(&self) -> Sym<K> {
        event(Event::Re(self.0));
        cst(val(*self).signum())
    }
    fn is_positive(&self) -> bool {
        event(Event::Re(self.0));
        val(*self) > 0.0
    }
    fn is_negative(&self) -> bool {
        event(Event::Re(self.0));
        val(*self) < 0.0
    }
}
impl<const K: usize> Inv for Sym<K> {
    type Output = Sym<K>;
    fn inv(self) -> Sym<K> {
        un(Op1::Inv, self)
    }
}
impl<const K: usize> Sum for Sym<K> {
    fn sum<I: Iterator<Item = Sym<K>>>(i: I) -> Sym<K> {
        i.fold(Sym::<K>::zero(), |a, b| a + b)
    }
}
impl<'a, const K: usize> Sum<&'a Sym<K>> for Sym<K> {
    fn sum<I: Iterator<Item = &'a Sym<K>>>(i: I) -> Sym<K> {
        i.fold(Sym::<K>::zero(), |a, b| a + *b)
    }
}
impl<const K: usize> Product for Sym<K> {
    fn product<I: Iterator<Item = Sym<K>>>(i: I) -> Sym<K> {
        i.fold(Sym::<K>::one(), |a, b| a * b)
    }
}
impl<'a, const K: usize> Product<&'a Sym<K>> for Sym<K> {
    fn product<I: Iterator<Item = &'a Sym<K>>>(i: I) -> Sym<K> {
        i.fold(Sym::<K>::one(), |a, b| a * *b)
    }
}
impl<const K: usize> FromPrimitive for Sym<K> {
    fn from_i64(n: i64) -> Option<Sym<K>> {
        Some(cst(n as f64))
    }
    fn from_u64(n: u64) -> Option<Sym<K>> {
        Some(cst(n as f64))
    }
    fn from_f64(n: f64) -> Option<Sym<K>> {
        Some(cst(n))
    }
}
impl<const K: usize> From<f64> for Sym<K> {
    fn from(v: f64) -> Sym<K> {
        cst(v)
    }
}
impl<const K: usize> fmt::Display for Sym<K> {
    fn fmt(&self, f: &mut fmt::Formatter) -> fmt::Result {
        write!(f, "s{}={}", self.0, val(*self))
    }
}
impl<const K: usize> ScalarOperand for Sym<K> {}
impl<const K: usize> DualStruct<Sym<K>, f64> for Sym<K> {
    type Real = f64;
    type Lifted<D2: DualNum<f64, Inner = Sym<K>>> = D2;
    fn real(&self) -> f64 {
        event(Event::Re(self.0));
        val(*self)
    }
    fn lift<D2: DualNum<f64, Inner = Sym<K>>>(&self) -> D2 {
        D2::from_inner(*self)
    }
}

fn unsupported<const K: usize>(name: &'static str, v: f64) -> Sym<K> {
    event(Event::Unsupported(name));
    cst(v)
}

impl<const K: usize> DualNum<f64> for Sym<K> {
    const NDERIV: usize = K;
    type Inner = f64;
    fn from_inner(v: f64) -> Sym<K> {
        cst(v)
    }
    fn re(&self) -> f64 {
        event(Event::Re(self.0));
        val(*self)
    }
    fn recip(&self) -> Sym<K> {
        un(Op1::Inv, *self)
    }
    fn powi(&self, n: i32) -> Sym<K> {
        let native = val(*self).powi(n);
        with_native(powi_lowered(*self, n), native)
    }
    fn powf(&self, n: f64) -> Sym<K> {
        let native = val(*self).powf(n);
        if n.fract() == 0.0 && n.abs() <= 64.0 {
            return with_native(powi_lowered(*self, n as i32), native);
        }
        // x^c = exp(c ln x), x > 0
        let l = un(Op1::Ln, *self);
        let m = bin(Op2::Mul, l, cst(n));
        with_native(un(Op1::Exp, m), native)
    }
    fn sqrt(&self) -> Sym<K> {
        un(Op1::Sqrt, *self)
    }
    fn cbrt(&self) -> Sym<K> {
        let native = val(*self).cbrt();
        let l = un(Op1::Ln, *self);
        let m = bin(Op2::Div, l, cst(3.0));
        with_native(un(Op1::Exp, m), native)
    }
    fn exp(&self) -> Sym<K> {
        un(Op1::Exp, *self)
    }
    fn exp2(&self) -> Sym<K> {
        let native = val(*self).exp2();
        let m = bin(Op2::Mul, *self, cst(std::f64::consts::LN_2));
        with_native(un(Op1::Exp, m), native)
    }
    fn exp_m1(&self) -> Sym<K> {
        let native = val(*self).exp_m1();
        let e = un(Op1::Exp, *self);
        with_native(bin(Op2::Sub, e, cst(1.0)), native)
    }
    fn ln(&self) -> Sym<K> {
        un(Op1::Ln, *self)
    }
    fn log(&self, b: f64) -> Sym<K> {
        let native = val(*self).log(b);
        let l = un(Op1::Ln, *self);
        with_native(bin(Op2::Div, l, cst(b.ln())), native)
    }
    fn log2(&self) -> Sym<K> {
        self.log(2.0)
    }
    fn log10(&self) -> Sym<K> {
        self.log(10.0)
    }
    fn ln_1p(&self) -> Sym<K> {
        let native = val(*self).ln_1p();
        let s = bin(Op2::Add, cst(1.0), *self);
        with_native(un(Op1::Ln, s), native)
    }
    fn sin(&self) -> Sym<K> {
        un(Op1::Sin, *self)
    }
    fn cos(&self) -> Sym<K> {
        un(Op1::Cos, *self)
    }
    fn tan(&self) -> Sym<K> {
        un(Op1::Tan, *self)
    }
    fn sin_cos(&self) -> (Sym<K>, Sym<K>) {
        (self.sin(), self.cos())
    }
    fn asin(&self) -> Sym<K> {
        unsupported("asin", val(*self).asin())
    }
    fn acos(&self) -> Sym<K> {
        unsupported("acos", val(*self).acos())
    }
    fn atan(&self) -> Sym<K> {
        un(Op1::Atan, *self)
    }
    fn atan2(&self, o: Sym<K>) -> Sym<K> {
        unsupported("atan2", val(*self).atan2(val(o)))
    }
    fn sinh(&self) -> Sym<K> {
        let native = val(*self).sinh();
        let e = un(Op1::Exp, *self);
        let ei = un(Op1::Inv, e);
        let d = bin(Op2::Sub, e, ei);
        with_native(bin(Op2::Div, d, cst(2.0)), native)
    }
    fn cosh(&self) -> Sym<K> {
        let native = val(*self).cosh();
        let e = un(Op1::Exp, *self);
        let ei = un(Op1::Inv, e);
        let d = bin(Op2::Add, e, ei);
        with_native(bin(Op2::Div, d, cst(2.0)), native)
    }
    fn tanh(&self) -> Sym<K> {
        // (e^{2x} - 1)/(e^{2x} + 1)
        let native = val(*self).tanh();
        let two = bin(Op2::Add, *self, *self);
        let e = un(Op1::Exp, two);
        let n = bin(Op2::Sub, e, cst(1.0));
        let d = bin(Op2::Add, e, cst(1.0));
        with_native(bin(Op2::Div, n, d), native)
    }
    fn asinh(&self) -> Sym<K> {
        unsupported("asinh", val(*self).asinh())
    }
    fn acosh(&self) -> Sym<K> {
        unsupported("acosh", val(*self).acosh())
    }
    fn atanh(&self) -> Sym<K> {
        unsupported("atanh", val(*self).atanh())
    }
    fn sph_j0(&self) -> Sym<K> {
        event(Event::Re(self.0));
        if val(*self).abs() < f64::EPSILON {
            Sym::<K>::one() - *self * *self / 6.0
        } else {
            self.sin() / *self
        }
    }
    fn sph_j1(&self) -> Sym<K> {
        event(Event::Re(self.0));
        if val(*self).abs() < f64::EPSILON {
            *self / 3.0
        } else {
            let (s, c) = self.sin_cos();
            let rec = self.recip();
            (s * rec - c) * rec
        }
    }
    fn sph_j2(&self) -> Sym<K> {
        event(Event::Re(self.0));
        if val(*self).abs() < f64::EPSILON {
            *self * *self / 15.0
        } else {
            let (s, c) = self.sin_cos();
            let s2 = *self * *self;
            ((Sym::<K>::from(3.0) - s2) * s - *self * c * 3.0) / (*self * s2)
        }
    }
}
