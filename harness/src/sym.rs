//! Tracing number type: running the generic feos code with `Sym` records the
//! straight-line real-arithmetic program the code executes (route T of DESIGN.md).
//!
//! Every node carries the concrete f64 value the plain f64 run would have computed, so all
//! control flow (`.re()`, comparisons) follows exactly the path of the f64 run; every such
//! observation is logged as an event.
use ndarray::ScalarOperand;
use num_dual::{DualNum, DualStruct};
use num_traits::{FromPrimitive, Inv, Num, One, Signed, Zero};
use std::cell::RefCell;
use std::fmt;
use std::iter::{Product, Sum};
use std::ops::*;

#[derive(Clone, Copy, Debug, PartialEq, Eq, Hash, PartialOrd, Ord)]
pub enum Op1 {
    Neg,
    Abs,
    Inv,
    Sqr,
    Sqrt,
    Cos,
    Sin,
    Tan,
    Atan,
    Exp,
    Ln,
}

#[derive(Clone, Copy, Debug, PartialEq, Eq, Hash, PartialOrd, Ord)]
pub enum Op2 {
    Add,
    Sub,
    Mul,
    Div,
}

#[derive(Clone, Copy, Debug, PartialEq)]
pub enum Node {
    Var(u32),
    Const(f64),
    Un(Op1, u32),
    Bin(Op2, u32, u32),
}

#[derive(Clone, Debug, PartialEq)]
pub enum Event {
    /// `.re()` applied to a node (value escaped to f64)
    Re(u32),
    /// comparison of two nodes (PartialOrd / PartialEq / is_zero ...)
    Cmp(u32, u32),
    /// an operation the lowering does not support (program is then not claimed)
    Unsupported(&'static str),
}

#[derive(Default, Clone)]
pub struct Trace {
    pub nodes: Vec<(Node, f64)>,
    pub events: Vec<Event>,
}

thread_local! {
    static ARENA: RefCell<Trace> = RefCell::new(Trace::default());
}

#[derive(Clone, Copy, Debug)]
pub struct Sym(pub u32);

pub fn reset() {
    ARENA.with(|a| *a.borrow_mut() = Trace::default());
}
pub fn take() -> Trace {
    ARENA.with(|a| std::mem::take(&mut *a.borrow_mut()))
}
fn push(n: Node, v: f64) -> Sym {
    ARENA.with(|a| {
        let mut a = a.borrow_mut();
        a.nodes.push((n, v));
        Sym((a.nodes.len() - 1) as u32)
    })
}
fn event(e: Event) {
    ARENA.with(|a| a.borrow_mut().events.push(e));
}
pub fn val(s: Sym) -> f64 {
    ARENA.with(|a| a.borrow().nodes[s.0 as usize].1)
}
fn set_val(s: Sym, v: f64) {
    ARENA.with(|a| a.borrow_mut().nodes[s.0 as usize].1 = v);
}
pub fn var(k: u32, v: f64) -> Sym {
    push(Node::Var(k), v)
}
pub fn cst(v: f64) -> Sym {
    push(Node::Const(v), v)
}
fn un(op: Op1, a: Sym) -> Sym {
    let x = val(a);
    let v = match op {
        Op1::Neg => -x,
        Op1::Abs => x.abs(),
        Op1::Inv => x.recip(),
        Op1::Sqr => x * x,
        Op1::Sqrt => x.sqrt(),
        Op1::Cos => x.cos(),
        Op1::Sin => x.sin(),
        Op1::Tan => x.tan(),
        Op1::Atan => x.atan(),
        Op1::Exp => x.exp(),
        Op1::Ln => x.ln(),
    };
    push(Node::Un(op, a.0), v)
}
fn bin(op: Op2, a: Sym, b: Sym) -> Sym {
    let (x, y) = (val(a), val(b));
    let v = match op {
        Op2::Add => x + y,
        Op2::Sub => x - y,
        Op2::Mul => x * y,
        Op2::Div => x / y,
    };
    push(Node::Bin(op, a.0, b.0), v)
}
/// the final node of a lowered operation keeps the value of the native f64 operation, so that
/// subsequent control flow is exactly that of the f64 run
fn with_native(s: Sym, v: f64) -> Sym {
    set_val(s, v);
    s
}

/// x^n by square-and-multiply (exact real identity; x^0 = 1; negative n through Inv)
fn powi_lowered(x: Sym, n: i32) -> Sym {
    if n == 0 {
        return cst(1.0);
    }
    let neg = n < 0;
    let mut e = n.unsigned_abs();
    let mut base = x;
    let mut acc: Option<Sym> = None;
    loop {
        if e & 1 == 1 {
            acc = Some(match acc {
                None => base,
                Some(a) => bin(Op2::Mul, a, base),
            });
        }
        e >>= 1;
        if e == 0 {
            break;
        }
        base = un(Op1::Sqr, base);
    }
    let r = acc.unwrap();
    if neg {
        un(Op1::Inv, r)
    } else if r.0 == x.0 {
        // n == 1: make a fresh node so that with_native never overwrites an operand
        bin(Op2::Mul, x, cst(1.0))
    } else {
        r
    }
}

macro_rules! binop {
    ($tr:ident, $m:ident, $op:expr) => {
        impl $tr<Sym> for Sym {
            type Output = Sym;
            fn $m(self, o: Sym) -> Sym {
                bin($op, self, o)
            }
        }
        impl<'a> $tr<&'a Sym> for Sym {
            type Output = Sym;
            fn $m(self, o: &Sym) -> Sym {
                bin($op, self, *o)
            }
        }
        impl<'a> $tr<Sym> for &'a Sym {
            type Output = Sym;
            fn $m(self, o: Sym) -> Sym {
                bin($op, *self, o)
            }
        }
        impl<'a, 'b> $tr<&'b Sym> for &'a Sym {
            type Output = Sym;
            fn $m(self, o: &Sym) -> Sym {
                bin($op, *self, *o)
            }
        }
        impl $tr<f64> for Sym {
            type Output = Sym;
            fn $m(self, o: f64) -> Sym {
                bin($op, self, cst(o))
            }
        }
        impl<'a> $tr<f64> for &'a Sym {
            type Output = Sym;
            fn $m(self, o: f64) -> Sym {
                bin($op, *self, cst(o))
            }
        }
        impl $tr<Sym> for f64 {
            type Output = Sym;
            fn $m(self, o: Sym) -> Sym {
                bin($op, cst(self), o)
            }
        }
    };
}
binop!(Add, add, Op2::Add);
binop!(Sub, sub, Op2::Sub);
binop!(Mul, mul, Op2::Mul);
binop!(Div, div, Op2::Div);

fn rem_unsupported(a: Sym, b: Sym) -> Sym {
    event(Event::Unsupported("rem"));
    cst(val(a) % val(b))
}
impl Rem<Sym> for Sym {
    type Output = Sym;
    fn rem(self, o: Sym) -> Sym {
        rem_unsupported(self, o)
    }
}
impl<'a> Rem<&'a Sym> for Sym {
    type Output = Sym;
    fn rem(self, o: &Sym) -> Sym {
        rem_unsupported(self, *o)
    }
}
impl<'a> Rem<Sym> for &'a Sym {
    type Output = Sym;
    fn rem(self, o: Sym) -> Sym {
        rem_unsupported(*self, o)
    }
}
impl<'a, 'b> Rem<&'b Sym> for &'a Sym {
    type Output = Sym;
    fn rem(self, o: &Sym) -> Sym {
        rem_unsupported(*self, *o)
    }
}
impl Rem<f64> for Sym {
    type Output = Sym;
    fn rem(self, o: f64) -> Sym {
        rem_unsupported(self, cst(o))
    }
}

macro_rules! asg {
    ($tr:ident, $m:ident, $op:tt) => {
        impl $tr<Sym> for Sym { fn $m(&mut self, o: Sym) { *self = *self $op o; } }
        impl<'a> $tr<&'a Sym> for Sym { fn $m(&mut self, o: &Sym) { *self = *self $op *o; } }
        impl $tr<f64> for Sym { fn $m(&mut self, o: f64) { *self = *self $op o; } }
    };
}
asg!(AddAssign, add_assign, +);
asg!(SubAssign, sub_assign, -);
asg!(MulAssign, mul_assign, *);
asg!(DivAssign, div_assign, /);
asg!(RemAssign, rem_assign, %);

impl Neg for Sym {
    type Output = Sym;
    fn neg(self) -> Sym {
        un(Op1::Neg, self)
    }
}
impl<'a> Neg for &'a Sym {
    type Output = Sym;
    fn neg(self) -> Sym {
        un(Op1::Neg, *self)
    }
}
impl PartialEq for Sym {
    fn eq(&self, o: &Sym) -> bool {
        event(Event::Cmp(self.0, o.0));
        val(*self) == val(*o)
    }
}
impl PartialOrd for Sym {
    fn partial_cmp(&self, o: &Sym) -> Option<std::cmp::Ordering> {
        event(Event::Cmp(self.0, o.0));
        val(*self).partial_cmp(&val(*o))
    }
}
impl Zero for Sym {
    fn zero() -> Sym {
        cst(0.0)
    }
    fn is_zero(&self) -> bool {
        event(Event::Re(self.0));
        val(*self) == 0.0
    }
}
impl One for Sym {
    fn one() -> Sym {
        cst(1.0)
    }
}
impl Num for Sym {
    type FromStrRadixErr = ();
    fn from_str_radix(_: &str, _: u32) -> Result<Self, ()> {
        Err(())
    }
}
impl Signed for Sym {
    fn abs(&self) -> Sym {
        un(Op1::Abs, *self)
    }
    fn abs_sub(&self, o: &Sym) -> Sym {
        event(Event::Cmp(self.0, o.0));
        if val(*self) <= val(*o) {
            cst(0.0)
        } else {
            *self - *o
        }
    }
    fn signum(&self) -> Sym {
        event(Event::Re(self.0));
        cst(val(*self).signum())
    }
    fn is_positive(&self) -> bool {
        event(Event::Re(self.0));
        val(*self) > 0.0
    }
    fn is_negative(&self) -> bool {
        event(Event::Re(self.0));
        val(*self) < 0.0
    }
}
impl Inv for Sym {
    type Output = Sym;
    fn inv(self) -> Sym {
        un(Op1::Inv, self)
    }
}
impl Sum for Sym {
    fn sum<I: Iterator<Item = Sym>>(i: I) -> Sym {
        i.fold(Sym::zero(), |a, b| a + b)
    }
}
impl<'a> Sum<&'a Sym> for Sym {
    fn sum<I: Iterator<Item = &'a Sym>>(i: I) -> Sym {
        i.fold(Sym::zero(), |a, b| a + *b)
    }
}
impl Product for Sym {
    fn product<I: Iterator<Item = Sym>>(i: I) -> Sym {
        i.fold(Sym::one(), |a, b| a * b)
    }
}
impl<'a> Product<&'a Sym> for Sym {
    fn product<I: Iterator<Item = &'a Sym>>(i: I) -> Sym {
        i.fold(Sym::one(), |a, b| a * *b)
    }
}
impl FromPrimitive for Sym {
    fn from_i64(n: i64) -> Option<Sym> {
        Some(cst(n as f64))
    }
    fn from_u64(n: u64) -> Option<Sym> {
        Some(cst(n as f64))
    }
    fn from_f64(n: f64) -> Option<Sym> {
        Some(cst(n))
    }
}
impl From<f64> for Sym {
    fn from(v: f64) -> Sym {
        cst(v)
    }
}
impl fmt::Display for Sym {
    fn fmt(&self, f: &mut fmt::Formatter) -> fmt::Result {
        write!(f, "s{}={}", self.0, val(*self))
    }
}
impl ScalarOperand for Sym {}
impl DualStruct<Sym, f64> for Sym {
    type Real = f64;
    type Lifted<D2: DualNum<f64, Inner = Sym>> = D2;
    fn real(&self) -> f64 {
        event(Event::Re(self.0));
        val(*self)
    }
    fn lift<D2: DualNum<f64, Inner = Sym>>(&self) -> D2 {
        D2::from_inner(*self)
    }
}

fn unsupported(name: &'static str, v: f64) -> Sym {
    event(Event::Unsupported(name));
    cst(v)
}

impl DualNum<f64> for Sym {
    const NDERIV: usize = 1;
    type Inner = f64;
    fn from_inner(v: f64) -> Sym {
        cst(v)
    }
    fn re(&self) -> f64 {
        event(Event::Re(self.0));
        val(*self)
    }
    fn recip(&self) -> Sym {
        un(Op1::Inv, *self)
    }
    fn powi(&self, n: i32) -> Sym {
        let native = val(*self).powi(n);
        with_native(powi_lowered(*self, n), native)
    }
    fn powf(&self, n: f64) -> Sym {
        let native = val(*self).powf(n);
        if n.fract() == 0.0 && n.abs() <= 64.0 {
            return with_native(powi_lowered(*self, n as i32), native);
        }
        // x^c = exp(c ln x), x > 0
        let l = un(Op1::Ln, *self);
        let m = bin(Op2::Mul, l, cst(n));
        with_native(un(Op1::Exp, m), native)
    }
    fn sqrt(&self) -> Sym {
        un(Op1::Sqrt, *self)
    }
    fn cbrt(&self) -> Sym {
        let native = val(*self).cbrt();
        let l = un(Op1::Ln, *self);
        let m = bin(Op2::Div, l, cst(3.0));
        with_native(un(Op1::Exp, m), native)
    }
    fn exp(&self) -> Sym {
        un(Op1::Exp, *self)
    }
    fn exp2(&self) -> Sym {
        let native = val(*self).exp2();
        let m = bin(Op2::Mul, *self, cst(std::f64::consts::LN_2));
        with_native(un(Op1::Exp, m), native)
    }
    fn exp_m1(&self) -> Sym {
        let native = val(*self).exp_m1();
        let e = un(Op1::Exp, *self);
        with_native(bin(Op2::Sub, e, cst(1.0)), native)
    }
    fn ln(&self) -> Sym {
        un(Op1::Ln, *self)
    }
    fn log(&self, b: f64) -> Sym {
        let native = val(*self).log(b);
        let l = un(Op1::Ln, *self);
        with_native(bin(Op2::Div, l, cst(b.ln())), native)
    }
    fn log2(&self) -> Sym {
        self.log(2.0)
    }
    fn log10(&self) -> Sym {
        self.log(10.0)
    }
    fn ln_1p(&self) -> Sym {
        let native = val(*self).ln_1p();
        let s = bin(Op2::Add, cst(1.0), *self);
        with_native(un(Op1::Ln, s), native)
    }
    fn sin(&self) -> Sym {
        un(Op1::Sin, *self)
    }
    fn cos(&self) -> Sym {
        un(Op1::Cos, *self)
    }
    fn tan(&self) -> Sym {
        un(Op1::Tan, *self)
    }
    fn sin_cos(&self) -> (Sym, Sym) {
        (self.sin(), self.cos())
    }
    fn asin(&self) -> Sym {
        unsupported("asin", val(*self).asin())
    }
    fn acos(&self) -> Sym {
        unsupported("acos", val(*self).acos())
    }
    fn atan(&self) -> Sym {
        un(Op1::Atan, *self)
    }
    fn atan2(&self, o: Sym) -> Sym {
        unsupported("atan2", val(*self).atan2(val(o)))
    }
    fn sinh(&self) -> Sym {
        let native = val(*self).sinh();
        let e = un(Op1::Exp, *self);
        let ei = un(Op1::Inv, e);
        let d = bin(Op2::Sub, e, ei);
        with_native(bin(Op2::Div, d, cst(2.0)), native)
    }
    fn cosh(&self) -> Sym {
        let native = val(*self).cosh();
        let e = un(Op1::Exp, *self);
        let ei = un(Op1::Inv, e);
        let d = bin(Op2::Add, e, ei);
        with_native(bin(Op2::Div, d, cst(2.0)), native)
    }
    fn tanh(&self) -> Sym {
        // (e^{2x} - 1)/(e^{2x} + 1)
        let native = val(*self).tanh();
        let two = bin(Op2::Add, *self, *self);
        let e = un(Op1::Exp, two);
        let n = bin(Op2::Sub, e, cst(1.0));
        let d = bin(Op2::Add, e, cst(1.0));
        with_native(bin(Op2::Div, n, d), native)
    }
    fn asinh(&self) -> Sym {
        unsupported("asinh", val(*self).asinh())
    }
    fn acosh(&self) -> Sym {
        unsupported("acosh", val(*self).acosh())
    }
    fn atanh(&self) -> Sym {
        unsupported("atanh", val(*self).atanh())
    }
    fn sph_j0(&self) -> Sym {
        event(Event::Re(self.0));
        if val(*self).abs() < f64::EPSILON {
            Sym::one() - *self * *self / 6.0
        } else {
            self.sin() / *self
        }
    }
    fn sph_j1(&self) -> Sym {
        event(Event::Re(self.0));
        if val(*self).abs() < f64::EPSILON {
            *self / 3.0
        } else {
            let (s, c) = self.sin_cos();
            let rec = self.recip();
            (s * rec - c) * rec
        }
    }
    fn sph_j2(&self) -> Sym {
        event(Event::Re(self.0));
        if val(*self).abs() < f64::EPSILON {
            *self * *self / 15.0
        } else {
            let (s, c) = self.sin_cos();
            let s2 = *self * *self;
            ((Sym::from(3.0) - s2) * s - *self * c * 3.0) / (*self * s2)
        }
    }
}
