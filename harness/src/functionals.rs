//! Helmholtz energy functionals used as bulk models (every `HelmholtzEnergyFunctional` implements `Residual`): configurations for the properties that
//! quantify over "every equation of state and Helmholtz energy functional" (C01, C02).
use crate::configs::{self, cfg_of, params, ConfigG};
use feos::gc_pcsaft::{GcPcSaftFunctional, GcPcSaftFunctionalParameters};
use feos::hard_sphere::FMTVersion;
use feos::pcsaft::PcSaftFunctional;
use feos::pets::PetsFunctional;
use feos::saftvrqmie::{SaftVRQMieFunctional, SaftVRQMieParameters};
use feos_core::parameter::{IdentifierOption, Parameter, ParameterHetero};
use std::sync::Arc;

/// PC-SAFT functionals: 0 = alkanes with k_ij (White Bear), 1 = cross-associating mixture (Kierlik-Rosinberg),
/// 2 = dipolar mixture (White Bear), 3 = pure water (pure-component functional path), 4 = propane (antisymmetrised White Bear)
pub fn pcsaft(name: &str, which: usize, core: bool) -> ConfigG<PcSaftFunctional> {
    let (p, ver, n, t) = match which {
        0 => (configs::with_kij(&configs::pcsaft_params(&["propane", "butane"], "gross2001.json", None), 0.03), FMTVersion::WhiteBear, 2, 400.0),
        1 => (configs::pcsaft_params(&["water", "methanol"], "gross2002.json", None), FMTVersion::KierlikRosinberg, 2, 600.0),
        2 => (configs::pcsaft_params(&["acetone", "butanone"], "gross2006.json", None), FMTVersion::WhiteBear, 2, 520.0),
        3 => (configs::pcsaft_params(&["water"], "gross2002.json", None), FMTVersion::WhiteBear, 1, 647.0),
        _ => (configs::pcsaft_params(&["propane"], "gross2001.json", None), FMTVersion::AntiSymWhiteBear, 1, 370.0),
    };
    cfg_of(name, PcSaftFunctional::new_full(Arc::new(p), ver), n, t, core)
}

pub fn gc_pcsaft(name: &str, core: bool) -> ConfigG<GcPcSaftFunctional> {
    let p = GcPcSaftFunctionalParameters::from_json_segments(
        &["1-propanol", "ethanol"],
        format!("{}/pcsaft/gc_substances.json", params()),
        format!("{}/pcsaft/sauer2014_hetero.json", params()),
        None,
        IdentifierOption::Name,
    )
    .unwrap();
    cfg_of(name, GcPcSaftFunctional::new(Arc::new(p)), 2, 520.0, core)
}

pub fn pets(name: &str, core: bool) -> ConfigG<PetsFunctional> {
    cfg_of(name, PetsFunctional::new(Arc::new(configs::pets_params(2))), 2, 180.0, core)
}

pub fn saftvrqmie(name: &str, core: bool) -> ConfigG<SaftVRQMieFunctional> {
    let p = SaftVRQMieParameters::from_json(vec!["hydrogen"], format!("{}/saftvrqmie/aasen2019.json", params()), None, IdentifierOption::Name).unwrap();
    cfg_of(name, SaftVRQMieFunctional::new(Arc::new(p)), 1, 33.0, core)
}
