//! C16 — a uniform fluid is an exact solution of the discretised DFT in every geometry.
//!
//! Part A (tie of the Coq model `AxisC16`): builds the REAL `Axis::new_cartesian / new_spherical / new_polar`
//! for fixed and random (n, l), reads grid / edges / volume() / length() (public) and the integration weights
//! (hook `Axis::verif_integration_weights`, cfg feos_verif) and emits `interval` goals model-vs-implementation
//! into coq/gen/C16/ax_*.v; the whole arrays are additionally checked on the implementation itself
//! (sum of the weights vs volume(), cell ordering).
//! Part B: real `DFTProfile`s on every `Grid` variant: `volume()` and `integrate(1)` vs the model (`grids.v`).
//! Part C (exploration support of the hypothesis H_conv of `UniformELC16`): uniform profiles on the real
//! convolvers for several functionals and grid types: weighted densities = bulk, Euler-Lagrange residual = 0,
//! grand potential density = -p, N = rho * sum(w), Omega + p V = 0.
use feos::hard_sphere::{FMTFunctional, FMTVersion};
use feos::pcsaft::{PcSaftFunctional, PcSaftParameters};
use feos::pets::{PetsFunctional, PetsParameters, PetsRecord};
use feos::gc_pcsaft::{GcPcSaftFunctional, GcPcSaftFunctionalParameters};
use feos_core::parameter::{Identifier, IdentifierOption, Parameter, ParameterHetero, PureRecord};
use feos_core::{Contributions, ReferenceSystem, State};
use feos_dft::{
    Axis, Convolver, ConvolverFFT, DFTProfile, DFTSpecifications, Geometry, Grid, HelmholtzEnergyFunctional, WeightFunction,
    WeightFunctionInfo, WeightFunctionShape,
};
use feos_verif::cli::Cli;
use feos_verif::configs::{params, Rng};
use ndarray::{arr1, Array, Array1, Axis as NdAxis, Dimension, Ix1, Ix2, Ix3, RemoveAxis};
use quantity::{Angle, Density, Dimensionless, Length, Moles, Temperature, Volume, RADIANS};
use serde_json::{json, Value};
use std::fmt::Write as _;
use std::panic::{catch_unwind, AssertUnwindSafe};
use std::sync::Arc;

/// exact rational literal of an f64 in Coq's R scope
fn rq(x: f64) -> String {
    assert!(x.is_finite(), "non-finite value {x}");
    if x == 0.0 {
        return "0".into();
    }
    let bits = x.to_bits();
    let neg = bits >> 63 == 1;
    let exp = ((bits >> 52) & 0x7ff) as i64;
    let frac = bits & ((1u64 << 52) - 1);
    let (mut m, mut e) = if exp == 0 { (frac, -1074i64) } else { (frac | (1u64 << 52), exp - 1075) };
    while m & 1 == 0 {
        m >>= 1;
        e += 1;
    }
    let sm = if neg { format!("(-{m})") } else { format!("{m}") };
    if e >= 0 {
        format!("({} * {})", sm, pow2(e as u32))
    } else {
        format!("({} / {})", sm, pow2((-e) as u32))
    }
}

/// 2^k as a decimal string (k up to ~1100)
fn pow2(k: u32) -> String {
    let mut digits: Vec<u8> = vec![1];
    for _ in 0..k {
        let mut carry = 0u8;
        for d in digits.iter_mut() {
            let v = *d * 2 + carry;
            *d = v % 10;
            carry = v / 10;
        }
        if carry > 0 {
            digits.push(carry);
        }
    }
    digits.iter().rev().map(|d| (b'0' + d) as char).collect()
}

const RTOL: f64 = 1e-11;

fn tol(x: f64) -> String {
    rq(RTOL * x.abs() + 1e-290)
}

fn fin(x: f64) -> Value {
    if x.is_finite() {
        json!(x)
    } else {
        json!(format!("{x}"))
    }
}

#[derive(Clone)]
struct AxisCase {
    id: String,
    num: usize,
    kind: &'static str,
    n: usize,
    l: f64,
    off: Option<f64>,
}

fn build_axis(c: &AxisCase) -> Axis {
    let len = Length::from_reduced(c.l);
    match c.kind {
        "cartesian" => Axis::new_cartesian(c.n, len, c.off),
        "spherical" => Axis::new_spherical(c.n, len),
        _ => Axis::new_polar(c.n, len),
    }
}

fn sample_indices(n: usize, extra: usize, rng: &mut Rng) -> Vec<usize> {
    let mut v = vec![0usize, 1, 2, n.saturating_sub(1)];
    for _ in 0..extra {
        v.push(rng.below(n.max(1)));
    }
    v.retain(|&k| k < n);
    v.sort();
    v.dedup();
    v
}

/// one axis case: the goals (Coq text) and the implementation-side record
fn axis_case(c: &AxisCase, rng: &mut Rng) -> (String, Value) {
    let ax = build_axis(c);
    let w = ax.verif_integration_weights().clone();
    let off_impl = ax.verif_potential_offset();
    let n = c.n;
    let finite = ax.grid.iter().chain(ax.edges.iter()).chain(w.iter()).all(|x| x.is_finite());
    let vol = ax.volume();
    let len = ax.length();
    let sumw: f64 = w.iter().sum();
    let mut rec = json!({
        "id": c.id, "kind": c.kind, "n": n, "l": c.l, "offset": c.off, "offset_impl": off_impl,
        "finite": finite, "volume": fin(vol), "length": fin(len), "sum_weights": fin(sumw),
        "grid_len": ax.grid.len(), "edges_len": ax.edges.len(), "weights_len": w.len(),
        "geometry": match ax.geometry { Geometry::Cartesian => "cartesian", Geometry::Cylindrical => "polar", Geometry::Spherical => "spherical" },
    });
    let mut s = String::new();
    if !finite {
        rec["goals"] = json!([]);
        return (s, rec);
    }
    // whole-array facts on the implementation
    let mut in_cell = true;
    for k in 0..n {
        if !(ax.edges[k] < ax.grid[k] && ax.grid[k] < ax.edges[k + 1]) {
            in_cell = false;
        }
    }
    rec["grid_in_cell"] = json!(in_cell);
    rec["min_weight"] = fin(w.iter().cloned().fold(f64::INFINITY, f64::min));
    // the model terms are the evaluation forms of coq/theories/AxisEvalC16.v; each is proved equal to the
    // corresponding field of new_cartesian / new_spherical / new_polar for all n, k (lemmas *_eval)
    let l = rq(c.l);
    let off = rq(c.off.unwrap_or(0.0));
    let al = format!("(polar_alpha_Z {n})");
    let term = |what: &str, k: usize| -> String {
        match (c.kind, what) {
            ("cartesian", "grid") => format!("cart_grid_Z {n} {l} {off} {k}"),
            ("cartesian", "edge") => format!("cart_edge_Z {n} {l} {off} {k}"),
            ("cartesian", "weight") => format!("cart_weight_Z {n} {l} {off}"),
            ("cartesian", "volume") => format!("cart_volume_Z {n} {l} {off}"),
            ("cartesian", _) => format!("cart_length_Z {n} {l} {off}"),
            ("spherical", "grid") => format!("sph_grid_Z {n} {l} {k}"),
            ("spherical", "edge") => format!("sph_edge_Z {n} {l} {k}"),
            ("spherical", "weight") => format!("sph_weight_Z {n} {l} {k}"),
            ("spherical", "volume") => format!("sph_volume_Z {n} {l}"),
            ("spherical", _) => format!("sph_length_Z {n} {l}"),
            (_, "grid") => format!("polar_grid_Z {n} {l} {al} {k}"),
            (_, "edge") => if k == 0 { "0".to_string() } else { format!("polar_edge_Z {n} {l} {al} {k}") },
            (_, "weight") => match k {
                0 => format!("polar_w0_Z {n} {l} {al}"),
                1 => format!("polar_w1_Z {n} {l} {al}"),
                _ => format!("polar_wk_Z {n} {l} {al} {k}"),
            },
            (_, "volume") => format!("polar_volume_Z {n} {l} {al}"),
            (_, _) => format!("polar_length_Z {n} {l} {al}"),
        }
    };
    let mut goals: Vec<Value> = Vec::new();
    let mut conj: Vec<String> = Vec::new();
    let mut goal = |what: &str, k: Option<usize>, val: f64, scale: f64| {
        let tag = c.num * 1000 + conj.len();
        conj.push(format!("c16_tag {}%Z (Rabs ({} - {}) <= {})", tag, term(what, k.unwrap_or(0)), rq(val), tol(scale)));
        goals.push(json!({"tag": tag, "what": what, "k": k, "impl": val}));
    };
    let idx = sample_indices(n, if c.kind == "polar" { 2 } else { 4 }, rng);
    for &k in &idx {
        goal("grid", Some(k), ax.grid[k], ax.grid[k]);
        goal("weight", Some(k), w[k], w[k]);
    }
    let mut eidx = idx.clone();
    eidx.push(n);
    for &k in &eidx {
        goal("edge", Some(k), ax.edges[k], ax.edges[n]);
    }
    goal("volume", None, vol, vol);
    goal("length", None, len, len);
    writeln!(s, "Lemma {}_all :\n  {}.\nProof. c16_all. Qed.", c.id, conj.join(" /\\\n  ")).unwrap();
    rec["goals"] = json!(goals);
    rec["samples"] = json!(idx);
    (s, rec)
}

fn header() -> String {
    "(* generated by harness/src/bin/c16.rs on every run - do not edit *)\n\
     From Coq Require Import Reals ZArith Lia List.\n\
     From Interval Require Import Tactic.\n\
     From FeosVerif Require Import AxisC16 AxisEvalC16.\n\
     Import ListNotations.\n\
     Open Scope R_scope.\n\n"
        .to_string()
}

// ------------------------------------------------------------------------------------------------
// Part B/C: real DFT profiles

fn fmt_functional(version: FMTVersion, sigma: &[f64]) -> Arc<FMTFunctional> {
    Arc::new(FMTFunctional::new(&Array1::from_vec(sigma.to_vec()), version))
}

fn pcsaft_functional(names: &[&str], file: &str, version: Option<FMTVersion>) -> Arc<PcSaftFunctional> {
    let p = Arc::new(
        PcSaftParameters::from_json(names.to_vec(), format!("{}/pcsaft/{file}", params()), None, IdentifierOption::Name)
            .unwrap(),
    );
    Arc::new(match version {
        None => PcSaftFunctional::new(p),
        Some(v) => PcSaftFunctional::new_full(p, v),
    })
}

fn pets_functional() -> Arc<PetsFunctional> {
    let rec = PureRecord::new(Identifier::default(), 39.948, PetsRecord::new(3.4, 120.0, None, None, None));
    Arc::new(PetsFunctional::new(Arc::new(PetsParameters::from_records(vec![rec], None).unwrap())))
}

fn gc_functional(names: &[&str]) -> Arc<GcPcSaftFunctional> {
    let p = GcPcSaftFunctionalParameters::from_json_segments(
        names,
        format!("{}/pcsaft/gc_substances.json", params()),
        format!("{}/pcsaft/sauer2014_hetero.json", params()),
        None,
        IdentifierOption::Name,
    )
    .unwrap();
    Arc::new(GcPcSaftFunctional::new(Arc::new(p)))
}

fn bulk_state<F: HelmholtzEnergyFunctional>(f: &Arc<F>, t: f64, rho: &[f64]) -> State<F> {
    // reduced units: V = 1000 A^3
    let v = 1000.0;
    let n = Array1::from_vec(rho.iter().map(|r| r * v).collect());
    State::new_nvt(f, Temperature::from_reduced(t), Volume::from_reduced(v), &Moles::from_reduced(n)).unwrap()
}

struct GridSpec {
    name: String,
    grid: Grid,
    /// Coq term of the model grid and the closed form lemma that evaluates its volume
    model: String,
    lemma: &'static str,
}

fn cart(n: usize, l: f64) -> Axis {
    Axis::new_cartesian(n, Length::from_reduced(l), None)
}
fn mcart(n: usize, l: f64) -> String {
    format!("(new_cartesian {} {} 0)", n, rq(l))
}
fn ang(a: f64) -> Angle {
    a * RADIANS
}

fn grid_specs(rng: &mut Rng, full: bool) -> Vec<(GridSpec, usize)> {
    // (spec, array dimension)
    let mut v = Vec::new();
    // repetition 0: even sizes, 1: odd sizes on every axis, 2 (thorough): mixed parity
    let reps = if full { 3 } else { 2 };
    for r in 0..reps {
        let n1 = [64usize, 33, 128][r % 3];
        let l1 = rng.range(20.0, 60.0);
        v.push((GridSpec { name: format!("cartesian1_{r}"), grid: Grid::Cartesian1(cart(n1, l1)), model: format!("(Cartesian1 {})", mcart(n1, l1)), lemma: "grid_volume_cart1" }, 1));
        let ls = rng.range(15.0, 40.0);
        v.push((GridSpec { name: format!("spherical_{r}"), grid: Grid::Spherical(Axis::new_spherical(n1, Length::from_reduced(ls))), model: format!("(SphericalG (new_spherical {} {}))", n1, rq(ls)), lemma: "grid_volume_sph" }, 1));
        let lp = rng.range(15.0, 40.0);
        v.push((GridSpec { name: format!("polar_{r}"), grid: Grid::Polar(Axis::new_polar(n1, Length::from_reduced(lp))), model: format!("(PolarG (new_polar {} {}))", n1, rq(lp)), lemma: "grid_volume_polar" }, 1));
        let (n2, m2) = ([32usize, 25, 24][r % 3], [16usize, 15, 31][r % 3]);
        let (la, lb) = (rng.range(15.0, 30.0), rng.range(15.0, 30.0));
        v.push((GridSpec { name: format!("cartesian2_{r}"), grid: Grid::Cartesian2(cart(n2, la), cart(m2, lb)), model: format!("(Cartesian2 {} {})", mcart(n2, la), mcart(m2, lb)), lemma: "grid_volume_cart2" }, 2));
        let al = rng.range(0.9, 2.0);
        v.push((GridSpec { name: format!("periodical2_{r}"), grid: Grid::Periodical2(cart(n2, la), cart(m2, lb), ang(al)), model: format!("(Periodical2 {} {} {})", mcart(n2, la), mcart(m2, lb), rq(al)), lemma: "grid_volume_per2" }, 2));
        let (lr, lz) = (rng.range(15.0, 30.0), rng.range(15.0, 30.0));
        v.push((GridSpec { name: format!("cylindrical_{r}"), grid: Grid::Cylindrical { r: Axis::new_polar(n2, Length::from_reduced(lr)), z: cart(m2, lz) }, model: format!("(CylindricalG (new_polar {} {}) {})", n2, rq(lr), mcart(m2, lz)), lemma: "grid_volume_cyl" }, 2));
        let (a3, b3, c3) = ([12usize, 9, 10][r % 3], [10usize, 11, 8][r % 3], [8usize, 7, 13][r % 3]);
        let (l3a, l3b, l3c) = (rng.range(12.0, 24.0), rng.range(12.0, 24.0), rng.range(12.0, 24.0));
        v.push((GridSpec { name: format!("cartesian3_{r}"), grid: Grid::Cartesian3(cart(a3, l3a), cart(b3, l3b), cart(c3, l3c)), model: format!("(Cartesian3 {} {} {})", mcart(a3, l3a), mcart(b3, l3b), mcart(c3, l3c)), lemma: "grid_volume_cart3" }, 3));
        let (aa, bb, cc) = (rng.range(1.2, 1.9), rng.range(1.2, 1.9), rng.range(1.2, 1.9));
        v.push((GridSpec { name: format!("periodical3_{r}"), grid: Grid::Periodical3(cart(a3, l3a), cart(b3, l3b), cart(c3, l3c), [ang(aa), ang(bb), ang(cc)]), model: format!("(Periodical3 {} {} {} {} {} {})", mcart(a3, l3a), mcart(b3, l3b), mcart(c3, l3c), rq(aa), rq(bb), rq(cc)), lemma: "grid_volume_per3" }, 3));
    }
    v
}

/// everything the property speaks about, for a uniform profile on a real grid / convolver
fn uniform_case<D, F>(grid: Grid, bulk: &State<F>, lanczos: Option<i32>) -> Value
where
    D: Dimension + RemoveAxis + 'static,
    F: HelmholtzEnergyFunctional,
    D::Larger: Dimension<Smaller = D>,
    D::Smaller: Dimension<Larger = D>,
    <D::Larger as Dimension>::Larger: Dimension<Smaller = D::Larger>,
{
    let mut profile: DFTProfile<D, F> = DFTProfile::new(grid, bulk, None, None, lanczos);
    let dft = bulk.eos.clone();
    let pd = bulk.partial_density.to_reduced();
    let ci = dft.component_index().into_owned();
    let rho_seg: Vec<f64> = ci.iter().map(|&c| pd[c]).collect();
    let init = profile.density.to_reduced();
    let mut init_dev: f64 = 0.0;
    let mut rho = init.clone();
    for (s, mut lane) in rho.outer_iter_mut().enumerate() {
        for x in lane.iter() {
            init_dev = init_dev.max((x - rho_seg[s]).abs() / rho_seg[s]);
        }
        lane.fill(rho_seg[s]);
    }
    profile.density = Density::from_reduced(rho.clone());
    let t = bulk.temperature.to_reduced();

    // volume and integral of one
    let volume = profile.volume().to_reduced();
    let ones: Array<f64, D> = Array::ones(rho.raw_dim().remove_axis(NdAxis(0)));
    let int_one = profile.integrate(&Dimensionless::from_reduced(ones)).to_reduced();

    // weighted densities vs bulk weighted densities (weight constants at k = 0)
    let wd = profile.weighted_densities().unwrap();
    let wf = dft.weight_functions(t);
    let rho_arr = Array1::from_vec(rho_seg.clone());
    let mut wd_dev: f64 = 0.0;
    let mut wd_rows = 0usize;
    let ndim = D::NDIM.unwrap();
    for (w, info) in wd.iter().zip(wf.iter()) {
        let bulk_wd = info.weight_constants(0.0, 0).dot(&rho_arr);
        let [sc, vc, sf, vf] = info.as_slice();
        let nseg = ci.len();
        let nrows = w.shape()[0];
        let n_local = nrows - (sc.len() * nseg + vc.len() * nseg * ndim + sf.len() + vf.len() * ndim);
        // expected value per row: scalars from the bulk convolver, vectors 0
        let mut expect: Vec<f64> = Vec::new();
        let mut j = 0;
        for _ in 0..n_local {
            expect.push(bulk_wd[j]);
            j += 1;
        }
        for _ in 0..sc.len() * nseg {
            expect.push(bulk_wd[j]);
            j += 1;
        }
        for _ in 0..vc.len() * nseg * ndim {
            expect.push(0.0);
        }
        for _ in 0..sf.len() {
            expect.push(bulk_wd[j]);
            j += 1;
        }
        for _ in 0..vf.len() * ndim {
            expect.push(0.0);
        }
        let scale = bulk_wd.iter().fold(0.0f64, |a, b| a.max(b.abs())).max(1e-300);
        for (row, e) in w.outer_iter().zip(expect.iter()) {
            wd_rows += 1;
            let sc_row = if *e != 0.0 { e.abs() } else { scale };
            for x in row.iter() {
                wd_dev = wd_dev.max((x - e).abs() / sc_row);
            }
        }
    }

    // Euler-Lagrange residual
    let (res, res_bulk, res_norm) = profile.residual(false).unwrap();
    let rho_max = rho_seg.iter().cloned().fold(0.0f64, f64::max);
    let res_max = res.iter().fold(0.0f64, |a, b| a.max(b.abs())) / rho_max;
    let res_bulk_max = res_bulk.iter().fold(0.0f64, |a, b| a.max(b.abs())) / rho_max;
    let (res_log, _, _) = profile.residual(true).unwrap();
    let res_log_max = res_log.iter().fold(0.0f64, |a, b| a.max(b.abs()));

    // particle-number specifications: the private integrate_reduced (through moles_from_profile) and the
    // bulk-density residual when exactly N = rho * volume() is specified
    let mut ired_dev: f64 = 0.0;
    if let DFTSpecifications::Moles { moles } = &*DFTSpecifications::moles_from_profile(&profile) {
        for (s, n) in moles.iter().enumerate() {
            ired_dev = ired_dev.max((n - rho_seg[s] * int_one).abs() / (rho_seg[s] * int_one));
        }
        if moles.len() != rho_seg.len() {
            ired_dev = f64::INFINITY;
        }
    } else {
        ired_dev = f64::INFINITY;
    }
    if let DFTSpecifications::TotalMoles { total_moles } = &*DFTSpecifications::total_moles_from_profile(&profile) {
        let e: f64 = rho_seg.iter().sum::<f64>() * int_one;
        ired_dev = ired_dev.max((total_moles - e).abs() / e);
    } else {
        ired_dev = f64::INFINITY;
    }
    let n_spec = Array1::from_vec(rho_seg.iter().map(|r| r * volume).collect());
    profile.specification = Arc::new(DFTSpecifications::Moles { moles: n_spec.clone() });
    let (_, rb, rn) = profile.residual(false).unwrap();
    let spec_moles_res = (rb.iter().fold(0.0f64, |a, b| a.max(b.abs())) / rho_max).max(rn / rho_max);
    profile.specification = Arc::new(DFTSpecifications::TotalMoles { total_moles: n_spec.sum() });
    let (_, rb, rn) = profile.residual(false).unwrap();
    let spec_total_res = (rb.iter().fold(0.0f64, |a, b| a.max(b.abs())) / rho_max).max(rn / rho_max);
    profile.specification = Arc::new(DFTSpecifications::ChemicalPotential);

    // grand potential density = -p
    let p = bulk.pressure(Contributions::Total).to_reduced();
    let p_ig = bulk.density.to_reduced() * t;
    let pscale = p.abs().max(p_ig);
    let omega = profile.grand_potential_density().unwrap().to_reduced();
    let omega_dev = omega.iter().fold(0.0f64, |a, w| a.max((w + p).abs())) / pscale;

    // adsorbed amount = rho * integral of one
    let moles = profile.moles().to_reduced();
    let mut moles_dev: f64 = 0.0;
    for (c, n) in moles.iter().enumerate() {
        moles_dev = moles_dev.max((n - pd[c] * int_one).abs() / (pd[c] * int_one));
    }
    // segment -> component aggregation (integrate_segments) on a field with a distinct constant per segment:
    // the model (UniformELC16.aggregate) says component c receives the integral of its LAST segment
    let mut tf = rho.clone();
    for (s, mut lane) in tf.outer_iter_mut().enumerate() {
        lane.fill((s + 1) as f64);
    }
    let tfq = Dimensionless::from_reduced(tf);
    let seg_int = profile.integrate_comp(&tfq).to_reduced();
    let agg = profile.integrate_segments(&tfq).to_reduced();
    let mut agg_dev: f64 = if agg.len() == pd.len() { 0.0 } else { f64::INFINITY };
    for c in 0..agg.len().min(pd.len()) {
        let expect = ci.iter().enumerate().filter(|(_, &cc)| cc == c).map(|(s, _)| seg_int[s]).last().unwrap_or(0.0);
        let expect_w = ci.iter().enumerate().filter(|(_, &cc)| cc == c).map(|(s, _)| (s + 1) as f64 * int_one).last().unwrap_or(0.0);
        agg_dev = agg_dev.max((agg[c] - expect).abs() / int_one).max((agg[c] - expect_w).abs() / (int_one * ci.len() as f64));
    }
    // excess quantities as the library computes them: Omega + p V, N - rho V
    let big_omega = profile.grand_potential().unwrap().to_reduced();
    let excess_omega = (big_omega + p * volume) / (pscale * volume);
    let ntot = profile.total_moles().to_reduced();
    let excess_n = (ntot - bulk.density.to_reduced() * volume) / (bulk.density.to_reduced() * volume);
    json!({
        "points": rho.len() / ci.len(), "segments": ci.len(), "lanczos": lanczos,
        "temperature": t, "partial_density": pd.to_vec(),
        "volume": volume, "integral_of_one": int_one,
        "init_density_dev": init_dev,
        "wd_rows": wd_rows, "wd_dev": fin(wd_dev),
        "res_max": fin(res_max), "res_log_max": fin(res_log_max), "res_bulk_max": fin(res_bulk_max),
        "res_norm_rel": fin(res_norm / rho_max),
        "pressure": p, "omega_dev": fin(omega_dev),
        "component_index": ci.to_vec(), "moles": moles.to_vec(), "agg_dev": fin(agg_dev),
        "ired_dev": fin(ired_dev), "spec_moles_res": fin(spec_moles_res), "spec_total_res": fin(spec_total_res),
        "moles_dev": fin(moles_dev), "excess_omega_rel": fin(excess_omega), "excess_n_rel": fin(excess_n),
    })
}

/// Direct test of H_conv on the real convolver of a grid, independent of any functional: synthetic weight-function
/// layouts with every block kind (local density, component-wise scalar / vector, FMT scalar / vector, in the row order
/// the convolvers use), a constant density and constant partial derivatives (a distinct constant per scalar row, 0 in
/// the vector rows).
/// Expected (bulk convolver): weighted densities = weight constants(k=0) . rho (vector rows 0), functional derivative
/// = sum over the scalar rows of constant * weight constant (vector rows contribute 0).
fn convolver_case<D>(grid: &Grid, lanczos: Option<i32>, rng: &mut Rng) -> Value
where
    D: Dimension + RemoveAxis + 'static,
    D::Larger: Dimension<Smaller = D>,
    D::Smaller: Dimension<Larger = D>,
    <D::Larger as Dimension>::Larger: Dimension<Smaller = D::Larger>,
{
    use WeightFunctionShape::*;
    let nseg = 2 + rng.below(2);
    let ci = Array1::from_shape_fn(nseg, |i| i);
    let radii = |rng: &mut Rng| Array1::from_shape_fn(nseg, |_| rng.range(1.0, 2.4));
    let scalar_shapes = [Theta, Delta, KR0, KR1];
    let mut infos: Vec<WeightFunctionInfo<f64>> = Vec::new();
    let mut layouts = Vec::new();
    for l in 0..3 {
        // layout 0: every block kind; 1, 2: random numbers of every kind (at least one vector block in layout 1)
        let local = l == 0 || rng.below(2) == 0;
        let (nsc, nvc, nsf, nvf) = if l == 0 { (2, 1, 2, 1) } else { (rng.below(3), if l == 1 { 1 + rng.below(2) } else { rng.below(2) }, 1 + rng.below(2), rng.below(2)) };
        let mut info = WeightFunctionInfo::new(ci.clone(), local);
        for _ in 0..nsc {
            info = info.add(WeightFunction::new_unscaled(radii(rng), scalar_shapes[rng.below(4)]), false);
        }
        for _ in 0..nvc {
            info = info.add(WeightFunction::new_unscaled(radii(rng), DeltaVec), false);
        }
        for _ in 0..nsf {
            info = info.add(WeightFunction::new_unscaled(radii(rng), scalar_shapes[rng.below(4)]), true);
        }
        for _ in 0..nvf {
            info = info.add(WeightFunction::new_unscaled(radii(rng), DeltaVec), true);
        }
        layouts.push(json!({"local": local, "scalar_comp": nsc, "vector_comp": nvc, "scalar_fmt": nsf, "vector_fmt": nvf}));
        infos.push(info);
    }
    let conv: Arc<dyn Convolver<f64, D>> = ConvolverFFT::plan(grid, &infos, lanczos);
    let ndim = D::NDIM.unwrap();
    let mut shape = vec![nseg];
    grid.axes().iter().for_each(|ax| shape.push(ax.grid.len()));
    let rho_c: Vec<f64> = (0..nseg).map(|_| rng.range(0.002, 0.02)).collect();
    let mut rho: Array<f64, D::Larger> = Array::zeros(shape).into_dimensionality().unwrap();
    for (s, mut lane) in rho.outer_iter_mut().enumerate() {
        lane.fill(rho_c[s]);
    }
    let rho_arr = Array1::from_vec(rho_c.clone());
    let wd = conv.weighted_densities(&rho);
    let mut wd_dev: f64 = 0.0;
    let mut pds = Vec::new();
    let mut fd_expect = Array1::<f64>::zeros(nseg);
    for (w, info) in wd.iter().zip(infos.iter()) {
        let wc = info.weight_constants(0.0, 0);
        let bulk_wd = wc.dot(&rho_arr);
        let [sc, vc, sf, vf] = info.as_slice();
        let nrows = w.shape()[0];
        let n_local = nrows - (sc.len() * nseg + vc.len() * nseg * ndim + sf.len() + vf.len() * ndim);
        // row -> Some(bulk row) for scalar rows, None for vector rows
        let mut rows: Vec<Option<usize>> = Vec::new();
        let mut j = 0;
        for _ in 0..n_local + sc.len() * nseg {
            rows.push(Some(j));
            j += 1;
        }
        for _ in 0..vc.len() * nseg * ndim {
            rows.push(None);
        }
        for _ in 0..sf.len() {
            rows.push(Some(j));
            j += 1;
        }
        for _ in 0..vf.len() * ndim {
            rows.push(None);
        }
        let scale = bulk_wd.iter().fold(0.0f64, |a, b| a.max(b.abs())).max(1e-300);
        let mut pd = Array::zeros(w.raw_dim());
        for ((row, r), mut pdrow) in w.outer_iter().zip(rows.iter()).zip(pd.outer_iter_mut()) {
            let e = r.map(|j| bulk_wd[j]).unwrap_or(0.0);
            for x in row.iter() {
                wd_dev = wd_dev.max((x - e).abs() / scale);
            }
            // vector rows: 0, as in a uniform fluid (d phi / d n_vec vanishes at n_vec = 0); a non-zero constant there is
            // not mapped to 0 by the DCT/DST convolvers (sine transform of a constant)
            let c = if r.is_some() { rng.range(0.5, 2.0) } else { 0.0 };
            pdrow.fill(c);
            if let Some(j) = r {
                for s in 0..nseg {
                    fd_expect[s] += c * wc[[*j, s]];
                }
            }
        }
        pds.push(pd);
    }
    let fd = conv.functional_derivative(&pds);
    let fscale = fd_expect.iter().fold(0.0f64, |a, b| a.max(b.abs())).max(1e-300);
    let mut fd_dev: f64 = 0.0;
    for (s, lane) in fd.outer_iter().enumerate() {
        for x in lane.iter() {
            fd_dev = fd_dev.max((x - fd_expect[s]).abs() / fscale);
        }
    }
    json!({"segments": nseg, "layouts": layouts, "lanczos": lanczos, "rho": rho_c,
           "wd_dev": fin(wd_dev), "fd_dev": fin(fd_dev), "fd_expect": fd_expect.to_vec()})
}

fn run_convolver(spec: &GridSpec, dim: usize, lanczos: Option<i32>, rng: &mut Rng) -> Value {
    let r = catch_unwind(AssertUnwindSafe(|| match dim {
        1 => convolver_case::<Ix1>(&spec.grid, lanczos, rng),
        2 => convolver_case::<Ix2>(&spec.grid, lanczos, rng),
        _ => convolver_case::<Ix3>(&spec.grid, lanczos, rng),
    }));
    match r {
        Ok(v) => v,
        Err(e) => {
            let msg = e.downcast_ref::<String>().cloned().or_else(|| e.downcast_ref::<&str>().map(|s| s.to_string())).unwrap_or_default();
            json!({"panic": msg})
        }
    }
}

fn run_uniform<F: HelmholtzEnergyFunctional>(spec: &GridSpec, dim: usize, bulk: &State<F>, lanczos: Option<i32>) -> Value {
    let g = spec.grid.clone();
    let r = catch_unwind(AssertUnwindSafe(|| match dim {
        1 => uniform_case::<Ix1, F>(g, bulk, lanczos),
        2 => uniform_case::<Ix2, F>(g, bulk, lanczos),
        _ => uniform_case::<Ix3, F>(g, bulk, lanczos),
    }));
    match r {
        Ok(v) => v,
        Err(e) => {
            let msg = e.downcast_ref::<String>().cloned().or_else(|| e.downcast_ref::<&str>().map(|s| s.to_string())).unwrap_or_default();
            json!({"panic": msg})
        }
    }
}

fn main() {
    let cli = Cli::parse("/verif/coq/gen/C16");
    let mut rng = Rng(cli.seed.wrapping_mul(0x9E3779B97F4A7C15) ^ 0xC16);
    let full = cli.full();
    // replay mode: --axis <kind> <n> <l> [<offset>] prints what the implementation does for one axis
    if let Some(pos) = cli.args.iter().position(|a| a == "--axis") {
        let kind: &'static str = match cli.args[pos + 1].as_str() { "cartesian" => "cartesian", "spherical" => "spherical", _ => "polar" };
        let n: usize = cli.args[pos + 2].parse().unwrap();
        let l: f64 = cli.args[pos + 3].parse().unwrap();
        let off = cli.args.get(pos + 4).and_then(|x| x.parse::<f64>().ok());
        let c = AxisCase { id: "R0".into(), num: 0, kind, n, l, off };
        let (_, rec) = axis_case(&c, &mut rng);
        println!("{}", serde_json::to_string_pretty(&rec).unwrap());
        return;
    }

    // ---------------- Part A: axes
    let mut cases: Vec<AxisCase> = Vec::new();
    let fixed: Vec<usize> = vec![1, 2, 3, 16, 64, 1024, 4096];
    let nrand = if full { 24 } else { 3 };
    let mut id = 0;
    let mut push = |cases: &mut Vec<AxisCase>, kind: &'static str, n: usize, l: f64, off: Option<f64>| {
        cases.push(AxisCase { id: format!("A{id}"), num: id, kind, n, l, off });
        id += 1;
    };
    for kind in ["cartesian", "spherical", "polar"] {
        let mut ns = fixed.clone();
        for _ in 0..nrand {
            ns.push(16 + rng.below(4096 - 16 + 1));
        }
        if full {
            ns.extend([4, 5, 7, 17, 255, 256, 257, 2048, 4095]);
        }
        for (i, &n) in ns.iter().enumerate() {
            let l = rng.log_range(1.0, 200.0);
            let off = if kind == "cartesian" && i % 2 == 1 { Some(rng.range(0.5, 8.0)) } else { None };
            push(&mut cases, kind, n, l, off);
        }
    }
    let mut recs = Vec::new();
    let nfiles = 16usize;
    let mut files: Vec<String> = vec![header(); nfiles];
    // polar cases are the expensive ones: spread them evenly
    let mut order: Vec<usize> = (0..cases.len()).collect();
    order.sort_by_key(|&i| (cases[i].kind != "polar", i));
    for (pos, &i) in order.iter().enumerate() {
        let c = &cases[i];
        let r = catch_unwind(AssertUnwindSafe(|| {
            let mut r2 = Rng(rng.0 ^ (i as u64).wrapping_mul(0xD1B54A32D192ED03));
            axis_case(c, &mut r2)
        }));
        match r {
            Ok((s, mut rec)) => {
                rec["file"] = json!(format!("ax_{}.v", pos % nfiles));
                files[pos % nfiles].push_str(&s);
                recs.push(rec);
            }
            Err(_) => recs.push(json!({"id": c.id, "kind": c.kind, "n": c.n, "l": c.l, "offset": c.off, "panic": true})),
        }
    }
    for (i, f) in files.iter().enumerate() {
        std::fs::write(format!("{}/ax_{}.v", cli.out, i), f).unwrap();
    }

    // ---------------- Part B: grids (volume and integral of one through the real DFTProfile)
    let specs = grid_specs(&mut rng, full);
    let fmt = fmt_functional(FMTVersion::WhiteBear, &[3.2]);
    let bulk_fmt = bulk_state(&fmt, 300.0, &[0.02]);
    let mut grid_recs = Vec::new();
    let mut grid_files = Vec::new();
    for (spec, dim) in &specs {
        let r = run_uniform(spec, *dim, &bulk_fmt, None);
        let mut rec = json!({"name": spec.name, "model": spec.model, "dim": dim, "result": r.clone()});
        if let (Some(v), Some(i1)) = (r["volume"].as_f64(), r["integral_of_one"].as_f64()) {
            let mut gs = header();
            writeln!(gs, "Lemma G_{}_volume : Rabs (grid_volume {} - {}) <= {}.\nProof. rewrite {} by c16_le. c16_norm. interval with (i_prec 80). Qed.",
                spec.name, spec.model, rq(v), tol(v), spec.lemma).unwrap();
            writeln!(gs, "Lemma G_{}_integral : Rabs (integrate {} (fun _ => 1) - {}) <= {}.\nProof. rewrite <- constructed_grid_volume by (repeat constructor; c16_le). rewrite {} by c16_le. c16_norm. interval with (i_prec 80). Qed.",
                spec.name, spec.model, rq(i1), tol(i1), spec.lemma).unwrap();
            let fname = format!("grid_{}.v", spec.name);
            std::fs::write(format!("{}/{}", cli.out, fname), gs).unwrap();
            rec["file"] = json!(fname);
            rec["goals"] = json!(2);
            grid_files.push(fname);
        }
        grid_recs.push(rec);
    }

    // ---------------- Part C0: H_conv directly on the real convolvers (synthetic weight-function layouts)
    let mut conv_recs = Vec::new();
    for (k, (spec, dim)) in specs.iter().enumerate() {
        for rep in 0..(if full { 3 } else { 2 }) {
            let lanczos = if (k + rep) % 2 == 0 { None } else { Some(1) };
            let mut r2 = Rng(rng.0 ^ ((k * 7 + rep) as u64).wrapping_mul(0xA24BAED4963EE407));
            let r = run_convolver(spec, *dim, lanczos, &mut r2);
            conv_recs.push(json!({"grid": spec.name, "model": spec.model, "dim": dim, "result": r}));
        }
    }

    // ---------------- Part C: support run of H_conv on the real convolvers
    let mut uni = Vec::new();
    let mut add = |label: &str, f: &mut dyn FnMut(&GridSpec, usize, Option<i32>) -> Value| {
        for (k, (spec, dim)) in specs.iter().enumerate() {
            // 3D grids only for the first functionals in the quick tier (cost)
            let lanczos = if k % 2 == 0 { None } else { Some(1) };
            let r = f(spec, *dim, lanczos);
            uni.push(json!({"functional": label, "grid": spec.name, "dim": dim, "result": r}));
        }
    };
    let t_pets = rng.range(80.0, 160.0);
    let rho_fmt = rng.range(0.005, 0.025);
    {
        let b = bulk_state(&fmt, 300.0, &[rho_fmt]);
        add("FMT WhiteBear sigma=3.2", &mut |s, d, l| run_uniform(s, d, &b, l));
    }
    {
        let f = fmt_functional(FMTVersion::KierlikRosinberg, &[3.0, 4.1]);
        let b = bulk_state(&f, 300.0, &[rng.range(0.002, 0.008), rng.range(0.002, 0.006)]);
        add("FMT KierlikRosinberg binary", &mut |s, d, l| run_uniform(s, d, &b, l));
    }
    {
        let f = fmt_functional(FMTVersion::AntiSymWhiteBear, &[3.5]);
        let b = bulk_state(&f, 300.0, &[rng.range(0.004, 0.016)]);
        add("FMT AntiSymWhiteBear", &mut |s, d, l| run_uniform(s, d, &b, l));
    }
    {
        let f = pets_functional();
        let b = bulk_state(&f, t_pets, &[rng.range(0.001, 0.02)]);
        add("PeTS argon-like", &mut |s, d, l| run_uniform(s, d, &b, l));
    }
    {
        let f = pcsaft_functional(&["propane"], "gross2001.json", None);
        let b = bulk_state(&f, rng.range(200.0, 400.0), &[rng.range(0.0005, 0.009)]);
        add("PC-SAFT propane", &mut |s, d, l| run_uniform(s, d, &b, l));
    }
    {
        let f = pcsaft_functional(&["propane", "butane"], "gross2001.json", Some(FMTVersion::KierlikRosinberg));
        let b = bulk_state(&f, rng.range(250.0, 400.0), &[rng.range(0.0005, 0.004), rng.range(0.0005, 0.003)]);
        add("PC-SAFT propane/butane (KR)", &mut |s, d, l| run_uniform(s, d, &b, l));
    }
    if full {
        let f = pcsaft_functional(&["water"], "gross2002.json", None);
        let b = bulk_state(&f, rng.range(300.0, 500.0), &[rng.range(0.001, 0.03)]);
        add("PC-SAFT water (association)", &mut |s, d, l| run_uniform(s, d, &b, l));
    }
    {
        let f = gc_functional(&["propane"]);
        let b = bulk_state(&f, rng.range(200.0, 400.0), &[rng.range(0.0005, 0.008)]);
        add("gc-PC-SAFT propane (heterosegmented)", &mut |s, d, l| run_uniform(s, d, &b, l));
    }
    if full {
        let p = feos::saftvrqmie::SaftVRQMieParameters::from_json(
            vec!["hydrogen"], format!("{}/saftvrqmie/aasen2019.json", params()), None, IdentifierOption::Name).unwrap();
        let f = Arc::new(feos::saftvrqmie::SaftVRQMieFunctional::new(Arc::new(p)));
        let b = bulk_state(&f, rng.range(25.0, 80.0), &[rng.range(0.001, 0.02)]);
        add("SAFT-VRQ Mie hydrogen", &mut |s, d, l| run_uniform(s, d, &b, l));
    }
    {
        // heterosegmented MIXTURES: non-equimolar, components with different numbers of segments
        let f = gc_functional(&["propane", "butane"]);
        let b = bulk_state(&f, rng.range(250.0, 400.0), &[rng.range(0.0003, 0.002), rng.range(0.002, 0.005)]);
        add("gc-PC-SAFT propane/butane (hetero mixture)", &mut |s, d, l| run_uniform(s, d, &b, l));
    }
    {
        let f = gc_functional(&["pentane", "ethane", "isobutane"]);
        let b = bulk_state(&f, rng.range(250.0, 400.0), &[rng.range(0.0002, 0.001), rng.range(0.002, 0.004), rng.range(0.001, 0.002)]);
        add("gc-PC-SAFT pentane/ethane/isobutane (hetero mixture)", &mut |s, d, l| run_uniform(s, d, &b, l));
    }
    {
        // associating functionals (mixture form of the association contribution: component-wise vector weighted
        // densities followed by further rows)
        let f = pcsaft_functional(&["water"], "gross2002.json", Some(FMTVersion::KierlikRosinberg));
        let b = bulk_state(&f, rng.range(300.0, 500.0), &[rng.range(0.001, 0.03)]);
        add("PC-SAFT water (association, KR)", &mut |s, d, l| run_uniform(s, d, &b, l));
    }
    {
        let f = pcsaft_functional(&["methanol", "water"], "gross2002.json", None);
        let b = bulk_state(&f, rng.range(300.0, 500.0), &[rng.range(0.001, 0.008), rng.range(0.002, 0.02)]);
        add("PC-SAFT methanol/water (cross association)", &mut |s, d, l| run_uniform(s, d, &b, l));
    }
    {
        let f = gc_functional(&["ethanol", "hexane"]);
        let b = bulk_state(&f, rng.range(300.0, 450.0), &[rng.range(0.002, 0.006), rng.range(0.0003, 0.001)]);
        add("gc-PC-SAFT ethanol/hexane (hetero mixture, association)", &mut |s, d, l| run_uniform(s, d, &b, l));
    }
    let _ = arr1(&[0.0]);

    cli.write_impl(&json!({
        "rtol": RTOL,
        "axes": recs,
        "axis_files": (0..nfiles).map(|i| format!("ax_{i}.v")).collect::<Vec<_>>(),
        "grids": grid_recs,
        "grid_files": grid_files,
        "uniform": uni,
        "convolver": conv_recs,
    }));
}
