//! C09 — invariance under relabelling, padding, splitting and taking subsets of components.
//! Cases are pairs (model A at state s, model B at state f(s)) that must denote the same Helmholtz energy:
//!  * subset:  A = M_opts.subset(idx), B = M(records[idx], opts)            — expected: identical programs (proof) and equal max density
//!  * permute: A = M(records, k_ij), B = M(pi records, pi k_ij), f = pi      — verified enclosures incl. permuted first derivatives
//!  * pad:     A = M(records[0..n]), B = M(records[0..n+1]) with N_{n+1} = 0 — enclosures of value and derivatives w.r.t. T, V, N_1..N_n
//!  * split:   A = M(records), B = M(records with component i duplicated), N_i = N_i' + N_i''
use feos::pcsaft::{PcSaft, PcSaftOptions, PcSaftParameters};
use feos::pets::{Pets, PetsOptions, PetsParameters};
use feos::saftvrmie::{SaftVRMie, SaftVRMieOptions, SaftVRMieParameters};
use feos_core::cubic::{PengRobinson, PengRobinsonParameters};
use feos_core::parameter::{IdentifierOption, Parameter};
use feos_core::{Components, Residual};
use feos_verif::configs::{self, params, RState, Rng};
use feos_verif::emit;
use feos_verif::prog::{compare, Prog};
use feos_verif::trace;
use ndarray::{Array1, Array2};
use serde_json::{json, Value};
use std::sync::Arc;

type Tracer = Box<dyn Fn(&RState) -> Prog>;
type Evalf = Box<dyn Fn(&RState) -> f64>;
type MaxRho = Box<dyn Fn(&[f64]) -> f64>;
type Contribs = Box<dyn Fn(&RState) -> Vec<(String, f64)>>;

struct Case {
    name: String,
    kind: &'static str,
    expect_identical: bool,
    ncomp_a: usize,
    t_scale: f64,
    /// map a state of A to the state of B
    map: Box<dyn Fn(&RState, &mut Rng) -> RState>,
    /// directions (variable indices) of A and the corresponding directions of B whose first derivatives must agree
    dirs: Vec<(usize, usize)>,
    a: Tracer,
    b: Tracer,
    fa: Evalf,
    fb: Evalf,
    rho_a: MaxRho,
    rho_b: MaxRho,
    /// the named contributions (beta A) in plain f64: a failure of the f64 comparison reports which contributions differ
    ca: Contribs,
    cb: Contribs,
    /// for the AC-canonicaliser (Canon.v): number of shared state variables, the selections of them that are the variables
    /// of A and of B, and which shared variables are literally zero
    canon: Option<(usize, Vec<usize>, Vec<usize>, Vec<bool>)>,
    /// compared in plain f64 only (quick tier, configurations whose programs are too large for the per-change check)
    oracle_only: bool,
}

fn tracer<R: Residual + 'static>(m: Arc<R>) -> Tracer {
    Box::new(move |s| trace::trace_residual(m.as_ref(), s))
}
fn evalf<R: Residual + 'static>(m: Arc<R>) -> Evalf {
    // a panic of the code under test (e.g. an index out of bounds for a sub-model) is a result (NaN), not a crash of the check
    Box::new(move |s| std::panic::catch_unwind(std::panic::AssertUnwindSafe(|| *trace::eval_f64(m.as_ref(), s).last().unwrap())).unwrap_or(f64::NAN))
}
fn contribs<R: Residual + 'static>(m: Arc<R>) -> Contribs {
    Box::new(move |s| {
        std::panic::catch_unwind(std::panic::AssertUnwindSafe(|| {
            let sh = feos_core::StateHD::new(s.t, s.v, Array1::from_vec(s.n.clone()));
            m.residual_helmholtz_energy_contributions(&sh)
        }))
        .unwrap_or_else(|_| vec![("(panic)".to_string(), f64::NAN)])
    })
}
fn maxrho<R: Residual + 'static>(m: Arc<R>) -> MaxRho {
    Box::new(move |n| m.compute_max_density(&Array1::from_vec(n.to_vec())))
}

#[allow(clippy::too_many_arguments)]
fn case<A: Residual + 'static, B: Residual + 'static>(
    name: &str,
    kind: &'static str,
    ident: bool,
    ncomp_a: usize,
    t_scale: f64,
    a: A,
    b: B,
    map: Box<dyn Fn(&RState, &mut Rng) -> RState>,
    dirs: Vec<(usize, usize)>,
) -> Case {
    let (a, b) = (Arc::new(a), Arc::new(b));
    Case {
        name: name.into(),
        kind,
        expect_identical: ident,
        ncomp_a,
        t_scale,
        map,
        dirs,
        a: tracer(a.clone()),
        b: tracer(b.clone()),
        fa: evalf(a.clone()),
        fb: evalf(b.clone()),
        ca: contribs(a.clone()),
        cb: contribs(b.clone()),
        rho_a: maxrho(a),
        rho_b: maxrho(b),
        canon: None,
        oracle_only: false,
    }
}

fn same_state() -> Box<dyn Fn(&RState, &mut Rng) -> RState> {
    Box::new(|s, _| s.clone())
}
fn all_dirs(n: usize) -> Vec<(usize, usize)> {
    (0..n + 2).map(|i| (i, i)).collect()
}

fn pcsaft_from(names: &[&str], file: &str, kij: f64) -> PcSaftParameters {
    let p = configs::pcsaft_params(names, file, None);
    if names.len() > 1 && kij != 0.0 {
        // distinct k_ij per pair so that index slips show
        let (pure, _) = p.records();
        let n = pure.len();
        let mut k = Array2::from_elem((n, n), feos::pcsaft::PcSaftBinaryRecord::new(Some(0.0), None, None));
        for i in 0..n {
            for j in 0..n {
                if i != j {
                    k[[i, j]] = feos::pcsaft::PcSaftBinaryRecord::new(Some(kij * (1 + i.min(j) + 2 * i.max(j)) as f64), None, None);
                }
            }
        }
        PcSaftParameters::from_records(pure.to_vec(), Some(k)).unwrap()
    } else {
        p
    }
}

/// the PC-SAFT parameter set of the components `idx` of `names`, read in that order from the file, with the k_ij of
/// [`pcsaft_from`] evaluated at the ORIGINAL indices — built without `Parameter::subset`
fn pcsaft_from_idx(names: &[&str], idx: &[usize], file: &str, kij: f64) -> PcSaftParameters {
    let sel: Vec<&str> = idx.iter().map(|&i| names[i]).collect();
    let p = configs::pcsaft_params(&sel, file, None);
    if idx.len() > 1 && kij != 0.0 {
        let (pure, _) = p.records();
        let n = idx.len();
        let mut k = Array2::from_elem((n, n), feos::pcsaft::PcSaftBinaryRecord::new(Some(0.0), None, None));
        for a in 0..n {
            for b in 0..n {
                if a != b {
                    let (i, j) = (idx[a], idx[b]);
                    k[[a, b]] = feos::pcsaft::PcSaftBinaryRecord::new(Some(kij * (1 + i.min(j) + 2 * i.max(j)) as f64), None, None);
                }
            }
        }
        PcSaftParameters::from_records(pure.to_vec(), Some(k)).unwrap()
    } else {
        p
    }
}

/// permute records and binary matrix of a PC-SAFT parameter set
fn pcsaft_permuted(p: &PcSaftParameters, perm: &[usize]) -> PcSaftParameters {
    let (pure, bin) = p.records();
    let recs: Vec<_> = perm.iter().map(|&i| pure[i].clone()).collect();
    let b = bin.as_ref().map(|b| Array2::from_shape_fn((perm.len(), perm.len()), |(i, j)| b[[perm[i], perm[j]]].clone()));
    PcSaftParameters::from_records(recs, b).unwrap()
}

fn cases(full: bool) -> Vec<Case> {
    let mut v = Vec::new();
    // ---------- subset with non-default options.  The "direct" member is built from the records of the chosen components
    // WITHOUT `Parameter::subset` / `Parameter::records` (names re-read from the JSON file in the order of `idx`, literal
    // records and the k_ij formula evaluated at the original indices), so that a defect in those shared routines shows.
    {
        let names = ["propane", "butane", "hexane", "decane"];
        let p = Arc::new(pcsaft_from(&names, "gross2001.json", 0.01));
        let opts = PcSaftOptions { max_eta: 0.45, max_iter_cross_assoc: 60, tol_cross_assoc: 1e-11, ..Default::default() };
        let m = PcSaft::with_options(p.clone(), opts);
        for idx in [vec![2usize, 0], vec![1, 3, 0], vec![3]] {
            let sub = m.subset(&idx);
            let direct = PcSaft::with_options(Arc::new(pcsaft_from_idx(&names, &idx, "gross2001.json", 0.01)), opts);
            v.push(case(&format!("subset_pcsaft_{}", idx.iter().map(|i| i.to_string()).collect::<Vec<_>>().join("")),
                "subset", true, idx.len(), 450.0, sub, direct, same_state(), all_dirs(idx.len())));
        }
        let wnames = ["water", "methanol", "ethanol"];
        let pw = Arc::new(configs::pcsaft_params(&wnames, "gross2002.json", None));
        let mw = PcSaft::with_options(pw.clone(), opts);
        let idx = vec![2usize, 0];
        let sel: Vec<&str> = idx.iter().map(|&i| wnames[i]).collect();
        v.push(case("subset_pcsaft_assoc_20", "subset", true, 2, 600.0, mw.subset(&idx),
            PcSaft::with_options(Arc::new(configs::pcsaft_params(&sel, "gross2002.json", None)), opts), same_state(), all_dirs(2)));
    }
    {
        let names = ["ethane", "n-butane", "decane"];
        let load = |n: Vec<&str>| SaftVRMieParameters::from_json(n, format!("{}/saftvrmie/lafitte2013.json", params()), None, IdentifierOption::Name).unwrap();
        let p = Arc::new(load(names.to_vec()));
        let opts = SaftVRMieOptions { max_eta: 0.4, max_iter_cross_assoc: 60, tol_cross_assoc: 1e-11 };
        let m = SaftVRMie::with_options(p.clone(), opts);
        let idx = vec![2usize, 0];
        v.push(case("subset_saftvrmie_20", "subset", true, 2, 400.0, m.subset(&idx),
            SaftVRMie::with_options(Arc::new(load(idx.iter().map(|&i| names[i]).collect())), opts), same_state(), all_dirs(2)));
    }
    {
        let pr = configs::peng_robinson(3);
        let idx = vec![2usize, 0];
        v.push(case("subset_pr_20", "subset", true, 2, 430.0, pr.subset(&idx), PengRobinson::new(Arc::new(configs::peng_robinson_params_idx(&idx))), same_state(), all_dirs(2)));
    }
    {
        let opts = PetsOptions { max_eta: 0.45 };
        let pp: Arc<PetsParameters> = Arc::new(configs::pets_params(3));
        let m = Pets::with_options(pp.clone(), opts);
        let idx = vec![2usize, 1];
        v.push(case("subset_pets_21", "subset", true, 2, 200.0, m.subset(&idx), Pets::with_options(Arc::new(configs::pets_params_idx(&idx)), opts), same_state(), all_dirs(2)));
    }
    {
        // uv-theory with a non-default perturbation and packing-fraction limit
        use feos::uvtheory::Perturbation;
        for (nm, pert) in [("bh", Perturbation::BarkerHenderson), ("b3", Perturbation::WeeksChandlerAndersenB3)] {
            let m = configs::uvtheory_idx(&[0, 1], pert.clone(), 0.45);
            for idx in [vec![1usize, 0], vec![1]] {
                if nm == "b3" && idx.len() > 1 {
                    continue; // B3 is a pure-component variant
                }
                v.push(case(&format!("subset_uv_{nm}_{}", idx.iter().map(|i| i.to_string()).collect::<Vec<_>>().join("")),
                    "subset", true, idx.len(), 200.0, m.subset(&idx), configs::uvtheory_idx(&idx, pert.clone(), 0.45), same_state(), all_dirs(idx.len())));
            }
        }
    }
    // ---------- permutation
    let perm_case = |name: &str, p: PcSaftParameters, perm: Vec<usize>, t_scale: f64| -> Case {
        let n = perm.len();
        let q = pcsaft_permuted(&p, &perm);
        let pm = perm.clone();
        let map = Box::new(move |s: &RState, _: &mut Rng| RState { t: s.t, v: s.v, n: pm.iter().map(|&i| s.n[i]).collect() });
        // direction j of B (component j of the permuted model) is component perm[j] of A
        let mut dirs = vec![(0, 0), (1, 1)];
        for (j, &i) in perm.iter().enumerate() {
            dirs.push((2 + i, 2 + j));
        }
        let mut c = case(name, "permute", false, n, t_scale, PcSaft::new(Arc::new(p)), PcSaft::new(Arc::new(q)), map, dirs);
        let mut sel_b = vec![0, 1];
        sel_b.extend(perm.iter().map(|&i| 2 + i));
        c.canon = Some((n + 2, (0..n + 2).collect(), sel_b, vec![false; n + 2]));
        c
    };
    v.push(perm_case("permute_pcsaft_alkanes_kij", pcsaft_from(&["propane", "hexane", "decane"], "gross2001.json", 0.01), vec![2, 0, 1], 500.0));
    v.push(perm_case("permute_pcsaft_water_methanol", configs::pcsaft_params(&["water", "methanol"], "gross2002.json", None), vec![1, 0], 600.0));
    v.push(perm_case("permute_pcsaft_acetone_co2", configs::pcsaft_multi(&[(&["acetone"], "gross2006.json"), (&["carbon dioxide"], "gross2005_fit.json")], None), vec![1, 0], 400.0));
    if full {
        v.push(perm_case("permute_pcsaft_assoc3", configs::pcsaft_params(&["water", "methanol", "ethanol"], "gross2002.json", None), vec![1, 2, 0], 600.0));
    }
    // ---------- zero-mole padding
    let pad_case = |name: &str, small: PcSaftParameters, big: PcSaftParameters, t_scale: f64| -> Case {
        let n = small.m.len();
        let map = Box::new(|s: &RState, _: &mut Rng| {
            let mut m = s.n.clone();
            m.push(0.0);
            RState { t: s.t, v: s.v, n: m }
        });
        let mut c = case(name, "pad", false, n, t_scale, PcSaft::new(Arc::new(small)), PcSaft::new(Arc::new(big)), map, all_dirs(n));
        let mut zs = vec![false; n + 3];
        zs[n + 2] = true;
        c.canon = Some((n + 3, (0..n + 2).collect(), (0..n + 3).collect(), zs));
        c
    };
    v.push(pad_case("pad_pcsaft_alkanes", pcsaft_from(&["propane", "butane"], "gross2001.json", 0.0), pcsaft_from(&["propane", "butane", "decane"], "gross2001.json", 0.0), 400.0));
    v.push(pad_case("pad_pcsaft_water_plus_methanol", configs::pcsaft_params(&["water"], "gross2002.json", None), configs::pcsaft_params(&["water", "methanol"], "gross2002.json", None), 600.0));
    v.push(pad_case("pad_pcsaft_propane_plus_acetone",
        configs::pcsaft_params(&["propane"], "gross2001.json", None),
        configs::pcsaft_multi(&[(&["propane"], "gross2001.json"), (&["acetone"], "gross2006.json")], None), 400.0));
    // ---------- generic: every mixture configuration of the shared list, through `subset` (itself decided above):
    //   permutation  M  vs  M.subset(rotation),   padding  M.subset(all but one)  vs  M with that mole number zero
    for cfg in configs::all(true).into_iter().chain(configs::literal()).filter(|c| c.ncomp >= 2) {
        let n = cfg.ncomp;
        // non-core configurations (large programs): the quick tier compares them in plain f64 only
        // ... and so does it for the cross-associating mixtures (largest programs; the canonicaliser cannot decide them because of
        // the pivoting inside the iterative solver; the hand-built water/methanol cases keep the enclosure comparison in the quick tier)
        let iterative = ["pcsaft_water_methanol", "gcpcsaft_propanol_ethanol", "saftvrmie_methanol_ethanol"].contains(&cfg.name.as_str());
        let oracle_only = !full && (!cfg.core || iterative);
        let id: Vec<usize> = (0..n).collect();
        let perm: Vec<usize> = (0..n).map(|j| (j + 1) % n).collect();
        {
            let pm = perm.clone();
            let map = Box::new(move |s: &RState, _: &mut Rng| RState { t: s.t, v: s.v, n: pm.iter().map(|&i| s.n[i]).collect() });
            // quick tier: value only (the canonicaliser decides most of these pairs for all states anyway)
            let mut dirs = if full { vec![(0, 0), (1, 1)] } else { vec![] };
            for (j, &i) in perm.iter().enumerate().filter(|_| full) {
                dirs.push((2 + i, 2 + j));
            }
            let mut c = case(&format!("gperm_{}", cfg.name), "permute", false, n, cfg.t_scale, cfg.model.subset(&id), cfg.model.subset(&perm), map, dirs);
            let mut sel_b = vec![0, 1];
            sel_b.extend(perm.iter().map(|&i| 2 + i));
            c.canon = Some((n + 2, (0..n + 2).collect(), sel_b, vec![false; n + 2]));
            c.oracle_only = oracle_only;
            v.push(c);
        }
        for drop in [n - 1, 0] {
            let keep: Vec<usize> = (0..n).filter(|&i| i != drop).collect();
            let kp = keep.clone();
            let map = Box::new(move |s: &RState, _: &mut Rng| {
                let mut m = vec![0.0; kp.len() + 1];
                for (j, &i) in kp.iter().enumerate() {
                    m[i] = s.n[j];
                }
                RState { t: s.t, v: s.v, n: m }
            });
            let mut dirs = if full { vec![(0, 0), (1, 1)] } else { vec![] };
            for (j, &i) in keep.iter().enumerate().filter(|_| full) {
                dirs.push((2 + j, 2 + i));
            }
            let mut c = case(&format!("gpad{}_{}", drop, cfg.name), "pad", false, n - 1, cfg.t_scale, cfg.model.subset(&keep), cfg.model.subset(&id), map, dirs);
            let mut zs = vec![false; n + 2];
            zs[2 + drop] = true;
            let mut sel_a = vec![0, 1];
            sel_a.extend(keep.iter().map(|&i| 2 + i));
            c.canon = Some((n + 2, sel_a, (0..n + 2).collect(), zs));
            c.oracle_only = oracle_only;
            v.push(c);
        }
    }
    // ---------- generic splitting: every configuration with component i listed twice (`subset` with a repeated index duplicates the record and
    //   the rows/columns of the binary matrix), N_i = N_i' + N_i''; compared in plain f64 (labelled test)
    for cfg in configs::all(true).into_iter().chain(configs::literal()) {
        let n = cfg.ncomp;
        let id: Vec<usize> = (0..n).collect();
        for i in if n > 1 { vec![0, n - 1] } else { vec![0] } {
            let mut idx = id.clone();
            idx.push(i);
            let map = Box::new(move |s: &RState, rng: &mut Rng| {
                let f = rng.range(0.1, 0.9);
                let mut m = s.n.clone();
                m.push(s.n[i] * (1.0 - f));
                m[i] = s.n[i] * f;
                RState { t: s.t, v: s.v, n: m }
            });
            let mut c = case(&format!("gsplit{}_{}", i, cfg.name), "split", false, n, cfg.t_scale, cfg.model.subset(&id), cfg.model.subset(&idx), map, vec![]);
            c.oracle_only = true;
            v.push(c);
        }
    }
    // ---------- homosegmented group-contribution set: the molecules listed in the other order (binary segment records written in
    // one orientation only, so that one of the two orders meets them reversed)
    {
        use feos::pcsaft::PcSaftRecord;
        use feos_core::parameter::{BinaryRecord, ChemicalRecord, Identifier, SegmentRecord};
        let segs: [(&str, f64, f64, f64, f64); 3] =
            [("CH3", 0.61198, 3.7202, 229.90, 15.035), ("CH2", 0.45606, 3.8900, 239.01, 14.027), ("OH", 0.40200, 3.2859, 488.66, 17.007)];
        let mols: [&[&str]; 2] = [&["CH3", "CH2", "CH2", "OH"], &["CH3", "CH2", "CH2", "CH3"]];
        let kseg: [(&str, &str, f64); 2] = [("OH", "CH3", 0.04), ("OH", "CH2", -0.03)];
        let build = |order: [usize; 2]| {
            let simple = |m: f64, s: f64, e: f64| PcSaftRecord::new(m, s, e, None, None, None, None, None, None, None, None, None, None);
            let seg_records: Vec<_> = segs.iter().map(|&(id, m, s, e, mw)| SegmentRecord::new(id.to_string(), mw, simple(m, s, e))).collect();
            let chem: Vec<_> = order.iter().map(|&i| ChemicalRecord::new(Identifier::default(), mols[i].iter().map(|s| s.to_string()).collect(), None)).collect();
            let bin: Vec<_> = kseg.iter().map(|&(a, b, k)| BinaryRecord::new(a.to_string(), b.to_string(), k)).collect();
            PcSaft::new(Arc::new(PcSaftParameters::from_segments(chem, seg_records, Some(bin)).unwrap()))
        };
        let map = Box::new(|s: &RState, _: &mut Rng| RState { t: s.t, v: s.v, n: vec![s.n[1], s.n[0]] });
        let mut c = case("permute_gc_homosegmented", "permute", false, 2, 480.0, build([0, 1]), build([1, 0]), map, vec![(0, 0), (1, 1), (2, 3), (3, 2)]);
        c.canon = Some((4, vec![0, 1, 2, 3], vec![0, 1, 3, 2], vec![false; 4]));
        v.push(c);
    }
    // ---------- Helmholtz energy functionals used as bulk models: pure-component fast path vs the mixture path with a second component
    // at zero moles (dipolar chain with m > 2; associating; with every FMT version in the thorough tier)
    {
        use feos::hard_sphere::FMTVersion;
        use feos::pcsaft::PcSaftFunctional;
        use feos_core::parameter::Parameter;
        let inert = configs::pcsaft_params(&["propane"], "gross2001.json", None);
        for (nm, lit) in [("dipole_m_gt_2", configs::pcsaft_literal("dipole_m_gt_2")), ("quadrupole_m_gt_2", configs::pcsaft_literal("quadrupole_m_gt_2")),
                          ("water", configs::pcsaft_params(&["water"], "gross2002.json", None))] {
            let (p1, _) = lit.records();
            let (p2, _) = inert.records();
            let single = || PcSaftParameters::from_records(vec![p1[0].clone()], None).unwrap();
            let both = || PcSaftParameters::from_records(vec![p1[0].clone(), p2[0].clone()], None).unwrap();
            let vers: Vec<(&str, FMTVersion)> = if full { vec![("wb", FMTVersion::WhiteBear), ("aswb", FMTVersion::AntiSymWhiteBear), ("kr", FMTVersion::KierlikRosinberg)] } else { vec![("wb", FMTVersion::WhiteBear)] };
            for (vn, ver) in vers {
                let map = Box::new(|s: &RState, _: &mut Rng| RState { t: s.t, v: s.v, n: vec![s.n[0], 0.0] });
                let mut c = case(&format!("pad_functional_{vn}_{nm}"), "pad", false, 1, 500.0,
                    PcSaftFunctional::new_full(Arc::new(single()), ver), PcSaftFunctional::new_full(Arc::new(both()), ver), map, vec![]);
                // values only: the derivative PROGRAM of the mixture functional is not defined at a partial density of exactly zero
                // (the real dual-number code is: it takes the branches recorded in the trace)
                c.canon = Some((4, vec![0, 1, 2], vec![0, 1, 2, 3], vec![false, false, false, true]));
                v.push(c);
            }
        }
    }
    // ---------- splitting one component into two identical ones
    let split_case = |name: &str, p: PcSaftParameters, i: usize, t_scale: f64| -> Case {
        let n = p.m.len();
        let mut perm: Vec<usize> = (0..n).collect();
        perm.push(i);
        let q = pcsaft_permuted(&p, &perm);
        let map = Box::new(move |s: &RState, rng: &mut Rng| {
            let f = rng.range(0.1, 0.9);
            let mut m = s.n.clone();
            m.push(s.n[i] * (1.0 - f));
            m[i] = s.n[i] * f;
            RState { t: s.t, v: s.v, n: m }
        });
        // T and V derivatives, and derivatives w.r.t. the unsplit components
        let mut dirs = vec![(0, 0), (1, 1)];
        for j in 0..n {
            if j != i {
                dirs.push((2 + j, 2 + j));
            }
        }
        case(name, "split", false, n, t_scale, PcSaft::new(Arc::new(p)), PcSaft::new(Arc::new(q)), map, dirs)
    };
    v.push(split_case("split_pcsaft_alkanes_kij", pcsaft_from(&["propane", "hexane"], "gross2001.json", 0.01), 1, 450.0));
    v.push(split_case("split_pcsaft_water_methanol", configs::pcsaft_params(&["water", "methanol"], "gross2002.json", None), 0, 600.0));
    if full {
        v.push(split_case("split_pcsaft_acetone_butanone", configs::pcsaft_params(&["acetone", "butanone"], "gross2006.json", None), 0, 520.0));
    }
    v
}

const BODY: &str = r#"
Open Scope list_scope.
Definition A_n := (NVA + List.length A_consts)%nat.
Definition B_n := (NVB + List.length B_consts)%nat.
Definition A_u (k : nat) : list (Z * Z) := map (fun j => if Nat.eqb j k then (1, 0)%Z else (0, 0)%Z) (seq 0 A_n).
Definition B_u (k : nat) : list (Z * Z) := map (fun j => if Nat.eqb j k then (1, 0)%Z else (0, 0)%Z) (seq 0 B_n).
Eval vm_compute in ("SAME", "P", prog_eqb A_prog B_prog).
Eval vm_compute in ("EA0", "P", map (fun st => ib_out (nth 0 (evalIB PREC A_prog st) IB.nai)) A_inputs).
Eval vm_compute in ("EB0", "P", map (fun st => ib_out (nth 0 (evalIB PREC B_prog st) IB.nai)) B_inputs).
Eval vm_compute in ("EA1", "P", let d := tan_outs A_prog A_n [0%nat] in map (fun st => map (fun i => ib_out (nth 0 (evalIB PREC d (st ++ A_u i)) IB.nai)) DIRSA) A_inputs).
Eval vm_compute in ("EB1", "P", let d := tan_outs B_prog B_n [0%nat] in map (fun st => map (fun i => ib_out (nth 0 (evalIB PREC d (st ++ B_u i)) IB.nai)) DIRSB) B_inputs).
"#;


/// Quantities that mixture algorithms derive for pure components / solvents (labelled tests at the implementation level):
/// for a family of models `build(idx)` (the model of the original components `idx`, in that order, built directly from records)
/// every permutation of three components must give the same Henry constants, pure-component vapor pressures, critical points,
/// pure-liquid fugacity coefficients and activity coefficients (re-indexed), and each of them must be the value of the pure /
/// binary model built directly.
fn derived_family<R: Residual + 'static>(fam: &str, build: &dyn Fn(&[usize]) -> Arc<R>, t_h: f64, t_act: f64, p_act: f64, fails: &mut Vec<Value>, count: &mut usize) {
    use feos_core::{Contributions, DensityInitialization, PhaseEquilibrium, ReferenceSystem, SolverOptions, State};
    use quantity::{Moles, Pressure, Temperature};
    let perms: [[usize; 3]; 6] = [[0, 1, 2], [0, 2, 1], [1, 0, 2], [1, 2, 0], [2, 0, 1], [2, 1, 0]];
    let close = |a: f64, b: f64, tol: f64| (a - b).abs() <= tol * a.abs().max(b.abs()).max(1e-300);
    let t = Temperature::from_reduced(t_h);
    // reference values from directly built pure / binary models
    let psat: Vec<Option<f64>> = (0..3)
        .map(|i| PhaseEquilibrium::pure(&build(&[i]), t, None, SolverOptions::default()).ok().map(|v| v.vapor().pressure(Contributions::Total).to_reduced()))
        .collect();
    let tc: Vec<Option<f64>> = (0..3).map(|i| State::critical_point(&build(&[i]), None, None, SolverOptions::default()).ok().map(|s| s.temperature.to_reduced())).collect();
    for perm in perms.iter() {
        let m = build(perm);
        // pure-component vapor pressures and critical temperatures inside the mixture model
        let vp = PhaseEquilibrium::vapor_pressure(&m, t);
        for a in 0..3 {
            *count += 1;
            let got = vp[a].map(|p| p.to_reduced());
            let want = psat[perm[a]];
            let ok = match (got, want) { (Some(x), Some(y)) => close(x, y, 1e-7), (None, None) => true, _ => false };
            if !ok {
                fails.push(json!({"family": fam, "quantity": "PhaseEquilibrium::vapor_pressure", "order": perm, "position": a, "got": got, "pure_model": want, "T": t_h}));
            }
        }
        if let Ok(cps) = State::critical_point_pure(&m, None, SolverOptions::default()) {
            for a in 0..3 {
                *count += 1;
                let got = cps[a].temperature.to_reduced();
                if let Some(want) = tc[perm[a]] {
                    if !close(got, want, 1e-6) {
                        fails.push(json!({"family": fam, "quantity": "State::critical_point_pure", "order": perm, "position": a, "got": got, "pure_model": want}));
                    }
                }
            }
        }
        // Henry constants: mixed solvent (one solute) and pure solvent (two solutes), compared with the identity order / the binary model
        for solute in 0..3 {
            let mut x_orig = [0.4, 0.6, 0.0];
            // place the zero at `solute`, keep the 0.4/0.6 of the two solvents in ascending original order
            let solv: Vec<usize> = (0..3).filter(|&i| i != solute).collect();
            x_orig[solute] = 0.0; x_orig[solv[0]] = 0.4; x_orig[solv[1]] = 0.6;
            let x_ref = Array1::from_vec(x_orig.to_vec());
            let x_perm = Array1::from_vec(perm.iter().map(|&i| x_orig[i]).collect::<Vec<_>>());
            let h_ref = State::henrys_law_constant(&build(&[0, 1, 2]), t, &x_ref).ok().map(|h| h.to_reduced()[0]);
            let h_perm = State::henrys_law_constant(&m, t, &x_perm).ok().map(|h| h.to_reduced()[0]);
            *count += 1;
            let ok = match (h_perm, h_ref) { (Some(x), Some(y)) => close(x, y, 1e-6), (None, None) => true, _ => false };
            if !ok {
                fails.push(json!({"family": fam, "quantity": "State::henrys_law_constant (mixed solvent)", "order": perm, "molefracs": x_perm.to_vec(), "got": h_perm, "identity_order": h_ref, "T": t_h}));
            }
        }
        for solvent in 0..3 {
            let x_perm = Array1::from_vec(perm.iter().map(|&i| if i == solvent { 1.0 } else { 0.0 }).collect::<Vec<_>>());
            let h = State::henrys_law_constant(&m, t, &x_perm).ok().map(|h| h.to_reduced().to_vec());
            let solutes: Vec<usize> = perm.iter().cloned().filter(|&i| i != solvent).collect();
            for (k, &su) in solutes.iter().enumerate() {
                *count += 1;
                let want = State::henrys_law_constant_binary(&build(&[su, solvent]), t).ok().map(|h| h.to_reduced());
                let got = h.as_ref().map(|h| h[k]);
                let ok = match (got, want) { (Some(x), Some(y)) => close(x, y, 1e-6), (None, None) => true, _ => false };
                if !ok {
                    fails.push(json!({"family": fam, "quantity": "State::henrys_law_constant (pure solvent) vs the binary model built directly", "order": perm, "solute": su, "solvent": solvent, "got": got, "binary_model": want, "T": t_h}));
                }
            }
        }
        // pure-liquid fugacity coefficients and activity coefficients at (T, p, x)
        let x_orig = [0.2, 0.3, 0.5];
        let mk = |mm: &Arc<R>, order: &[usize]| {
            State::new_npt(mm, Temperature::from_reduced(t_act), Pressure::from_reduced(p_act), &Moles::from_reduced(Array1::from_vec(order.iter().map(|&i| x_orig[i]).collect::<Vec<_>>())), DensityInitialization::Liquid).ok()
        };
        if let (Some(sp), Some(s0)) = (mk(&m, perm), mk(&build(&[0, 1, 2]), &[0, 1, 2])) {
            if let (Ok(lp), Ok(l0), Ok(gp), Ok(g0)) = (sp.ln_phi_pure_liquid(), s0.ln_phi_pure_liquid(), sp.ln_symmetric_activity_coefficient(), s0.ln_symmetric_activity_coefficient()) {
                for a in 0..3 {
                    *count += 2;
                    if !((lp[a] - l0[perm[a]]).abs() <= 1e-7 * (1.0 + l0[perm[a]].abs())) {
                        fails.push(json!({"family": fam, "quantity": "State::ln_phi_pure_liquid", "order": perm, "position": a, "got": lp[a], "identity_order": l0[perm[a]]}));
                    }
                    if !((gp[a] - g0[perm[a]]).abs() <= 1e-7 * (1.0 + g0[perm[a]].abs())) {
                        fails.push(json!({"family": fam, "quantity": "State::ln_symmetric_activity_coefficient", "order": perm, "position": a, "got": gp[a], "identity_order": g0[perm[a]]}));
                    }
                }
            }
            // the pure-liquid fugacity coefficient is that of the pure model built directly
            if let Ok(lp) = sp.ln_phi_pure_liquid() {
                for a in 0..3 {
                    if let Ok(ps) = State::new_npt(&build(&[perm[a]]), Temperature::from_reduced(t_act), Pressure::from_reduced(p_act), &Moles::from_reduced(Array1::from_vec(vec![1.0])), DensityInitialization::Liquid) {
                        *count += 1;
                        let want = ps.ln_phi()[0];
                        if !((lp[a] - want).abs() <= 1e-7 * (1.0 + want.abs())) {
                            fails.push(json!({"family": fam, "quantity": "State::ln_phi_pure_liquid vs the pure model built directly", "order": perm, "position": a, "got": lp[a], "pure_model": want}));
                        }
                    }
                }
            }
        }
    }
}

/// `EquationOfState::subset` (ideal-gas part and residual part together) for every ordered subset of three components against the
/// equation of state built directly from the listed records: total heat capacity, entropy and enthalpy
fn derived_eos_subset(fails: &mut Vec<Value>, count: &mut usize) {
    use feos::ideal_gas::{Joback, JobackRecord};
    use feos_core::parameter::{Identifier, PureRecord};
    use feos_core::{Contributions, EquationOfState, ReferenceSystem, State};
    use quantity::{Moles, Temperature, Volume};
    let jrec = |i: usize| PureRecord::new(Identifier::default(), 1.0, JobackRecord::new(25.0 + 8.0 * i as f64, 0.12 - 0.02 * i as f64, 3e-5 + 1e-5 * i as f64, -2e-8, 4e-12));
    let build = |idx: &[usize]| {
        let ig = Arc::new(Joback::from_records(idx.iter().map(|&i| jrec(i)).collect(), None).unwrap());
        Arc::new(EquationOfState::new(ig, Arc::new(PengRobinson::new(Arc::new(configs::peng_robinson_params_idx(idx))))))
    };
    let full = build(&[0, 1, 2]);
    let lists: Vec<Vec<usize>> = vec![vec![0], vec![2], vec![0, 1], vec![1, 0], vec![2, 0], vec![0, 2], vec![2, 1], vec![1, 2, 0], vec![2, 1, 0], vec![0, 1, 2], vec![2, 0, 1]];
    for l in lists {
        let sub = Arc::new(full.subset(&l));
        let direct = build(&l);
        let n: Vec<f64> = l.iter().map(|&i| 0.3 + 0.4 * i as f64).collect();
        for (t, v) in [(350.0, 2.0e4), (480.0, 600.0)] {
            let mk = |m: &Arc<EquationOfState<Joback, PengRobinson>>| State::new_nvt(m, Temperature::from_reduced(t), Volume::from_reduced(v * n.iter().sum::<f64>()), &Moles::from_reduced(Array1::from_vec(n.clone()))).ok();
            if let (Some(a), Some(b)) = (mk(&sub), mk(&direct)) {
                let tot = Contributions::Total;
                let qa = [a.molar_isobaric_heat_capacity(tot).to_reduced(), a.molar_entropy(tot).to_reduced(), a.molar_enthalpy(tot).to_reduced(), a.molar_isobaric_heat_capacity(Contributions::Residual).to_reduced()];
                let qb = [b.molar_isobaric_heat_capacity(tot).to_reduced(), b.molar_entropy(tot).to_reduced(), b.molar_enthalpy(tot).to_reduced(), b.molar_isobaric_heat_capacity(Contributions::Residual).to_reduced()];
                for (k, nm) in ["molar_isobaric_heat_capacity(Total)", "molar_entropy(Total)", "molar_enthalpy(Total)", "molar_isobaric_heat_capacity(Residual)"].iter().enumerate() {
                    *count += 1;
                    if !((qa[k] - qb[k]).abs() <= 1e-10 * qa[k].abs().max(qb[k].abs()).max(1.0)) {
                        fails.push(json!({"family": "EquationOfState<Joback, PengRobinson>", "quantity": format!("{nm} of subset({l:?}) vs the equation of state built directly"), "subset": qa[k], "direct": qb[k], "T": t, "moles": n}));
                    }
                }
            }
        }
    }
}


/// Correspondence of the Coq model HenryIdxC09.v with `State::henrys_law_constant`: `plan` (evaluated by coqc from the model's definitions
/// for every zero pattern: solvent index list, write-back codes of the full-length vapour composition, selected result positions) is
/// replayed on the public API — sub-model of the solvent, bubble point, liquid and vapour state, ln phi — and must reproduce the returned
/// Henry constants exactly (same operations in the same order).
fn henry_model_family<R: Residual + 'static>(fam: &str, eos: &Arc<R>, order: &[usize], t_red: f64, plan: &Value, fails: &mut Vec<Value>, count: &mut usize, skipped: &mut usize) {
    use feos_core::{Contributions, PhaseEquilibrium, ReferenceSystem, State};
    use quantity::Temperature;
    let n = order.len();
    let t = Temperature::from_reduced(t_red);
    for mask in 1..(1usize << n) - 1 {
        // bit i set: position i is a solute (mole fraction exactly zero)
        let pat: String = (0..n).map(|i| if mask >> i & 1 == 1 { '1' } else { '0' }).collect();
        let Some(pl) = plan.get(&pat) else { continue };
        let fr: &[f64] = match n - mask.count_ones() as usize { 1 => &[1.0], 2 => &[0.4, 0.6], _ => &[0.2, 0.3, 0.5] };
        let mut k = 0;
        let x = Array1::from_vec((0..n).map(|i| if mask >> i & 1 == 1 { 0.0 } else { k += 1; fr[k - 1] }).collect::<Vec<_>>());
        let idx: Vec<usize> = pl["idx"].as_array().unwrap().iter().map(|v| v.as_u64().unwrap() as usize).collect();
        let codes: Vec<usize> = pl["vapor"].as_array().unwrap().iter().map(|v| v.as_u64().unwrap() as usize).collect();
        let sel: Vec<usize> = pl["solutes"].as_array().unwrap().iter().map(|v| v.as_u64().unwrap() as usize).collect();
        let got = State::henrys_law_constant(eos, t, &x).ok().map(|h| h.to_reduced().to_vec());
        let expected = (|| -> Option<Vec<f64>> {
            let solvent = Arc::new(eos.subset(&idx));
            let xs = Array1::from_vec(idx.iter().map(|&i| x[i]).collect::<Vec<_>>());
            let vle = if idx.len() == 1 {
                PhaseEquilibrium::pure(&solvent, t, None, Default::default()).ok()?
            } else {
                PhaseEquilibrium::bubble_point(&solvent, t, &xs, None, None, Default::default()).ok()?
            };
            let liquid = State::new_nvt(eos, t, vle.liquid().volume, &(&x * vle.liquid().total_moles)).ok()?;
            let yv = Array1::from_vec(codes.iter().enumerate().map(|(i, &c)| if c >= 100 { vle.vapor().molefracs[c - 100] } else { x[i] }).collect::<Vec<_>>());
            let vapor = State::new_nvt(eos, t, vle.vapor().volume, &(yv * vle.vapor().total_moles)).ok()?;
            let p = vle.vapor().pressure(Contributions::Total).to_reduced();
            let h = (liquid.ln_phi() - vapor.ln_phi()).mapv(f64::exp) * p;
            Some(sel.iter().map(|&i| h[i]).collect())
        })();
        match (got, expected) {
            (Some(g), Some(e)) => {
                *count += 1;
                if g.len() != e.len() || g.iter().zip(&e).any(|(a, b)| !((a - b).abs() <= 1e-12 * a.abs().max(b.abs()))) {
                    fails.push(json!({"family": fam, "component_order": order, "zero_pattern": pat, "molefracs": x.to_vec(), "T": t_red, "henrys_law_constant": g, "model_plan_replayed": e, "plan": pl}));
                }
            }
            (None, None) => *skipped += 1,
            (g, e) => {
                *count += 1;
                fails.push(json!({"family": fam, "component_order": order, "zero_pattern": pat, "molefracs": x.to_vec(), "T": t_red, "henrys_law_constant": g, "model_plan_replayed": e, "plan": pl}));
            }
        }
    }
}


/// Correspondence of `Components::subset` with the index model ParamLookup.subset_pure: `plan["subset"]` lists, for index lists in any order and
/// with repetitions, which parent component must sit at each position of the sub-model (evaluated by coqc); observed through the per-component
/// molar weight (residual models) and ln Lambda^3 (ideal-gas models)
fn subset_model(plan: &Value) -> Value {
    use feos::ideal_gas::{Dippr, DipprRecord, Joback, JobackRecord};
    use feos_core::parameter::{Identifier, PureRecord};
    use feos_core::{EquationOfState, IdealGas, Molarweight, ReferenceSystem};
    let (mut fails, mut count) = (Vec::new(), 0usize);
    let mut models = Vec::new();
    let empty = Vec::new();
    let lists: Vec<(usize, Vec<usize>, Vec<usize>)> = plan["subset"].as_array().unwrap_or(&empty).iter().map(|e| {
        let g = |k: &str| e[k].as_array().unwrap().iter().map(|v| v.as_u64().unwrap() as usize).collect::<Vec<_>>();
        (e["n"].as_u64().unwrap() as usize, g("idx"), g("parents"))
    }).collect();
    let mut cmp = |model: &str, obs: &str, idx: &[usize], parents: &[usize], got: Vec<f64>, parent: &[f64], count: &mut usize| {
        if got.len() != parents.len() {
            fails.push(json!({"model": model, "idx": idx, "position": null, "observable": "number of components", "got": got.len(), "parent_component": null, "expected": parents.len()}));
            return;
        }
        for (a, &pa) in parents.iter().enumerate() {
            *count += 1;
            // (not bit-for-bit: group-contribution molar weights are sums over a hash map, whose order varies from run to run)
            if !((got[a] - parent[pa]).abs() <= 1e-12 * parent[pa].abs()) {
                fails.push(json!({"model": model, "idx": idx, "position": a, "observable": obs, "got": got[a], "parent_component": pa, "expected": parent[pa]}));
            }
        }
    };
    for cfg in configs::all(true).into_iter().chain(configs::literal()) {
        let mw = cfg.model.molar_weight().to_reduced().to_vec();
        // (the observable must tell the components apart)
        if (0..mw.len()).any(|i| (0..i).any(|j| (mw[i] - mw[j]).abs() <= 1e-6 * mw[i].abs())) {
            continue;
        }
        models.push(cfg.name.clone());
        for (n, idx, parents) in lists.iter().filter(|l| l.0 == cfg.ncomp) {
            let _ = n;
            let sub = cfg.model.subset(idx);
            cmp(&cfg.name, "molar weight", idx, parents, sub.molar_weight().to_reduced().to_vec(), &mw, &mut count);
        }
    }
    // equations of state with an ideal-gas part: both halves
    let jrec = |i: usize| PureRecord::new(Identifier::default(), 1.0 + i as f64, JobackRecord::new(25.0 + 8.0 * i as f64, 0.12 - 0.02 * i as f64, 3e-5 + 1e-5 * i as f64, -2e-8, 4e-12));
    let drec = |i: usize| PureRecord::new(Identifier::default(), 1.0 + i as f64, DipprRecord::eq100(&[30000.0 + 4000.0 * i as f64, 80.0 + 10.0 * i as f64, 0.05]));
    let pr = Arc::new(PengRobinson::new(Arc::new(configs::peng_robinson_params_idx(&[0, 1, 2]))));
    let ej = EquationOfState::new(Arc::new(Joback::from_records((0..3).map(jrec).collect(), None).unwrap()), pr.clone());
    let ed = EquationOfState::new(Arc::new(Dippr::from_records((0..3).map(drec).collect(), None).unwrap()), pr.clone());
    let (lj, ld) = (ej.ideal_gas.ln_lambda3(350.0).to_vec(), ed.ideal_gas.ln_lambda3(350.0).to_vec());
    let mwp = pr.molar_weight().to_reduced().to_vec();
    models.push("EquationOfState<Joback, PengRobinson>".into());
    models.push("EquationOfState<Dippr, PengRobinson>".into());
    for (_, idx, parents) in lists.iter().filter(|l| l.0 == 3) {
        let (sj, sd) = (ej.subset(idx), ed.subset(idx));
        cmp("EquationOfState<Joback, PengRobinson> (ideal-gas part)", "ln Lambda^3 at 350 K", idx, parents, sj.ideal_gas.ln_lambda3(350.0).to_vec(), &lj, &mut count);
        cmp("EquationOfState<Joback, PengRobinson> (residual part)", "molar weight", idx, parents, sj.residual.molar_weight().to_reduced().to_vec(), &mwp, &mut count);
        cmp("EquationOfState<Dippr, PengRobinson> (ideal-gas part)", "ln Lambda^3 at 350 K", idx, parents, sd.ideal_gas.ln_lambda3(350.0).to_vec(), &ld, &mut count);
        cmp("EquationOfState<Dippr, PengRobinson> (residual part)", "molar weight", idx, parents, sd.residual.molar_weight().to_reduced().to_vec(), &mwp, &mut count);
    }
    json!({"comparisons": count, "models": models, "failures": fails})
}

fn henry_model(plan_path: &str) -> Value {
    let plan: Value = serde_json::from_str(&std::fs::read_to_string(plan_path).expect("plan file")).expect("plan json");
    let (mut fails, mut count, mut skipped) = (Vec::new(), 0usize, 0usize);
    for order in [[0usize, 1, 2], [1, 2, 0], [2, 1, 0], [0, 2, 1]] {
        let m = Arc::new(PengRobinson::new(Arc::new(configs::peng_robinson_params_idx(&order))));
        henry_model_family("PengRobinson", &m, &order, 300.0, &plan, &mut fails, &mut count, &mut skipped);
    }
    for order in [vec![0usize, 1], vec![1, 0]] {
        let m = Arc::new(PengRobinson::new(Arc::new(configs::peng_robinson_params_idx(&order))));
        henry_model_family("PengRobinson", &m, &order, 310.0, &plan, &mut fails, &mut count, &mut skipped);
    }
    let names = ["methane", "propane", "butane", "hexane"];
    for order in [vec![0usize, 1, 2, 3], vec![3, 0, 2, 1], vec![1, 3, 0, 2]] {
        let m = Arc::new(PcSaft::new(Arc::new(pcsaft_from_idx(&names, &order, "gross2001.json", 0.01))));
        henry_model_family("PcSaft", &m, &order, 290.0, &plan, &mut fails, &mut count, &mut skipped);
    }
    json!({"comparisons": count, "both_failed_to_converge": skipped, "failures": fails})
}

/// 1 bar in reduced units (K / A^3)
const BAR: f64 = 1e5 / 1.380649e-23 / 1e30;

fn derived(full: bool) -> Value {
    let mut fails = Vec::new();
    let mut count = 0usize;
    derived_family("PengRobinson", &|idx: &[usize]| Arc::new(PengRobinson::new(Arc::new(configs::peng_robinson_params_idx(idx)))), 300.0, 300.0, 20.0 * BAR, &mut fails, &mut count);
    let names = ["propane", "butane", "hexane"];
    derived_family("PcSaft", &|idx: &[usize]| Arc::new(PcSaft::new(Arc::new(pcsaft_from_idx(&names, idx, "gross2001.json", 0.01)))), 310.0, 310.0, 20.0 * BAR, &mut fails, &mut count);
    if full {
        let names = ["water", "methanol", "ethanol"];
        derived_family("PcSaft (associating)", &|idx: &[usize]| Arc::new(PcSaft::new(Arc::new(pcsaft_from_idx(&names, idx, "gross2002.json", 0.01)))), 330.0, 330.0, 20.0 * BAR, &mut fails, &mut count);
    }
    derived_eos_subset(&mut fails, &mut count);
    json!({"comparisons": count, "failures": fails})
}

pub fn run(out_dir: &str, tier: &str, seed: u64, only: Option<String>) -> Value {
    let full = tier == "thorough";
    let k_states = if full { 4 } else { 2 };
    let k_f64 = if full { 200 } else { 40 };
    let prec = 100;
    let mut results = Vec::new();
    for c in cases(full).into_iter().filter(|c| only.as_ref().map_or(true, |o| &c.name == o)) {
        let mut rng = Rng(seed ^ trace::fxhash(&c.name) ^ 0xC09);
        let sample = |rng: &mut Rng| -> RState {
            let t = c.t_scale * rng.range(0.4, 3.0);
            let mut x: Vec<f64> = (0..c.ncomp_a).map(|_| rng.range(0.05, 1.0)).collect();
            let s: f64 = x.iter().sum();
            x.iter_mut().for_each(|xi| *xi /= s);
            let ntot = rng.log_range(0.5, 50.0);
            let n: Vec<f64> = x.iter().map(|xi| xi * ntot).collect();
            let rho_max = (c.rho_a)(&n);
            let frac = if rng.f64() < 0.5 { rng.range(0.02, 0.9) } else { rng.log_range(1e-6, 0.9) };
            RState { t, v: ntot / (frac * rho_max), n }
        };
        let mut used = Vec::new();
        let mut canon_names: Vec<String> = Vec::new();
        let (mut leaks_a, mut leaks_b) = (0i64, 0i64); // constants that differ between states; -1: the shape changes
        let (mut ninstr_a, mut ninstr_b) = (0usize, 0usize);
        let mut consts_identical = false;
        let mut unsupported = (Vec::new(), Vec::new());
        let mut too_large = false;
        if !c.oracle_only {
        let states: Vec<(RState, RState)> = (0..k_states)
            .map(|_| {
                let s = sample(&mut rng);
                let sb = (c.map)(&s, &mut rng);
                (s, sb)
            })
            .collect();
        let pa0 = (c.a)(&states[0].0);
        let pb0 = (c.b)(&states[0].1);
        let mut rows_a = Vec::new();
        let mut rows_b = Vec::new();
        for (s, sb) in &states {
            let (pa, pb) = ((c.a)(s), (c.b)(sb));
            let (ca, cb) = (compare(&pa0, &pa), compare(&pb0, &pb));
            leaks_a = if !ca.same_shape || leaks_a < 0 { -1 } else { leaks_a.max(ca.leaks.len() as i64) };
            leaks_b = if !cb.same_shape || leaks_b < 0 { -1 } else { leaks_b.max(cb.leaks.len() as i64) };
            if ca.same_shape && cb.same_shape {
                let mut xa = s.vars();
                xa.extend(&pa.consts);
                let mut xb = sb.vars();
                xb.extend(&pb.consts);
                rows_a.push(emit::dy_list(&xa));
                rows_b.push(emit::dy_list(&xb));
                used.push(json!({"a": s.vars(), "b": sb.vars()}));
            }
        }
        let nvb = states[0].1.n.len() + 2;
        let mut v = emit::header(&["ProgSem", "ProgSemBig", "AD"]);
        v.push_str("From FeosProps Require Import C09.\n");
        v.push_str(&pa0.emit_coq("A"));
        v.push_str(&pb0.emit_coq("B"));
        v.push_str(&format!("Definition A_inputs : list (list (Z * Z)) := [{}].\n", rows_a.join(";\n ")));
        v.push_str(&format!("Definition B_inputs : list (list (Z * Z)) := [{}].\n", rows_b.join(";\n ")));
        let da: Vec<String> = c.dirs.iter().map(|(a, _)| format!("{a}%nat")).collect();
        let db: Vec<String> = c.dirs.iter().map(|(_, b)| format!("{b}%nat")).collect();
        v.push_str(
            &BODY
                .replace("PREC", &format!("{prec}%Z"))
                .replace("NVA", &format!("{}", c.ncomp_a + 2))
                .replace("NVB", &format!("{nvb}"))
                .replace("DIRSA", &format!("[{}]", da.join("; ")))
                .replace("DIRSB", &format!("[{}]", db.join("; "))),
        );
        if let Some((nv, sa, sb, zv)) = &c.canon {
            let (text, names) = emit::canon_block(&pa0, &pb0, *nv, sa, sb, zv, "C09_canonical_programs_agree");
            v.push_str(&text);
            canon_names = names;
        }
        if c.expect_identical {
            v.push_str("Lemma pair_identical : prog_eqb A_prog B_prog = true.\nProof. vm_compute. reflexivity. Qed.\nDefinition pair_agree := C09_identical_programs_agree A_prog B_prog pair_identical.\nCheck pair_agree.\n");
        }
        // programs beyond this size are not regenerated in Coq in any tier (plain f64 comparison only)
        too_large = pa0.instrs.len().max(pb0.instrs.len()) > 6000;
        if !too_large {
            std::fs::write(format!("{out_dir}/{}.v", c.name), v).unwrap();
        }
            ninstr_a = pa0.instrs.len();
            ninstr_b = pb0.instrs.len();
            consts_identical = pa0.consts.len() == pb0.consts.len() && pa0.consts.iter().zip(&pb0.consts).all(|(x, y)| x.to_bits() == y.to_bits());
            unsupported = (pa0.unsupported.clone(), pb0.unsupported.clone());
        }
        // implementation-level oracle in plain f64, and the maximum density (options!) for subset cases
        let mut worst = 0.0f64;
        let mut fails = Vec::new();
        let mut rho_fail = Vec::new();
        for _ in 0..k_f64 {
            let s = sample(&mut rng);
            let sb = (c.map)(&s, &mut rng);
            let (x, y) = ((c.fa)(&s), (c.fb)(&sb));
            let sc = x.abs().max(y.abs()) + 1e-9 * s.t * s.n.iter().sum::<f64>();
            let rel = (x - y).abs() / sc;
            if !(rel <= 1e-7) && !(x.is_nan() && y.is_nan()) {
                if fails.len() < 5 {
                    let (ka, kb) = ((c.ca)(&s), (c.cb)(&sb));
                    let differing: Vec<String> = if ka.len() == kb.len() && ka.iter().zip(&kb).all(|(p, q)| p.0 == q.0) {
                        ka.iter().zip(&kb).filter(|(p, q)| !((p.1 - q.1).abs() <= 1e-9 * (p.1.abs() + q.1.abs()) + 1e-12 * s.n.iter().sum::<f64>())).map(|(p, _)| p.0.clone()).collect()
                    } else {
                        vec!["(different lists of contributions)".to_string()]
                    };
                    fails.push(json!({"state_a": s.vars(), "state_b": sb.vars(), "a": x, "b": y, "differing_contributions": differing}));
                }
            } else if rel.is_finite() {
                worst = worst.max(rel);
            }
            if c.kind == "subset" {
                let (ra, rb) = ((c.rho_a)(&s.n), (c.rho_b)(&sb.n));
                if !((ra - rb).abs() <= 1e-13 * ra.abs()) && rho_fail.len() < 3 {
                    rho_fail.push(json!({"moles": s.n, "max_density_subset": ra, "max_density_direct": rb}));
                }
            }
        }
        results.push(json!({
            "name": c.name, "kind": c.kind, "expect_identical": c.expect_identical, "canon_outputs": canon_names,
            "leaks": [leaks_a, leaks_b],
            "ndirs": c.dirs.len(), "dirs": c.dirs,
            "ninstr_a": ninstr_a, "ninstr_b": ninstr_b, "oracle_only": c.oracle_only || too_large,
            "consts_identical": consts_identical,
            "unsupported": [unsupported.0, unsupported.1],
            "states": used, "f64": {"states": k_f64, "worst_rel": worst, "failures": fails}, "max_density_failures": rho_fail,
        }));
    }
    let der = if only.as_ref().map_or(true, |o| o == "derived") { derived(full) } else { json!({"comparisons": 0, "failures": []}) };
    json!({"property": "C09", "tier": tier, "seed": seed, "prec": prec, "cases": results, "derived": der})
}

fn main() {
    let cli = feos_verif::cli::Cli::parse("/verif/coq/gen/C09");
    if let Some(plan) = cli.opt("--plan") {
        // second stage: replay the plan evaluated from the Coq model (HenryIdxC09.v) on the public API
        let pv: Value = serde_json::from_str(&std::fs::read_to_string(&plan).expect("plan file")).expect("plan json");
        cli.write_impl(&json!({"henry_model": henry_model(&plan), "subset_model": subset_model(&pv)}));
        return;
    }
    let res = run(&cli.out, &cli.tier, cli.seed, cli.opt("--only"));
    cli.write_impl(&res);
}
