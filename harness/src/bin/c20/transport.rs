//! `EntropyScaling::{*_reference, *_correlation}` of PC-SAFT (and SAFT-VRQ Mie correlations) and the State-layer
//! transport properties, against `TransportC20`.
use crate::gen::{dy, dy_list, lit, CoqFile};
use feos::pcsaft::{PcSaft, PcSaftParameters, PcSaftRecord};
use feos::saftvrqmie::{SaftVRQMie, SaftVRQMieParameters, SaftVRQMieRecord};
use feos_core::parameter::{Identifier, Parameter, PureRecord};
use feos_core::{EntropyScaling, ReferenceSystem, Residual, State};
use feos_verif::configs::Rng;
use ndarray::{arr1, Array1};
use quantity::{Moles, Temperature, Volume, KELVIN, METER, MOL, PASCAL, SECOND, WATT};
use serde_json::{json, Value};
use std::f64::consts::PI;
use std::sync::Arc;
use typenum::{P2, P3};

#[derive(Clone, Debug)]
pub struct Comp {
    pub m: f64,
    pub sigma: f64,
    pub eps: f64,
    pub mw: f64,
    pub visc: [f64; 4],
    pub diff: [f64; 5],
    pub tc: [f64; 4],
}

pub fn random_comp(rng: &mut Rng) -> Comp {
    Comp {
        m: rng.range(1.0, 4.0),
        sigma: rng.range(2.6, 4.4),
        eps: rng.range(120.0, 380.0),
        mw: rng.range(16.0, 180.0),
        visc: [rng.range(-2.0, 0.0), rng.range(-4.0, -1.0), rng.range(-1.0, 0.0), rng.range(-0.2, 0.0)],
        diff: [rng.range(-1.0, 0.0), rng.range(0.0, 0.6), rng.range(0.0, 0.3), rng.range(0.0, 0.05), rng.range(0.0, 0.002)],
        tc: [rng.range(-0.5, 0.5), rng.range(-1.0, 0.0), rng.range(0.5, 1.5), rng.range(-0.05, 0.0)],
    }
}

pub fn propane() -> Comp {
    Comp {
        m: 2.001829,
        sigma: 3.618353,
        eps: 208.1101,
        mw: 44.0962,
        visc: [-0.8013, -1.9972, -0.2907, -0.0467],
        diff: [-0.675163251512047, 0.3212017677695878, 0.100175249144429, 0.0, 0.0],
        tc: [-0.15348, -0.6388, 1.21342, -0.01664],
    }
}

pub fn pcsaft(cs: &[Comp]) -> Arc<PcSaft> {
    let recs: Vec<PureRecord<PcSaftRecord>> = cs
        .iter()
        .enumerate()
        .map(|(i, c)| {
            let r = PcSaftRecord::new(c.m, c.sigma, c.eps, None, None, None, None, None, None, None, Some(c.visc), Some(c.diff), Some(c.tc));
            PureRecord::new(Identifier::new(None, Some(&format!("c{i}")), None, None, None, None), c.mw, r)
        })
        .collect();
    Arc::new(PcSaft::new(Arc::new(PcSaftParameters::from_records(recs, None).unwrap())))
}

fn row<const N: usize>(cs: &[Comp], f: impl Fn(&Comp) -> [f64; N], k: usize) -> String {
    dy_list(&cs.iter().map(|c| f(c)[k]).collect::<Vec<_>>())
}

fn simplex(rng: &mut Rng, n: usize) -> Vec<f64> {
    let v: Vec<f64> = (0..n).map(|_| rng.range(0.05, 1.0)).collect();
    let s: f64 = v.iter().sum();
    v.iter().map(|x| x / s).collect()
}

fn comps_coq(cs: &[Comp]) -> String {
    let v: Vec<String> = cs.iter().map(|c| format!("({}, {}, {})", dy(c.mw), dy(c.sigma), dy(c.eps))).collect();
    format!("[{}]", v.join("; "))
}

/// packing fraction -> molar density in mol/m^3
fn rho_of_eta(c: &[Comp], x: &[f64], eta: f64) -> f64 {
    let msig3: f64 = c.iter().zip(x).map(|(c, x)| x * c.m * c.sigma.powi(3)).sum();
    eta / (PI / 6.0 * msig3 * 1e-30 * 6.02214076e23)
}

pub fn run(rng: &mut Rng, full: bool, files: &mut Vec<CoqFile>) -> Value {
    let mut corr = CoqFile::new("tcorr_0");
    let mut states_json = Vec::new();
    let mut limit_json = Vec::new();
    let ncorr = if full { 120 } else { 18 };
    // ---- correlation functions (viscosity: 1-3 components; diffusion / thermal conductivity: pure, as the code demands)
    for i in 0..ncorr {
        let n = 1 + i % 3;
        let cs: Vec<Comp> = (0..n).map(|_| random_comp(rng)).collect();
        let eos = pcsaft(&cs);
        let x = if n == 1 { vec![1.0] } else { simplex(rng, n) };
        let mbar: f64 = cs.iter().zip(&x).map(|(c, x)| c.m * x).sum();
        let sres = -mbar * rng.log_range(0.01, 3.5);
        let xa = Array1::from_vec(x.clone());
        let ms = dy_list(&cs.iter().map(|c| c.m).collect::<Vec<_>>());
        let v = eos.viscosity_correlation(sres, &xa).unwrap();
        let s = (sres / mbar).abs();
        let scale = 2.0 + 4.0 * s + s * s + 0.2 * s * s * s;
        let t = 1e-12 * scale;
        corr.goal(
            &format!("Rabs (visc_corr {ms} {} {} {} {} {} {} - {}) <= {}", row(&cs, |c| c.visc, 0), row(&cs, |c| c.visc, 1),
                row(&cs, |c| c.visc, 2), row(&cs, |c| c.visc, 3), dy(sres), dy_list(&x), dy(v), lit(t)),
            "c20_transport",
            json!({"what": "PcSaft::viscosity_correlation", "components": format!("{:?}", cs), "s_res": sres, "x": x, "impl": v, "tol": t}),
        );
        if n == 1 {
            let v = eos.diffusion_correlation(sres, &xa).unwrap();
            let t = 1e-12 * (2.0 + s + 0.3 * s * s + 0.05 * s.powi(4) + 0.002 * s.powi(8));
            corr.goal(
                &format!("Rabs (diff_corr {ms} {} {} {} {} {} {} {} - {}) <= {}", row(&cs, |c| c.diff, 0), row(&cs, |c| c.diff, 1),
                    row(&cs, |c| c.diff, 2), row(&cs, |c| c.diff, 3), row(&cs, |c| c.diff, 4), dy(sres), dy_list(&x), dy(v), lit(t)),
                "c20_transport",
                json!({"what": "PcSaft::diffusion_correlation", "components": format!("{:?}", cs), "s_res": sres, "x": x, "impl": v, "tol": t}),
            );
            let v = eos.thermal_conductivity_correlation(sres, &xa).unwrap();
            let t = 1e-12 * (3.0 + s + s * s);
            corr.goal(
                &format!("Rabs (tc_corr {ms} {} {} {} {} {} {} - {}) <= {}", row(&cs, |c| c.tc, 0), row(&cs, |c| c.tc, 1),
                    row(&cs, |c| c.tc, 2), row(&cs, |c| c.tc, 3), dy(sres), dy_list(&x), dy(v), lit(t)),
                "c20_transport",
                json!({"what": "PcSaft::thermal_conductivity_correlation", "components": format!("{:?}", cs), "s_res": sres, "x": x, "impl": v, "tol": t}),
            );
        }
        if corr.ngoals() >= (if full { 30 } else { 10 }) {
            let k = files.iter().filter(|f| f.name.starts_with("tcorr_")).count() + 1;
            files.push(std::mem::replace(&mut corr, CoqFile::new(&format!("tcorr_{k}"))));
        }
    }
    if corr.ngoals() > 0 {
        files.push(corr);
    }
    // ---- references: viscosity (Wilke mixture of Chapman-Enskog values), diffusion, thermal conductivity
    let nref = if full { 36 } else { 9 };
    let mut nfile = 0;
    for i in 0..nref {
        let n = if i % 9 == 8 { 3 } else { 1 + i % 2 };
        let cs: Vec<Comp> = (0..n).map(|_| random_comp(rng)).collect();
        let eos = pcsaft(&cs);
        let x = if n == 1 { vec![1.0] } else { simplex(rng, n) };
        let temp = rng.range(90.0, 900.0);
        let eta = rng.log_range(1e-4, 0.45);
        let rho = rho_of_eta(&cs, &x, eta);
        let ntot = rng.log_range(0.1, 10.0);
        let moles = Array1::from_vec(x.iter().map(|x| x * ntot).collect()) * MOL;
        let volume = ntot / rho * METER.powi::<P3>();
        let t = temp * KELVIN;
        let mut f = CoqFile::new(&format!("tref_{nfile}"));
        nfile += 1;
        // the mole fractions the code computes itself: moles / moles.sum()
        let xs = (&moles / moles.sum()).into_value().to_vec();
        let v = eos.viscosity_reference(t, volume, &moles).unwrap().convert_to(PASCAL * SECOND);
        let tl = 1e-11 * v.abs();
        f.goal(
            &format!("Rabs (visc_ref {} {} {} - {}) <= {}", dy(temp), dy_list(&xs), comps_coq(&cs), dy(v), lit(tl)),
            "c20_transport",
            json!({"what": "PcSaft::viscosity_reference [Pa s]", "components": format!("{:?}", cs), "T": temp, "x": xs, "impl": v, "tol": tl}),
        );
        if n == 1 {
            let c = &cs[0];
            let rho_si = (moles.sum() / volume).convert_to(MOL / METER.powi::<P3>());
            let v = eos.diffusion_reference(t, volume, &moles).unwrap().convert_to(METER.powi::<P2>() / SECOND);
            let tl = 1e-11 * v.abs();
            f.goal(
                &format!("Rabs (diff_ref {} {} {} {} {} {} - {}) <= {}", dy(temp), dy(rho_si), dy(c.mw), dy(c.m), dy(c.sigma), dy(c.eps), dy(v), lit(tl)),
                "c20_transport",
                json!({"what": "PcSaft::diffusion_reference [m^2/s]", "components": format!("{:?}", cs), "T": temp, "rho": rho_si, "impl": v, "tol": tl}),
            );
            let st = State::new_nvt(&eos, t, volume, &moles).unwrap();
            let sres = st.residual_molar_entropy().to_reduced();
            let v = eos.thermal_conductivity_reference(t, volume, &moles).unwrap().convert_to(WATT / METER / KELVIN);
            let tl = 1e-10 * v.abs() + 1e-12;
            f.goal(
                &format!("Rabs (tc_ref {} {} {} {} {} {} - {}) <= {}", dy(temp), dy(c.mw), dy(c.m), dy(c.sigma), dy(c.eps), dy(sres), dy(v), lit(tl)),
                "c20_transport",
                json!({"what": "PcSaft::thermal_conductivity_reference [W/m/K]", "components": format!("{:?}", cs), "T": temp, "s_res": sres, "impl": v, "tol": tl}),
            );
        }
        files.push(f);
    }
    // ---- State layer: value = reference * exp(correlation), reduced value = correlation(s_res of the state), positivity
    let mut stf = CoqFile::new("tstate_0");
    let nstate = if full { 200 } else { 28 };
    for i in 0..nstate {
        let n = if i % 3 == 2 { 2 } else { 1 };
        let cs: Vec<Comp> = (0..n).map(|j| if i % 4 == 0 && j == 0 { propane() } else { random_comp(rng) }).collect();
        let eos = pcsaft(&cs);
        let x = if n == 1 { vec![1.0] } else { simplex(rng, n) };
        let temp = if i % 4 == 0 { rng.range(90.0, 600.0) } else { rng.range(150.0, 800.0) };
        let eta = rng.log_range(1e-4, 0.45);
        let rho = rho_of_eta(&cs, &x, eta);
        let ntot = rng.log_range(0.1, 10.0);
        let moles = Array1::from_vec(x.iter().map(|x| x * ntot).collect()) * MOL;
        let volume = ntot / rho * METER.powi::<P3>();
        let rec = state_record(&eos, temp * KELVIN, volume, &moles, n == 1, &mut stf);
        let tstar_over_m = if n == 1 { temp / cs[0].eps / cs[0].m } else { f64::NAN };
        states_json.push(json!({"model": "PC-SAFT", "components": format!("{:?}", cs), "propane": i % 4 == 0, "T": temp, "eta": eta,
            "x": x, "tstar_over_m": if tstar_over_m.is_finite() { json!(tstar_over_m) } else { Value::Null }, "rec": rec}));
        roll(&mut stf, files, full);
        // pure limit on the implementation: mixture state with n_2 = 0 against the pure-component model
        if n == 2 {
            let pure = pcsaft(&cs[..1]);
            let m1 = arr1(&[ntot, 0.0]) * MOL;
            let m0 = arr1(&[ntot]) * MOL;
            let v1 = ntot / rho_of_eta(&cs[..1], &[1.0], eta) * METER.powi::<P3>();
            let a = State::new_nvt(&eos, temp * KELVIN, v1, &m1).and_then(|s| Ok((s.viscosity()?.convert_to(PASCAL * SECOND), s.ln_viscosity_reduced()?, s.viscosity_reference()?.convert_to(PASCAL * SECOND))));
            let b = State::new_nvt(&pure, temp * KELVIN, v1, &m0).and_then(|s| Ok((s.viscosity()?.convert_to(PASCAL * SECOND), s.ln_viscosity_reduced()?, s.viscosity_reference()?.convert_to(PASCAL * SECOND))));
            limit_json.push(json!({"components": format!("{:?}", cs), "T": temp, "eta": eta,
                "mixture": a.as_ref().ok().map(|v| json!([v.0, v.1, v.2])), "pure": b.as_ref().ok().map(|v| json!([v.0, v.1, v.2])),
                "err": format!("{:?} {:?}", a.as_ref().err().map(|e| e.to_string()), b.as_ref().err().map(|e| e.to_string()))}));
        }
    }
    // SAFT-VRQ Mie (m = 1): same State-layer wiring and correlation functions
    for i in 0..(if full { 40 } else { 8 }) {
        let visc = [rng.range(-2.0, 0.0), rng.range(-4.0, -1.0), rng.range(-1.0, 0.0), rng.range(-0.2, 0.0)];
        let diff = [rng.range(-1.0, 0.0), rng.range(0.0, 0.6), rng.range(0.0, 0.3), rng.range(0.0, 0.05), rng.range(0.0, 0.002)];
        let tc = [rng.range(-0.5, 0.5), rng.range(-1.0, 0.0), rng.range(0.5, 1.5), rng.range(-0.05, 0.0)];
        let (sigma, eps, mw) = (rng.range(2.7, 3.4), rng.range(25.0, 40.0), rng.range(2.0, 20.0));
        let r = SaftVRQMieRecord::new(1.0, sigma, eps, 9.0 + rng.range(0.0, 4.0), 6.0, 1, Some(visc), Some(diff), Some(tc)).unwrap();
        let pr = PureRecord::new(Identifier::new(None, Some("q"), None, None, None, None), mw, r);
        let eos = Arc::new(SaftVRQMie::new(Arc::new(SaftVRQMieParameters::new_pure(pr).unwrap())));
        let temp = rng.range(30.0, 300.0);
        let eta = rng.log_range(1e-4, 0.35);
        let rho = eta / (PI / 6.0 * sigma.powi(3) * 1e-30 * 6.02214076e23);
        let ntot = rng.log_range(0.1, 10.0);
        let moles = arr1(&[ntot]) * MOL;
        let volume = ntot / rho * METER.powi::<P3>();
        let rec = state_record(&eos, temp * KELVIN, volume, &moles, true, &mut stf);
        // correlation of the m = 1 model
        if let Some(s) = rec.get("s_res").and_then(|v| v.as_f64()) {
            let v = eos.viscosity_correlation(s, &arr1(&[1.0])).unwrap();
            let sa = s.abs();
            let t = 1e-12 * (2.0 + 4.0 * sa + sa * sa + 0.2 * sa * sa * sa);
            stf.goal(
                &format!("Rabs (visc_corr [1] {} {} {} {} {} [1] - {}) <= {}", dy_list(&[visc[0]]), dy_list(&[visc[1]]), dy_list(&[visc[2]]), dy_list(&[visc[3]]), dy(s), dy(v), lit(t)),
                "c20_transport",
                json!({"what": "SaftVRQMie::viscosity_correlation", "visc": visc, "s_res": s, "impl": v, "tol": t}),
            );
        }
        // the remaining SAFT-VRQ Mie functions that have the PC-SAFT form with m = 1 (its viscosity reference uses the
        // temperature-dependent sigma_eff / epsilon_eff and is not modelled)
        if let Some(s) = rec.get("s_res").and_then(|v| v.as_f64()) {
            let one = arr1(&[1.0]);
            let sa = s.abs();
            let v = eos.diffusion_correlation(s, &one).unwrap();
            let t = 1e-12 * (2.0 + sa + 0.3 * sa * sa + 0.05 * sa.powi(4) + 0.002 * sa.powi(8));
            stf.goal(
                &format!("Rabs (diff_corr [1] {} {} {} {} {} {} [1] - {}) <= {}", dy_list(&[diff[0]]), dy_list(&[diff[1]]), dy_list(&[diff[2]]), dy_list(&[diff[3]]), dy_list(&[diff[4]]), dy(s), dy(v), lit(t)),
                "c20_transport",
                json!({"what": "SaftVRQMie::diffusion_correlation", "diff": diff, "s_res": s, "impl": v, "tol": t}),
            );
            let v = eos.thermal_conductivity_correlation(s, &one).unwrap();
            let t = 1e-12 * (3.0 + sa + sa * sa);
            stf.goal(
                &format!("Rabs (tc_corr [1] {} {} {} {} {} [1] - {}) <= {}", dy_list(&[tc[0]]), dy_list(&[tc[1]]), dy_list(&[tc[2]]), dy_list(&[tc[3]]), dy(s), dy(v), lit(t)),
                "c20_transport",
                json!({"what": "SaftVRQMie::thermal_conductivity_correlation", "tc": tc, "s_res": s, "impl": v, "tol": t}),
            );
            let rho_si = (moles.sum() / volume).convert_to(MOL / METER.powi::<P3>());
            let v = eos.diffusion_reference(temp * KELVIN, volume, &moles).unwrap().convert_to(METER.powi::<P2>() / SECOND);
            let t = 1e-11 * v.abs();
            stf.goal(
                &format!("Rabs (diff_ref {} {} {} 1 {} {} - {}) <= {}", dy(temp), dy(rho_si), dy(mw), dy(sigma), dy(eps), dy(v), lit(t)),
                "c20_transport",
                json!({"what": "SaftVRQMie::diffusion_reference [m^2/s]", "T": temp, "rho": rho_si, "sigma": sigma, "eps": eps, "mw": mw, "impl": v, "tol": t}),
            );
            let v = eos.thermal_conductivity_reference(temp * KELVIN, volume, &moles).unwrap().convert_to(WATT / METER / KELVIN);
            let t = 1e-10 * v.abs() + 1e-12;
            stf.goal(
                &format!("Rabs (tc_ref {} {} 1 {} {} {} - {}) <= {}", dy(temp), dy(mw), dy(sigma), dy(eps), dy(s), dy(v), lit(t)),
                "c20_transport",
                json!({"what": "SaftVRQMie::thermal_conductivity_reference [W/m/K]", "T": temp, "sigma": sigma, "eps": eps, "mw": mw, "s_res": s, "impl": v, "tol": t}),
            );
        }
        states_json.push(json!({"model": "SAFT-VRQ Mie", "components": format!("sigma {sigma} eps {eps} mw {mw} fh 1 #{i}"), "propane": false, "T": temp, "eta": eta, "x": [1.0],
            "tstar_over_m": Value::Null, "rec": rec}));
        roll(&mut stf, files, full);
    }
    if stf.ngoals() > 0 {
        files.push(stf);
    }
    // ---- SAFT-VRQ Mie viscosity reference, 1-3 components of different (and, sometimes, equal) molar weight: its own copy of
    // the Chapman-Enskog + Wilke code, evaluated with the effective sigma / epsilon of the Feynman-Hibbs potential (taken
    // from the public `sigma_eff` / `epsilon_k_eff` of the parameters; their temperature dependence is not modelled)
    let nq = if full { 24 } else { 6 };
    for i in 0..nq {
        let n = [2, 1, 2, 3, 2, 2][i % 6];
        let mut recs = Vec::new();
        let mut mws = Vec::new();
        let fh = rng.below(3); // one Feynman-Hibbs order per mixture (orders cannot be combined)
        for j in 0..n {
            let visc = [rng.range(-2.0, 0.0), rng.range(-4.0, -1.0), rng.range(-1.0, 0.0), rng.range(-0.2, 0.0)];
            let (sigma, eps) = (rng.range(2.7, 3.4), rng.range(25.0, 40.0));
            // every sixth mixture has two species of equal molar weight
            let mw = if j == 1 && i % 6 == 4 { mws[0] } else { rng.log_range(2.0, 40.0) };
            mws.push(mw);
            let r = SaftVRQMieRecord::new(1.0, sigma, eps, 9.0 + rng.range(0.0, 4.0), 6.0, fh, Some(visc), None, None).unwrap();
            recs.push(PureRecord::new(Identifier::new(None, Some(&format!("q{j}")), None, None, None, None), mw, r));
        }
        let params = Arc::new(SaftVRQMieParameters::from_records(recs, None).unwrap());
        let eos = Arc::new(SaftVRQMie::new(params.clone()));
        let x = if n == 1 { vec![1.0] } else { simplex(rng, n) };
        let temp = rng.range(20.0, 300.0);
        let ntot = rng.log_range(0.1, 10.0);
        let moles = Array1::from_vec(x.iter().map(|x| x * ntot).collect()) * MOL;
        let volume = ntot / 5000.0 * METER.powi::<P3>();
        let xs = (&moles / moles.sum()).into_value().to_vec();
        let se = params.sigma_eff(temp).to_vec();
        let ee = params.epsilon_k_eff(temp).to_vec();
        let v = eos.viscosity_reference(temp * KELVIN, volume, &moles).unwrap().convert_to(PASCAL * SECOND);
        let comps: Vec<String> = (0..n).map(|j| format!("({}, {}, {})", dy(mws[j]), dy(se[j]), dy(ee[j]))).collect();
        let tl = 1e-11 * v.abs();
        let mut f = CoqFile::new(&format!("tvrq_{i}"));
        f.goal(
            &format!("Rabs (visc_ref {} {} [{}] - {}) <= {}", dy(temp), dy_list(&xs), comps.join("; "), dy(v), lit(tl)),
            "c20_transport",
            json!({"what": "SaftVRQMie::viscosity_reference [Pa s] (Chapman-Enskog with sigma_eff/epsilon_k_eff + Wilke)", "T": temp, "x": xs,
                   "molarweight": mws, "sigma_eff": se, "epsilon_k_eff": ee, "impl": v, "tol": tl}),
        );
        files.push(f);
    }
    json!({"states": states_json, "pure_limit": limit_json})
}

fn roll(stf: &mut CoqFile, files: &mut Vec<CoqFile>, full: bool) {
    if stf.ngoals() >= (if full { 30 } else { 16 }) {
        let k = files.iter().filter(|f| f.name.starts_with("tstate_")).count() + 1;
        files.push(std::mem::replace(stf, CoqFile::new(&format!("tstate_{k}"))));
    }
}

fn q<T>(r: feos_core::EosResult<T>, f: impl Fn(T) -> f64) -> Value {
    match r {
        Ok(v) => {
            let x = f(v);
            if x.is_finite() {
                json!(x)
            } else {
                json!(format!("{x}"))
            }
        }
        Err(e) => json!({"err": e.to_string()}),
    }
}

/// everything the State layer reports for one state + the direct trait calls, plus the interval goals value = ref * exp(corr)
fn state_record<E: Residual + EntropyScaling>(
    eos: &Arc<E>,
    t: Temperature,
    v: Volume,
    moles: &Moles<Array1<f64>>,
    pure: bool,
    f: &mut CoqFile,
) -> Value {
    let st = match State::new_nvt(eos, t, v, moles) {
        Ok(s) => s,
        Err(e) => return json!({"state_err": e.to_string()}),
    };
    let s = st.residual_molar_entropy().to_reduced();
    let x = st.molefracs.clone();
    let mut rec = serde_json::Map::new();
    rec.insert("s_res".into(), json!(s));
    let vis = (PASCAL * SECOND, METER.powi::<P2>() / SECOND, WATT / METER / KELVIN);
    let mut add = |name: &str, val: Value, refv: Value, red: Value, corr: Value, refd: Value| {
        if let (Some(a), Some(b), Some(c)) = (val.as_f64(), refv.as_f64(), red.as_f64()) {
            let tl = 1e-12 * a.abs() + 1e-300;
            f.goal(
                &format!("Rabs (entropy_scaling {} {} - {}) <= {}", dy(b), dy(c), dy(a), lit(tl)),
                "c20_transport",
                json!({"what": format!("State::{name} = reference * exp(ln_{name}_reduced)"), "value": a, "reference": b, "ln_reduced": c, "tol": tl}),
            );
        }
        rec.insert(name.into(), json!({"value": val, "reference": refv, "ln_reduced": red, "trait_correlation": corr, "trait_reference": refd}));
    };
    add(
        "viscosity",
        q(st.viscosity(), |v| v.convert_to(vis.0)),
        q(st.viscosity_reference(), |v| v.convert_to(vis.0)),
        q(st.ln_viscosity_reduced(), |v| v),
        q(eos.viscosity_correlation(s, &x), |v| v),
        q(eos.viscosity_reference(t, v, moles), |v| v.convert_to(vis.0)),
    );
    if pure {
        add(
            "diffusion",
            q(st.diffusion(), |v| v.convert_to(vis.1)),
            q(st.diffusion_reference(), |v| v.convert_to(vis.1)),
            q(st.ln_diffusion_reduced(), |v| v),
            q(eos.diffusion_correlation(s, &x), |v| v),
            q(eos.diffusion_reference(t, v, moles), |v| v.convert_to(vis.1)),
        );
        add(
            "thermal_conductivity",
            q(st.thermal_conductivity(), |v| v.convert_to(vis.2)),
            q(st.thermal_conductivity_reference(), |v| v.convert_to(vis.2)),
            q(st.ln_thermal_conductivity_reduced(), |v| v),
            q(eos.thermal_conductivity_correlation(s, &x), |v| v),
            q(eos.thermal_conductivity_reference(t, v, moles), |v| v.convert_to(vis.2)),
        );
    }
    Value::Object(rec)
}
