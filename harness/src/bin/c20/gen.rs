//! Generated Coq files: one lemma per line, the line number of every goal is recorded so that a coqc error
//! can be mapped back to the concrete case.
use feos_verif::prog::dyadic;
use serde_json::{json, Value};

pub fn dy(x: f64) -> String {
    format!("(dy_R {}%Z)", dyadic(x))
}

pub fn dy_list(xs: &[f64]) -> String {
    let v: Vec<String> = xs.iter().map(|x| dy(*x)).collect();
    format!("[{}]", v.join("; "))
}

/// a positive real literal Coq parses in R_scope
pub fn lit(x: f64) -> String {
    assert!(x.is_finite() && x > 0.0, "bad tolerance {x}");
    format!("{:e}", x)
}

pub struct CoqFile {
    pub name: String,
    text: String,
    line: usize,
    pub goals: Vec<Value>,
}

impl CoqFile {
    pub fn new(name: &str) -> Self {
        let mut f = CoqFile { name: name.to_string(), text: String::new(), line: 0, goals: Vec::new() };
        f.raw("From Coq Require Import Reals List ZArith.");
        f.raw("From Interval Require Import Tactic.");
        f.raw("From FeosVerif Require Import ProgSem LossC20 EstimatorC20 TransportC20 TieC20.");
        f.raw("Import ListNotations.");
        f.raw("Open Scope R_scope.");
        f
    }
    pub fn raw(&mut self, s: &str) {
        assert!(!s.contains('\n'));
        self.text.push_str(s);
        self.text.push('\n');
        self.line += 1;
    }
    /// `Lemma <file>_<k> : stmt. Proof. tactic. Qed.` on one line
    pub fn goal(&mut self, stmt: &str, tactic: &str, case: Value) {
        let k = self.goals.len();
        let s = format!("Lemma g{k} : {stmt}. Proof. {tactic}. Qed.");
        self.raw(&s);
        self.goals.push(json!({"line": self.line, "lemma": format!("g{k}"), "case": case}));
    }
    pub fn ngoals(&self) -> usize {
        self.goals.len()
    }
    pub fn write(&self, dir: &str) -> Value {
        std::fs::write(format!("{dir}/{}.v", self.name), &self.text).unwrap();
        json!({"file": format!("{}.v", self.name), "goals": self.goals})
    }
}
