//! C20 — transport properties and the parameter estimator.  Runs the REAL `Loss::apply`, `DataSet` provided methods,
//! `Estimator::cost`, `EntropyScaling` of PC-SAFT / SAFT-VRQ Mie and the State-layer transport properties on seeded
//! random inputs and emits (a) interval goals `Rabs (model .. - impl) <= tol` against the Coq models
//! (LossC20 / EstimatorC20 / TransportC20) and (b) impl.json for the python comparator and the support search.
mod datasets;
mod est;
mod gen;
mod loss;
mod transport;

use feos_verif::cli::Cli;
use feos_verif::configs::Rng;
use serde_json::json;

/// `--replay <replay.json>`: re-run the failing loss / estimator cases of a replay on the current implementation
fn replay(path: &str) {
    use feos::estimator::{DataSet, Estimator};
    use std::sync::Arc;
    let rp: serde_json::Value = serde_json::from_str(&std::fs::read_to_string(path).unwrap()).unwrap();
    let eos = transport::pcsaft(&[transport::propane()]);
    let mut out = Vec::new();
    let idx = |name: &str| loss::NAMES.iter().position(|n| *n == name).unwrap();
    for f in rp["failing"].as_array().cloned().unwrap_or_default() {
        let c = if f.get("case").map_or(false, |c| c.is_object()) { f["case"].clone() } else { f.clone() };
        if let (Some(l), Some(s), Some(r)) = (c["loss"].as_str(), c["scaling_factor"].as_f64().or(c["s"].as_f64()), c["residual"].as_f64().or(c["r"].as_f64())) {
            out.push(json!({"kind": "loss", "loss": l, "s": s, "r": r, "impl": loss::apply1(idx(l), s, r)}));
        } else if let (Some(ws), Some(ds)) = (c["weights"].as_array(), c["datasets"].as_array()) {
            let mut data: Vec<Arc<dyn DataSet<feos::pcsaft::PcSaft>>> = Vec::new();
            let mut losses = Vec::new();
            for d in ds {
                let v = |k: &str| ndarray::Array1::from_vec(d[k].as_array().unwrap().iter().map(|x| x.as_f64().unwrap_or(f64::NAN)).collect());
                data.push(Arc::new(est::Mock { target: v("target"), pred: v("pred") }));
                losses.push(loss::mk(idx(d["loss"].as_str().unwrap()), d["s"].as_f64().unwrap()));
            }
            let w: Vec<f64> = ws.iter().map(|x| x.as_f64().unwrap()).collect();
            // same operation sequence as in the failing run: new(first n_new sets) then add_data for the rest
            let n_new = c["n_new"].as_u64().map_or(w.len(), |n| n as usize).min(w.len());
            let mut est = Estimator::new(data[..n_new].to_vec(), w[..n_new].to_vec(), losses[..n_new].to_vec());
            for i in n_new..w.len() {
                est.add_data(&data[i], w[i], losses[i]);
            }
            let cost = est.cost(&eos).map(|a| a.to_vec()).unwrap_or_default();
            out.push(json!({"kind": "estimator", "weights": w, "n_new": n_new, "datasets": ds, "cost": cost}));
        }
    }
    println!("{}", serde_json::to_string(&out).unwrap());
}

fn main() {
    let cli = Cli::parse("/verif/coq/gen/C20");
    if let Some(p) = cli.opt("--replay") {
        replay(&p);
        return;
    }
    let full = cli.full();
    let mut files = Vec::new();
    let mut rng = Rng(cli.seed ^ 0xC20C20);
    let loss_json = loss::run(&mut rng, full, &mut files);
    let eos = transport::pcsaft(&[transport::propane()]);
    let mut rng = Rng(cli.seed ^ 0xE57);
    let est_json = est::run(&mut rng, full, &eos, &mut files);
    let mut rng = Rng(cli.seed ^ 0x7A);
    let tr_json = transport::run(&mut rng, full, &mut files);
    let mut rng = Rng(cli.seed ^ 0xDA7A);
    let ds_json = std::panic::catch_unwind(move || datasets::run(&mut rng, full)).unwrap_or_else(|_| json!({"panic": true}));
    let files_json: Vec<_> = files.iter().map(|f| f.write(&cli.out)).collect();
    cli.write_impl(&json!({
        "tier": cli.tier, "seed": cli.seed,
        "files": files_json,
        "loss": loss_json,
        "estimator": est_json,
        "transport": tr_json,
        "datasets": ds_json,
    }));
}
