//! Support search (no theorem): `predict` of every data-set type against the direct library call it wraps
//! (with an independent unit conversion), and model-generated targets => zero relative difference / cost / MARD.
use crate::loss::{mk, NAMES};
use crate::transport::{pcsaft, propane, random_comp, Comp};
use feos::estimator::{
    BinaryPhaseDiagram, BinaryVleChemicalPotential, BinaryVlePressure, DataSet, Diffusion, EquilibriumLiquidDensity, Estimator,
    LiquidDensity, Phase, ThermalConductivity, VaporPressure, Viscosity,
};
use feos::pcsaft::PcSaft;
use feos_core::{Contributions, DensityInitialization, PhaseEquilibrium, ReferenceSystem, SolverOptions, State};
use feos_verif::configs::Rng;
use ndarray::{arr1, Array1};
use quantity::{Moles, Pressure, Temperature, BAR, CENTI, KELVIN, KILOGRAM, METER, MILLI, MOL, PASCAL, SECOND, WATT};
use serde_json::{json, Value};
use std::sync::Arc;
use typenum::{P2, P3};

fn fj(v: &[f64]) -> Value {
    Value::Array(v.iter().map(|x| if x.is_finite() { json!(x) } else { json!(format!("{x}")) }).collect())
}

/// one data set: predict vs direct, then a copy whose targets are the predictions (model-generated data)
fn record(name: &str, eos: &Arc<PcSaft>, ds: Arc<dyn DataSet<PcSaft>>, direct: Vec<f64>, regen: &dyn Fn(&[f64]) -> Option<Arc<dyn DataSet<PcSaft>>>, inputs: Value) -> Value {
    let pred = match ds.predict(eos) {
        Ok(p) => p.to_vec(),
        Err(e) => return json!({"type": name, "inputs": inputs, "predict_err": e.to_string(), "direct": fj(&direct)}),
    };
    let mut out = json!({"type": name, "inputs": inputs, "predict": fj(&pred), "direct": fj(&direct), "datapoints": ds.datapoints(), "target": fj(&ds.target().to_vec())});
    if pred.iter().all(|x| x.is_finite()) {
        if let Some(ds2) = regen(&pred) {
            let rd = ds2.relative_difference(eos).map(|a| a.to_vec()).unwrap_or(vec![f64::NAN]);
            let mard = ds2.mean_absolute_relative_difference(eos).unwrap_or(f64::NAN);
            let mut costs = serde_json::Map::new();
            for l in 0..5 {
                let c = ds2.cost(eos, mk(l, 0.7)).map(|a| a.to_vec()).unwrap_or(vec![f64::NAN]);
                costs.insert(NAMES[l].into(), fj(&c));
            }
            let est = Estimator::new(vec![ds2.clone(), ds2.clone()], vec![1.0, 3.0], vec![mk(2, 0.5), mk(3, 2.0)]);
            let ec = est.cost(eos).map(|a| a.to_vec()).unwrap_or(vec![f64::NAN]);
            out["model_generated"] = json!({"target": fj(&ds2.target().to_vec()), "reldiff": fj(&rd), "mard": if mard.is_finite() { json!(mard) } else { json!("nan") }, "cost": costs, "estimator_cost": fj(&ec)});
        }
    }
    out
}

pub fn run(rng: &mut Rng, full: bool) -> Value {
    let mut out = Vec::new();
    let nrec = if full { 6 } else { 2 };
    for irec in 0..nrec {
        let c: Comp = if irec == 0 { propane() } else { random_comp(rng) };
        let eos = pcsaft(&[c.clone()]);
        let cp = match State::critical_point(&eos, None, None, SolverOptions::default()) {
            Ok(cp) => cp,
            Err(_) => continue,
        };
        let tc = cp.temperature.convert_to(KELVIN);
        let np = if full { 6 } else { 4 };
        let mut temps: Vec<f64> = (0..np).map(|_| tc * rng.range(0.55, 0.97)).collect();
        temps[0] = tc * rng.range(0.85, 0.97);
        let tarr = Array1::from_vec(temps.clone()) * KELVIN;
        let moles = Moles::from_reduced(arr1(&[1.0]));
        // ---- vapor pressure: every combination of the constructor options `extrapolate` and `critical_temperature`
        // (None = largest data temperature; a start value BELOW some data temperatures, i.e. an underestimated T_c; a start
        // value above all of them), data temperatures up to 0.97 T_c plus one above the model's critical point
        let mut ts = temps.clone();
        ts.push(tc * 1.05);
        let ta = Array1::from_vec(ts.clone()) * KELVIN;
        let ct_low = Some(tc * rng.range(0.6, 0.8));
        let ct_high = Some(tc * rng.range(1.0, 1.2));
        // (critical_temperature option, solver_options option): the full sweep of the former with default solver options, and
        // non-default solver options (they steer the critical-point search and the 0.9 T_c point of the fallback only)
        let combos: Vec<(usize, Option<f64>, Option<SolverOptions>)> = vec![
            (0, None, None), (1, ct_low, None), (2, ct_high, None),
            (3, None, Some(SolverOptions::new().tol(1e-6))), (4, ct_low, Some(SolverOptions::new().max_iter(60).tol(1e-12))),
        ];
        for (ict, ct, so) in combos {
            let opts = so.unwrap_or_default();
            for extrapolate in [false, true] {
                // the documented fallback: ln p linear in 1/T through the critical point and the point at 0.9 T_c, in SI units
                let max_t = ct.unwrap_or(ts.iter().cloned().fold(f64::MIN, f64::max));
                let extrap = |t: f64| -> f64 {
                    let cp = match State::critical_point(&eos, None, Some(max_t * KELVIN), opts).or_else(|_| State::critical_point(&eos, None, None, opts)) {
                        Ok(cp) => cp,
                        Err(_) => return f64::NAN,
                    };
                    let (tcm, pc) = (cp.temperature.convert_to(KELVIN), cp.pressure(Contributions::Total).convert_to(PASCAL));
                    let t0 = 0.9 * tcm;
                    let p0 = match PhaseEquilibrium::pure(&eos, t0 * KELVIN, None, opts) {
                        Ok(v) => v.vapor().pressure(Contributions::Total).convert_to(PASCAL),
                        Err(_) => return f64::NAN,
                    };
                    let b = (pc / p0).ln() / (1.0 / tcm - 1.0 / t0);
                    pc * (b * (1.0 / t - 1.0 / tcm)).exp()
                };
                let mut extrapolated_idx = Vec::new();
                let direct: Vec<f64> = ts.iter().enumerate().map(|(i, &t)| match PhaseEquilibrium::vapor_pressure(&eos, t * KELVIN)[0] {
                    Some(p) => p.convert_to(PASCAL),
                    None if extrapolate => {
                        extrapolated_idx.push(i);
                        extrap(t)
                    }
                    None => f64::NAN,
                }).collect();
                let dummy = Array1::from_elem(ts.len(), 1.0) * PASCAL;
                let ctq = ct.map(|t| t * KELVIN);
                let ds: Arc<dyn DataSet<PcSaft>> = Arc::new(VaporPressure::new(dummy, ta.clone(), extrapolate, ctq, so));
                let inputs = json!({"T": ts, "Tc_model": tc, "critical_temperature_option": ct, "solver_options": format!("{:?}", so.map(|o| (o.max_iter, o.tol))), "extrapolate": extrapolate, "component": format!("{:?}", c)});
                let ta2 = ta.clone();
                let mut r = record(&format!("VaporPressure(extrapolate={extrapolate}, critical_temperature option {ict})"), &eos, ds, direct.clone(),
                    &move |p: &[f64]| Some(Arc::new(VaporPressure::new(Array1::from_vec(p.to_vec()) * PASCAL, ta2.clone(), extrapolate, ctq, so)) as Arc<dyn DataSet<PcSaft>>), inputs);
                r["extrapolated_idx"] = json!(extrapolated_idx);
                out.push(r);
                if !extrapolate {
                    // the prediction above T_c is NaN: model-generated targets on the sub-critical part, same options
                    let tsub = tarr.clone();
                    let sub: Arc<dyn DataSet<PcSaft>> = Arc::new(VaporPressure::new(Array1::from_elem(temps.len(), 1.0) * PASCAL, tarr.clone(), false, ctq, so));
                    out.push(record(&format!("VaporPressure(extrapolate=false, subcritical, critical_temperature option {ict})"), &eos, sub, direct[..temps.len()].to_vec(),
                        &move |p: &[f64]| Some(Arc::new(VaporPressure::new(Array1::from_vec(p.to_vec()) * PASCAL, tsub.clone(), false, ctq, so)) as Arc<dyn DataSet<PcSaft>>),
                        json!({"T": temps, "Tc_model": tc, "critical_temperature_option": ct, "extrapolate": false, "component": format!("{:?}", c)})));
                }
            }
        }
        // ---- liquid density at (T, p): pressures on BOTH sides of the model's vapour pressure — compressed liquid, liquid that is only
        // metastable for the model (p slightly below p_sat: what happens to saturated-liquid data when the model overestimates
        // p_sat), and far below p_sat where the liquid root may not exist at all (NaN)
        let psat: Vec<f64> = temps.iter().map(|&t| PhaseEquilibrium::vapor_pressure(&eos, t * KELVIN)[0].map_or(1e6, |p| p.convert_to(PASCAL))).collect();
        let ps: Vec<f64> = psat.iter().enumerate().map(|(i, &pv)| match i % 4 {
            0 => pv * rng.range(0.9, 0.995),
            1 => pv * rng.range(1.2, 5.0) + 1e5,
            2 => pv * rng.range(1.001, 1.1),
            _ => pv * rng.log_range(0.05, 0.9),
        }).collect();
        let parr = Array1::from_vec(ps.clone()) * PASCAL;
        let direct: Vec<f64> = temps.iter().zip(&ps).map(|(&t, &p)| {
            State::new_npt(&eos, t * KELVIN, p * PASCAL, &moles, DensityInitialization::Liquid)
                .map_or(f64::NAN, |s| s.density.convert_to(MOL / METER.powi::<P3>()) * c.mw * 1e-3)
        }).collect();
        let unit_rho = KILOGRAM / METER.powi::<P3>();
        let (ta, pa) = (tarr.clone(), parr.clone());
        out.push(record("LiquidDensity", &eos, Arc::new(LiquidDensity::new(Array1::from_elem(np, 1.0) * unit_rho, tarr.clone(), parr.clone())), direct,
            &move |p: &[f64]| Some(Arc::new(LiquidDensity::new(Array1::from_vec(p.to_vec()) * unit_rho, ta.clone(), pa.clone())) as Arc<dyn DataSet<PcSaft>>),
            json!({"T": temps, "p": ps, "p_sat_model": psat, "component": format!("{:?}", c)})));
        // ---- equilibrium liquid density under every kind of `vle_options`: None, iteration limits that are too small (the point
        // must be NaN exactly when PhaseEquilibrium::pure with THESE options fails), a tighter and a looser tolerance
        let kmax = 2 + rng.below(3);
        let vle_opts: Vec<(String, Option<SolverOptions>)> = vec![
            ("None".into(), None),
            ("max_iter=1".into(), Some(SolverOptions::new().max_iter(1))),
            (format!("max_iter={kmax}"), Some(SolverOptions::new().max_iter(kmax))),
            ("tol=1e-13".into(), Some(SolverOptions::new().tol(1e-13))),
            ("tol=1e-4".into(), Some(SolverOptions::new().tol(1e-4))),
        ];
        for (oname, vo) in vle_opts {
            let direct: Vec<f64> = temps.iter().map(|&t| {
                PhaseEquilibrium::pure(&eos, t * KELVIN, None, vo.unwrap_or_default())
                    .map_or(f64::NAN, |v| v.liquid().density.convert_to(MOL / METER.powi::<P3>()) * c.mw * 1e-3)
            }).collect();
            let ta = tarr.clone();
            out.push(record(&format!("EquilibriumLiquidDensity(vle_options {oname})"), &eos, Arc::new(EquilibriumLiquidDensity::new(Array1::from_elem(np, 1.0) * unit_rho, tarr.clone(), vo)), direct,
                &move |p: &[f64]| Some(Arc::new(EquilibriumLiquidDensity::new(Array1::from_vec(p.to_vec()) * unit_rho, ta.clone(), vo)) as Arc<dyn DataSet<PcSaft>>),
                json!({"T": temps, "vle_options": oname, "component": format!("{:?}", c)})));
        }
        // ---- transport data sets (liquid and vapour phases), targets in mPa s, W/m/K, cm^2/s
        // stable liquid / stable vapour / liquid slightly below p_sat / vapour slightly above p_sat (the given phase is metastable)
        let phases: Vec<Phase> = (0..np).map(|i| if i % 2 == 0 { Phase::Liquid } else { Phase::Vapor }).collect();
        let pt: Vec<f64> = psat.iter().enumerate().map(|(i, &pv)| match i % 4 {
            0 => pv * 1.5 + 1e5,
            1 => pv * 0.5,
            2 => pv * rng.range(0.93, 0.995),
            _ => pv * rng.range(1.005, 1.05),
        }).collect();
        let pta = Array1::from_vec(pt.clone()) * PASCAL;
        // both forms of the `phase` option: Some(phases) and None (DensityInitialization::None = the stable phase)
        for with_phase in [true, false] {
        let phase_opt = if with_phase { Some(&phases) } else { None };
        let st = |i: usize| State::new_npt(&eos, temps[i] * KELVIN, pt[i] * PASCAL, &moles, if with_phase { phases[i].into() } else { DensityInitialization::None });
        let direct: Vec<f64> = (0..np).map(|i| st(i).and_then(|s| s.viscosity()).map_or(f64::NAN, |v| v.convert_to(PASCAL * SECOND) * 1e3)).collect();
        let (ta, pa, ph) = (tarr.clone(), pta.clone(), phases.clone());
        out.push(record(&format!("Viscosity(phase given: {with_phase})"), &eos, Arc::new(Viscosity::new(Array1::from_elem(np, 1.0) * (MILLI * PASCAL * SECOND), tarr.clone(), pta.clone(), phase_opt)), direct,
            &move |p: &[f64]| Some(Arc::new(Viscosity::new(Array1::from_vec(p.to_vec()) * (MILLI * PASCAL * SECOND), ta.clone(), pa.clone(), if with_phase { Some(&ph) } else { None })) as Arc<dyn DataSet<PcSaft>>),
            json!({"T": temps, "p": pt, "phase_option": with_phase, "component": format!("{:?}", c)})));
        let direct: Vec<f64> = (0..np).map(|i| st(i).and_then(|s| s.thermal_conductivity()).map_or(f64::NAN, |v| v.convert_to(WATT / METER / KELVIN))).collect();
        let (ta, pa, ph) = (tarr.clone(), pta.clone(), phases.clone());
        out.push(record(&format!("ThermalConductivity(phase given: {with_phase})"), &eos, Arc::new(ThermalConductivity::new(Array1::from_elem(np, 1.0) * (WATT / METER / KELVIN), tarr.clone(), pta.clone(), phase_opt)), direct,
            &move |p: &[f64]| Some(Arc::new(ThermalConductivity::new(Array1::from_vec(p.to_vec()) * (WATT / METER / KELVIN), ta.clone(), pa.clone(), if with_phase { Some(&ph) } else { None })) as Arc<dyn DataSet<PcSaft>>),
            json!({"T": temps, "p": pt, "phase_option": with_phase, "component": format!("{:?}", c)})));
        let direct: Vec<f64> = (0..np).map(|i| st(i).and_then(|s| s.diffusion()).map_or(f64::NAN, |v| v.convert_to(METER.powi::<P2>() / SECOND) * 1e4)).collect();
        let (ta, pa, ph) = (tarr.clone(), pta.clone(), phases.clone());
        let cm2s = (CENTI * METER).powi::<P2>() / SECOND;
        out.push(record(&format!("Diffusion(phase given: {with_phase})"), &eos, Arc::new(Diffusion::new(Array1::from_elem(np, 1.0) * cm2s, tarr.clone(), pta.clone(), phase_opt)), direct,
            &move |p: &[f64]| Some(Arc::new(Diffusion::new(Array1::from_vec(p.to_vec()) * cm2s, ta.clone(), pa.clone(), if with_phase { Some(&ph) } else { None })) as Arc<dyn DataSet<PcSaft>>),
            json!({"T": temps, "p": pt, "phase_option": with_phase, "component": format!("{:?}", c)})));
        }
    }
    // ---- binary VLE data sets (propane / a heavier random component): inputs generated by the model itself
    let mut bin = Vec::new();
    for _ in 0..(if full { 3 } else { 1 }) {
        let mut c2 = propane();
        c2.m = 2.33;
        c2.sigma = 3.71;
        c2.eps = 222.9;
        c2.mw = 58.12;
        let eos = pcsaft(&[propane(), c2]);
        let t = rng.range(270.0, 320.0);
        let xs: Vec<f64> = (0..3).map(|_| rng.range(0.15, 0.85)).collect();
        let mut tv = Vec::new();
        let mut pv = Vec::new();
        let mut xl = Vec::new();
        let mut yv = Vec::new();
        for &x in &xs {
            if let Ok(vle) = PhaseEquilibrium::bubble_point(&eos, t * KELVIN, &arr1(&[x, 1.0 - x]), None, None, Default::default()) {
                tv.push(t);
                pv.push(vle.vapor().pressure(Contributions::Total).convert_to(PASCAL));
                xl.push(x);
                yv.push(vle.vapor().molefracs[0]);
            }
        }
        if tv.is_empty() {
            continue;
        }
        let ta: Temperature<Array1<f64>> = Array1::from_vec(tv.clone()) * KELVIN;
        let pa: Pressure<Array1<f64>> = Array1::from_vec(pv.clone()) * PASCAL;
        let inputs = json!({"T": tv, "p": pv, "x": xl, "y": yv});
        for (name, ds) in [
            ("BinaryVlePressure(liquid)", Arc::new(BinaryVlePressure::new(ta.clone(), pa.clone(), Array1::from_vec(xl.clone()), Phase::Liquid)) as Arc<dyn DataSet<PcSaft>>),
            ("BinaryVlePressure(vapor)", Arc::new(BinaryVlePressure::new(ta.clone(), pa.clone(), Array1::from_vec(yv.clone()), Phase::Vapor))),
            ("BinaryVleChemicalPotential", Arc::new(BinaryVleChemicalPotential::new(ta.clone(), pa.clone(), Array1::from_vec(xl.clone()), Array1::from_vec(yv.clone())))),
            ("BinaryPhaseDiagram(T)", Arc::new(BinaryPhaseDiagram::new(t * KELVIN, pa.clone(), Some(Array1::from_vec(xl.clone())), Some(Array1::from_vec(yv.clone())), Some(if full { 101 } else { 51 })))),
        ] {
            let pred = ds.predict(&eos).map(|a| fj(&a.to_vec())).unwrap_or_else(|e| json!({"err": e.to_string()}));
            let rd = ds.relative_difference(&eos).map(|a| fj(&a.to_vec())).unwrap_or(Value::Null);
            let cost = ds.cost(&eos, mk(2, 0.5)).map(|a| fj(&a.to_vec())).unwrap_or(Value::Null);
            bin.push(json!({"type": name, "inputs": inputs, "predict": pred, "target": fj(&ds.target().to_vec()), "reldiff": rd, "cost_huber": cost}));
        }
        let _ = BAR;
    }
    json!({"pure": out, "binary": bin})
}
