//! `Loss::apply` on random (loss, scaling factor, residual) — interval goals against `LossC20.loss_apply`.
use crate::gen::{dy, lit, CoqFile};
use feos::estimator::Loss;
use feos_verif::configs::Rng;
use ndarray::arr1;
use serde_json::{json, Value};

pub const NAMES: [&str; 5] = ["Linear", "SoftL1", "Huber", "Cauchy", "Arctan"];

pub fn mk(l: usize, s: f64) -> Loss {
    match l {
        0 => Loss::Linear,
        1 => Loss::SoftL1(s),
        2 => Loss::Huber(s),
        3 => Loss::Cauchy(s),
        _ => Loss::Arctan(s),
    }
}

pub fn apply1(l: usize, s: f64, r: f64) -> f64 {
    let mut a = arr1(&[r]);
    mk(l, s).apply(&mut a);
    a[0]
}

/// tolerance of one comparison: relative round-off plus the cancellation of `sqrt(1+z)-1` / `ln(1+z)` at small z
pub fn tol(l: usize, s: f64, v: f64) -> f64 {
    let base = 1e-12 * v.abs() + 1e-300;
    match l {
        1 | 3 => base + 2e-15 * s * s / v.abs().max(1e-300),
        _ => base,
    }
}

pub fn run(rng: &mut Rng, full: bool, files: &mut Vec<CoqFile>) -> Value {
    let n = if full { 1600 } else { 160 };
    let per_file = if full { 50 } else { 16 };
    let mut py_cases = Vec::new();
    let mut cur = CoqFile::new("loss_0");
    for i in 0..n {
        let l = i % 5;
        let mut s = rng.log_range(1e-2, 1e2);
        if rng.below(5) == 0 {
            s = -s;
        }
        let mut r = match rng.below(4) {
            // near the Huber threshold (both sides), elsewhere log-uniform over six decades
            0 => s.abs() * (1.0 + if rng.below(2) == 0 { 1.0 } else { -1.0 } * rng.log_range(1e-7, 1e-1)),
            _ => s.abs() * rng.log_range(1e-3, 1e3),
        };
        if rng.below(2) == 0 {
            r = -r;
        }
        let v = apply1(l, s, r);
        let case = json!({"loss": NAMES[l], "s": s, "r": r, "impl": v});
        if !v.is_finite() {
            py_cases.push(json!({"kind": "nonfinite", "case": case}));
            continue;
        }
        if l == 0 && r < 0.0 {
            // (Linear, r < 0): the recorded class of the known finding; decided in python (r or |r| are both accepted)
            py_cases.push(json!({"kind": "linear_negative", "case": case}));
            continue;
        }
        let t = tol(l, s, v);
        let stmt = format!("Rabs (loss_apply {} {} {} - {}) <= {}", NAMES[l], dy(s), dy(r), dy(v), lit(t));
        cur.goal(&stmt, "c20_loss", json!({"loss": NAMES[l], "s": s, "r": r, "impl": v, "tol": t}));
        if cur.ngoals() == per_file {
            let k = files.iter().filter(|f| f.name.starts_with("loss_")).count() + 1;
            files.push(std::mem::replace(&mut cur, CoqFile::new(&format!("loss_{k}"))));
        }
    }
    if cur.ngoals() > 0 {
        files.push(cur);
    }
    // exact cases: r = 0 (apply_zero) and r = +-s for Huber (huber_threshold_agree), Linear on negative residuals
    for l in 0..5 {
        for _ in 0..(if full { 20 } else { 4 }) {
            let s = rng.log_range(1e-2, 1e2);
            py_cases.push(json!({"kind": "zero", "case": {"loss": NAMES[l], "s": s, "r": 0.0, "impl": apply1(l, s, 0.0)}}));
            py_cases.push(json!({"kind": "zero", "case": {"loss": NAMES[l], "s": s, "r": -0.0, "impl": apply1(l, s, -0.0)}}));
        }
    }
    for _ in 0..(if full { 200 } else { 30 }) {
        let s = rng.log_range(1e-2, 1e2);
        for r in [s, -s] {
            py_cases.push(json!({"kind": "huber_threshold", "case": {"loss": "Huber", "s": s, "r": r, "impl": apply1(2, s, r)}}));
        }
        let r = -rng.log_range(1e-3, 1e3);
        py_cases.push(json!({"kind": "linear_negative", "case": {"loss": "Linear", "s": 1.0, "r": r, "impl": apply1(0, 1.0, r)}}));
    }
    // a whole array at once (apply works in place on an Array1): element-wise independence
    let rs: Vec<f64> = (0..7).map(|_| rng.range(-3.0, 3.0)).collect();
    let mut batch = Vec::new();
    for l in 0..5 {
        let mut a = arr1(&rs);
        mk(l, 1.5).apply(&mut a);
        let single: Vec<f64> = rs.iter().map(|&r| apply1(l, 1.5, r)).collect();
        batch.push(json!({"loss": NAMES[l], "s": 1.5, "r": rs, "batch": a.to_vec(), "single": single}));
    }
    json!({"py_cases": py_cases, "batch": batch})
}
