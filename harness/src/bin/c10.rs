//! C10 — total = ideal gas + residual; ideal-gas limits; ideal-gas models (Joback, DIPPR 100/107/127).
//! Runs the REAL implementation and writes
//!   impl.json                what the implementation returned (all f64 exact), scales, zero-density sweeps
//!   lam_*.v / mix_*.v        `interval` goals: Coq models of ln_lambda3 / c_p correlation / ideal-gas Helmholtz
//!                            energy jets vs the implementation's values
//!   state_*.v                `interval` goals: Coq model of every selector-taking State getter (StateSelC10.value)
//!                            evaluated on the primitive jets vs the implementation's getter, 3 selectors each;
//!                            ideal pressure in SI incl. RGAS; ideal mixing in SI
use feos::ideal_gas::{Dippr, DipprRecord, Joback, JobackRecord};
use feos::ResidualModel;
use feos_core::parameter::{Identifier, Parameter, PureRecord};
use feos_core::{Components, Contributions, EquationOfState, IdealGas, ReferenceSystem, Residual, State, StateHD};
use feos_verif::configs::{self, Config, Rng};
use ndarray::{arr1, Array1};
use num_dual::{Dual2_64, Dual3_64, Dual64, HyperDual64};
use quantity::{Moles, Temperature, Volume, JOULE, KELVIN, METER, MOL, PASCAL};
use serde_json::{json, Value};
use std::fmt::Write as _;
use std::sync::Arc;
use typenum::P3;

const HEADER: &str = "From Coq Require Import Reals ZArith List.\nFrom Interval Require Import Tactic.\nFrom FeosVerif Require Import IdealGasHelmC10 JobackC10 DipprC10 StateSelC10 GenC10.\nImport ListNotations.\nOpen Scope R_scope.\n";

/// exact value of an f64 as a Coq real `(dy m e)` = m * 2^e
fn dy(x: f64) -> String {
    assert!(x.is_finite(), "non-finite value {x}");
    if x == 0.0 {
        return "(dy 0 0)".into();
    }
    let bits = x.to_bits();
    let sign = if bits >> 63 == 1 { -1i64 } else { 1 };
    let exp = ((bits >> 52) & 0x7ff) as i64;
    let frac = (bits & ((1u64 << 52) - 1)) as i64;
    let (mut m, mut e) = if exp == 0 { (frac, -1074) } else { (frac | (1i64 << 52), exp - 1075) };
    while m & 1 == 0 {
        m >>= 1;
        e += 1;
    }
    format!("(dy ({}) ({}))", sign * m, e)
}

fn goal(out: &mut String, name: &str, model: &str, val: f64, tol: f64, tac: &str) {
    writeln!(out, "Lemma {name} : Rabs ({model} - {}) <= {}.\nProof. {tac} Qed.", dy(val), dy(tol)).unwrap();
}

// ---------------------------------------------------------------------------------------------
// ideal-gas records

#[derive(Clone, Debug)]
enum Rec {
    J([f64; 5]),
    D100(Vec<f64>),
    D107([f64; 5]),
    D127([f64; 7]),
}

impl Rec {
    fn kind(&self) -> &'static str {
        match self {
            Rec::J(_) => "joback",
            Rec::D100(_) => "dippr100",
            Rec::D107(_) => "dippr107",
            Rec::D127(_) => "dippr127",
        }
    }
    fn json(&self) -> Value {
        match self {
            Rec::J(c) => json!({"joback": c}),
            Rec::D100(c) => json!({"DIPPR100": c}),
            Rec::D107(c) => json!({"DIPPR107": c}),
            Rec::D127(c) => json!({"DIPPR127": c}),
        }
    }
    fn is_joback(&self) -> bool {
        matches!(self, Rec::J(_))
    }
    /// Coq: arguments of joback_* (a b c d e)
    fn jargs(&self) -> String {
        match self {
            Rec::J(c) => c.iter().map(|x| dy(*x)).collect::<Vec<_>>().join(" "),
            _ => unreachable!(),
        }
    }
    /// Coq: dippr_record
    fn drec(&self) -> String {
        match self {
            Rec::D100(c) => format!("(D100 [{}])", c.iter().map(|x| dy(*x)).collect::<Vec<_>>().join("; ")),
            Rec::D107(c) => format!("(D107 {})", c.iter().map(|x| dy(*x)).collect::<Vec<_>>().join(" ")),
            Rec::D127(c) => format!("(D127 {})", c.iter().map(|x| dy(*x)).collect::<Vec<_>>().join(" ")),
            _ => unreachable!(),
        }
    }
    /// Coq: icomp with particle number n
    fn icomp(&self, n: f64) -> String {
        match self {
            Rec::J(_) => format!("(joback_comp {} {})", dy(n), self.jargs()),
            _ => format!("(dippr_comp {} {})", dy(n), self.drec()),
        }
    }
    /// Coq: ln Lambda^3 model at temperature t
    fn lam(&self, t: &str) -> String {
        match self {
            Rec::J(_) => format!("joback_lam {} {t}", self.jargs()),
            _ => format!("dippr_lam {} {t}", self.drec()),
        }
    }
    /// Coq: c_p correlation / R  (dimensionless)
    fn cp_over_r(&self, t: &str) -> String {
        match self {
            Rec::J(_) => format!("(joback_cp {} {t} / J_RGAS)", self.jargs()),
            _ => format!("(dippr_cp {} {t} / D_RGAS)", self.drec()),
        }
    }
}

enum Ig {
    J(Arc<Joback>),
    D(Arc<Dippr>),
}

fn ident(i: usize) -> Identifier {
    Identifier::new(Some(&format!("c10-{i}")), None, None, None, None, None)
}

fn build(recs: &[Rec]) -> Ig {
    if recs[0].is_joback() {
        let v: Vec<_> = recs
            .iter()
            .enumerate()
            .map(|(i, r)| match r {
                Rec::J(c) => PureRecord::new(ident(i), 1.0, JobackRecord::new(c[0], c[1], c[2], c[3], c[4])),
                _ => panic!("mixed ideal gas models"),
            })
            .collect();
        Ig::J(Arc::new(Joback::from_records(v, None).unwrap()))
    } else {
        let v: Vec<_> = recs
            .iter()
            .enumerate()
            .map(|(i, r)| {
                let m = match r {
                    Rec::D100(c) => DipprRecord::eq100(c),
                    Rec::D107(c) => DipprRecord::eq107(c[0], c[1], c[2], c[3], c[4]),
                    Rec::D127(c) => DipprRecord::eq127(c[0], c[1], c[2], c[3], c[4], c[5], c[6]),
                    _ => panic!("mixed ideal gas models"),
                };
                PureRecord::new(ident(i), 1.0, m)
            })
            .collect();
        Ig::D(Arc::new(Dippr::from_records(v, None).unwrap()))
    }
}

fn shipped_joback() -> Vec<(String, Rec)> {
    let txt = std::fs::read_to_string(format!("{}/ideal_gas/joback1987.json", configs::params())).unwrap();
    let v: Value = serde_json::from_str(&txt).unwrap();
    let mut out = Vec::new();
    let mut segs = Vec::new();
    for r in v.as_array().unwrap() {
        let m: JobackRecord = serde_json::from_value(r["model_record"].clone()).unwrap();
        let name = r["identifier"].as_str().unwrap().to_string();
        out.push((format!("joback1987:{name}"), Rec::J([m.a, m.b, m.c, m.d, m.e])));
        segs.push((name, m));
    }
    // molecules through the real group-contribution rule (FromSegments)
    use feos_core::parameter::FromSegments;
    let mols: [(&str, &[(&str, f64)]); 5] = [
        ("propane", &[("CH3", 2.0), ("CH2", 1.0)]),
        ("isobutane", &[("CH3", 3.0), (">CH", 1.0)]),
        ("neopentane", &[("CH3", 4.0), (">C<", 1.0)]),
        ("1-butene", &[("=CH2", 1.0), ("=CH", 1.0), ("CH2", 1.0), ("CH3", 1.0)]),
        ("n-decane", &[("CH3", 2.0), ("CH2", 8.0)]),
    ];
    for (name, groups) in mols {
        let mut s = Vec::new();
        let mut ok = true;
        for (g, n) in groups.iter() {
            match segs.iter().find(|(nm, _)| nm == g) {
                Some((_, m)) => s.push((m.clone(), *n)),
                None => ok = false,
            }
        }
        if ok {
            let m = JobackRecord::from_segments(&s).unwrap();
            out.push((format!("joback1987:molecule:{name}"), Rec::J([m.a, m.b, m.c, m.d, m.e])));
        }
    }
    out
}

fn shipped_dippr() -> Vec<(String, Rec)> {
    let txt = std::fs::read_to_string(format!("{}/ideal_gas/poling2000.json", configs::params())).unwrap();
    let v: Value = serde_json::from_str(&txt).unwrap();
    let mut out = Vec::new();
    for r in v.as_array().unwrap() {
        let m: DipprRecord = serde_json::from_value(r["model_record"].clone()).unwrap();
        let name = r["identifier"]["name"].as_str().unwrap_or("?").to_string();
        let rec = match m {
            DipprRecord::DIPPR100(c) => Rec::D100(c),
            DipprRecord::DIPPR107(c) => Rec::D107(c),
            DipprRecord::DIPPR127(c) => Rec::D127(c),
        };
        out.push((format!("poling2000:{name}"), rec));
    }
    out
}

fn random_dippr(rng: &mut Rng, form: usize) -> Rec {
    match form {
        100 => {
            let n = 1 + rng.below(7);
            let mut c = Vec::new();
            for i in 0..n {
                let mag = 1.0e5 / 600f64.powi(i as i32);
                c.push(if i == 0 { rng.range(2.0e4, 2.0e5) } else { rng.range(-1.0, 1.0) * mag });
            }
            Rec::D100(c)
        }
        107 => Rec::D107([
            rng.range(2.0e4, 1.5e5),
            rng.range(1.0e4, 3.0e5),
            rng.log_range(200.0, 4000.0),
            rng.range(-1.0e5, 2.0e5),
            rng.range(-1.0, 1.0) * rng.log_range(200.0, 3000.0),
        ]),
        _ => Rec::D127([
            rng.range(2.0e4, 1.5e5),
            rng.range(1.0e3, 3.0e5),
            rng.log_range(200.0, 5000.0),
            rng.range(-1.0e5, 3.0e5),
            rng.log_range(200.0, 5000.0),
            rng.range(-1.0e5, 3.0e5),
            rng.log_range(200.0, 5000.0),
        ]),
    }
}

fn sample_t(rng: &mut Rng, k: usize) -> f64 {
    match k {
        0 if rng.f64() < 0.3 => 150.0,
        1 if rng.f64() < 0.3 => 1500.0,
        2 if rng.f64() < 0.3 => 298.15, // T0 of both models: h = s = 0, ln(T/T0) = 0
        _ => rng.range(150.0, 1500.0),
    }
}

// ---------------------------------------------------------------------------------------------
// the ideal-gas trait on dual numbers (what properties.rs does)

struct IgJet {
    a: f64,
    a_t: f64,
    a_v: f64,
    a_n: Vec<f64>,
    a_tt: f64,
    a_tn: Vec<f64>,
    a_ttt: f64,
}

fn ig_jet<I: IdealGas>(ig: &I, t: f64, v: f64, n: &[f64]) -> IgJet {
    let nc = n.len();
    let a = ig.ideal_gas_helmholtz_energy(&StateHD::new(t, v, Array1::from_vec(n.to_vec()))) * t;
    let d = |x: f64| Dual64::from(x);
    let nd = |k: Option<usize>| Array1::from_shape_fn(nc, |i| if Some(i) == k { d(n[i]).derivative() } else { d(n[i]) });
    let f1 = |s: StateHD<Dual64>| (ig.ideal_gas_helmholtz_energy(&s) * s.temperature).eps;
    let a_t = f1(StateHD::new(d(t).derivative(), d(v), nd(None)));
    let a_v = f1(StateHD::new(d(t), d(v).derivative(), nd(None)));
    let a_n = (0..nc).map(|k| f1(StateHD::new(d(t), d(v), nd(Some(k))))).collect();
    let s2 = StateHD::new(Dual2_64::from(t).derivative(), Dual2_64::from(v), Array1::from_shape_fn(nc, |i| Dual2_64::from(n[i])));
    let a_tt = (ig.ideal_gas_helmholtz_energy(&s2) * s2.temperature).v2;
    let a_tn = (0..nc)
        .map(|k| {
            let s = StateHD::new(
                HyperDual64::from(t).derivative1(),
                HyperDual64::from(v),
                Array1::from_shape_fn(nc, |i| if i == k { HyperDual64::from(n[i]).derivative2() } else { HyperDual64::from(n[i]) }),
            );
            (ig.ideal_gas_helmholtz_energy(&s) * s.temperature).eps1eps2
        })
        .collect();
    let s3 = StateHD::new(Dual3_64::from(t).derivative(), Dual3_64::from(v), Array1::from_shape_fn(nc, |i| Dual3_64::from(n[i])));
    let a_ttt = (ig.ideal_gas_helmholtz_energy(&s3) * s3.temperature).v3;
    IgJet { a, a_t, a_v, a_n, a_tt, a_tn, a_ttt }
}

fn lam_of<I: IdealGas>(ig: &I, t: f64) -> Vec<f64> {
    ig.ln_lambda3(t).to_vec()
}

fn jmolk(x: quantity::MolarEntropy) -> f64 {
    (x / (JOULE / MOL / KELVIN)).into_value()
}

/// State-level and direct c_p^ig (J/mol/K) of an ideal-gas-only equation of state
fn cp_values(ig: &Ig, t: f64, v: f64, n: &[f64]) -> (f64, f64) {
    let tq = Temperature::from_reduced(t);
    let vq = Volume::from_reduced(v);
    let nq = Moles::from_reduced(Array1::from_vec(n.to_vec()));
    match ig {
        Ig::J(m) => {
            let eos = Arc::new(EquationOfState::ideal_gas(m.clone()));
            let st = State::new_nvt(&eos, tq, vq, &nq).unwrap();
            (
                jmolk(st.molar_isobaric_heat_capacity(Contributions::IdealGas)),
                jmolk(m.molar_isobaric_heat_capacity(tq, &st.molefracs).unwrap()),
            )
        }
        Ig::D(m) => {
            let eos = Arc::new(EquationOfState::ideal_gas(m.clone()));
            let st = State::new_nvt(&eos, tq, vq, &nq).unwrap();
            (
                jmolk(st.molar_isobaric_heat_capacity(Contributions::IdealGas)),
                jmolk(m.molar_isobaric_heat_capacity(tq, &st.molefracs).unwrap()),
            )
        }
    }
}

/// molar Gibbs energy / (R T) of the pure ideal gas at the reference state of the model
/// (Joback: T0 = 298.15 K, p0 = 1e5 Pa, i.e. rho = p0 A^3 / (k_B T0); DIPPR: T0, rho = 1/T0 per A^3), where it must vanish
fn reference_gibbs(ig: &Ig) -> f64 {
    let t0 = 298.15;
    let n = 7.0;
    let rho = match ig {
        Ig::J(_) => 1.0e5 * 1e-30 / (1.38064852e-23 * t0),
        Ig::D(_) => 1.0 / t0,
    };
    let tq = Temperature::from_reduced(t0);
    let vq = Volume::from_reduced(n / rho);
    let nq = Moles::from_reduced(arr1(&[n]));
    let g = match ig {
        Ig::J(m) => {
            let eos = Arc::new(EquationOfState::ideal_gas(m.clone()));
            State::new_nvt(&eos, tq, vq, &nq).unwrap().molar_gibbs_energy(Contributions::IdealGas).to_reduced()
        }
        Ig::D(m) => {
            let eos = Arc::new(EquationOfState::ideal_gas(m.clone()));
            State::new_nvt(&eos, tq, vq, &nq).unwrap().molar_gibbs_energy(Contributions::IdealGas).to_reduced()
        }
    };
    g / t0
}

fn with_ig<T>(ig: &Ig, fj: impl FnOnce(&Joback) -> T, fd: impl FnOnce(&Dippr) -> T) -> T {
    match ig {
        Ig::J(m) => fj(m),
        Ig::D(m) => fd(m),
    }
}

// ---------------------------------------------------------------------------------------------
// part A: single records

fn record_cases(recs: &[(String, Rec)], nt: usize, rng: &mut Rng, file: &mut String, tag: &str) -> Vec<Value> {
    let mut cases = Vec::new();
    for (ri, (name, rec)) in recs.iter().enumerate() {
        let ig = build(std::slice::from_ref(rec));
        for k in 0..nt {
            let t = sample_t(rng, k);
            let v = rng.log_range(1.0e3, 1.0e7);
            let n = [rng.log_range(0.5, 50.0)];
            let lam = std::panic::catch_unwind(std::panic::AssertUnwindSafe(|| {
                with_ig(&ig, |m| lam_of(m, t)[0], |m| lam_of(m, t)[0])
            }));
            let id = format!("{tag}_{ri}_{k}");
            let lam = match lam {
                Ok(x) if x.is_finite() => x,
                other => {
                    cases.push(json!({"id": id, "record": name, "model": rec.json(), "kind": rec.kind(), "T": t,
                        "error": format!("ln_lambda3 not finite / panicked: {:?}", other.ok())}));
                    continue;
                }
            };
            let (cp_state, cp_direct) = cp_values(&ig, t, v, &n);
            let g_ref = if k == 0 { Some(reference_gibbs(&ig)) } else { None };
            let ts = dy(t);
            let tol_l = 1e-9 * (1.0 + lam.abs());
            let tol_c = 1e-9 * cp_direct.abs().max(1.0);
            if cp_state.is_finite() && cp_direct.is_finite() {
                goal(file, &format!("lam_{id}"), &format!("({})", rec.lam(&ts)), lam, tol_l, "c10_lam.");
                goal(file, &format!("cpS_{id}"), &format!("({} * Q_RGAS)", rec.cp_over_r(&ts)), cp_state, tol_c, "c10_lam.");
                goal(file, &format!("cpD_{id}"), &format!("({} * Q_RGAS)", rec.cp_over_r(&ts)), cp_direct, tol_c, "c10_lam.");
            }
            cases.push(json!({"id": id, "record": name, "model": rec.json(), "kind": rec.kind(), "T": t, "V": v, "N": n,
                "ln_lambda3": lam, "g_ref_over_RT": g_ref, "cp_state": cp_state, "cp_direct": cp_direct, "tol_lam": tol_l, "tol_cp": tol_c,
                "goals": [format!("lam_{id}"), format!("cpS_{id}"), format!("cpD_{id}")]}));
        }
    }
    cases
}

// ---------------------------------------------------------------------------------------------
// part B: mixtures on the ideal-gas trait (reduced units) + State-level c_p of the mixture

fn mixture_case(id: &str, names: &[String], recs: &[Rec], rng: &mut Rng, file: &mut String, corner: bool) -> Value {
    let nc = recs.len();
    let ig = build(recs);
    let t = rng.range(150.0, 1500.0);
    // total number density from 1e-12 of a typical maximum density (1e-2 / A^3) up to liquid-like values
    let ntot = rng.log_range(0.3, 30.0);
    let (rho, x) = if corner { (1.0e-14, corner_x(rng, nc)) } else { (rng.log_range(1.0e-14, 3.0e-2), sample_x_trace(rng, nc)) };
    let v = ntot / rho;
    let n: Vec<f64> = x.iter().map(|xi| xi * ntot).collect();
    let ident = trait_identities(&ig, t, v, &n);
    let jet = with_ig(&ig, |m| ig_jet(m, t, v, &n), |m| ig_jet(m, t, v, &n));
    let (cp_state, cp_direct) = cp_values(&ig, t, v, &n);
    let cs = format!("[{}]", recs.iter().zip(&n).map(|(r, x)| r.icomp(*x)).collect::<Vec<_>>().join("; "));
    let (ts, vs) = (dy(t), dy(v));
    writeln!(file, "Definition cs_{id} : list icomp := {cs}.").unwrap();
    // scales: sum of the absolute values of the terms of each quantity
    let lam = with_ig(&ig, |m| lam_of(m, t), |m| lam_of(m, t));
    let s_a: f64 = (0..nc).map(|i| n[i] * t * (lam[i].abs() + (n[i] / v).ln().abs() + 1.0)).sum();
    let rel = 1e-9;
    let mut goals = Vec::new();
    let mut g = |file: &mut String, nm: &str, model: String, val: f64, tol: f64, tac: &str| {
        let name = format!("{nm}_{id}");
        goal(file, &name, &model, val, tol, tac);
        goals.push(name);
    };
    g(file, "A", format!("A_ig {ts} {vs} cs_{id}"), jet.a, rel * s_a, &format!("c10_helm cs_{id}."));
    g(file, "AV", format!("- p_ig {ts} {vs} cs_{id}"), jet.a_v, rel * ntot * t / v, &format!("c10_helm cs_{id}."));
    g(file, "AT", format!("dA_dT {ts} {vs} cs_{id}"), jet.a_t, rel * (s_a / t + jet.a_t.abs()) * 10.0, &format!("c10_helm cs_{id}."));
    g(file, "ATT", format!("d2A_dT2 {ts} cs_{id}"), jet.a_tt, rel * (jet.a_tt.abs() + ntot / t) * 10.0, &format!("c10_helm cs_{id}."));
    for i in 0..nc {
        g(
            file,
            &format!("AN{i}"),
            format!("mu_ig {ts} {vs} {} {}", recs[i].icomp(n[i]), dy(n[i])),
            jet.a_n[i],
            rel * t * (lam[i].abs() + (n[i] / v).ln().abs() + 1.0),
            &format!("c10_helm cs_{id}."),
        );
    }
    // State-level c_p of the mixture (J/mol/K) vs mole-fraction average of the correlations
    let mix = if recs[0].is_joback() {
        let l: Vec<String> = recs
            .iter()
            .zip(&n)
            .map(|(r, x)| format!("mk_jrec {} {}", dy(*x), r.jargs()))
            .collect();
        format!("joback_mix_cp {ts} [{}]", l.join("; "))
    } else {
        let l: Vec<String> = recs.iter().zip(&n).map(|(r, x)| format!("({}, {})", dy(*x), r.drec())).collect();
        format!("dippr_mix_cp {ts} [{}]", l.join("; "))
    };
    let tol_c = 1e-9 * cp_direct.abs().max(1.0);
    g(file, "cpS", format!("({mix} * Q_RGAS)"), cp_state, tol_c, "c10_mix.");
    g(file, "cpD", format!("({mix} * Q_RGAS)"), cp_direct, tol_c, "c10_mix.");
    // the code's formula on the model jet: c_p / R = cp_mix
    g(file, "cpM", format!("(cp_mix {ts} {vs} cs_{id} * Q_RGAS)"), cp_state, tol_c * 10.0, &format!("c10_helm cs_{id}."));
    json!({"id": id, "records": names, "models": recs.iter().map(|r| r.json()).collect::<Vec<_>>(), "T": t, "V": v, "N": n,
        "A": jet.a, "A_V": jet.a_v, "A_T": jet.a_t, "A_TT": jet.a_tt, "A_N": jet.a_n,
        "cp_state": cp_state, "cp_direct": cp_direct, "tol_cp": tol_c, "goals": goals, "corner": corner, "identities": ident})
}

/// rho_i = 0 guard: a mixture with an absent component must give the Helmholtz energy (and T, V derivatives) of the subset
fn guard_case(names: &[String], recs: &[Rec], rng: &mut Rng) -> Value {
    let nc = recs.len();
    let ig = build(recs);
    let t = rng.range(150.0, 1500.0);
    let v = rng.log_range(1.0e3, 1.0e8);
    let zero = rng.below(nc);
    let v = if rng.f64() < 0.5 { v } else { rng.log_range(1.0e8, 1.0e15) };
    let n: Vec<f64> = (0..nc).map(|i| if i == zero { 0.0 } else { rng.log_range(0.3, 30.0) }).collect();
    let keep: Vec<usize> = (0..nc).filter(|i| *i != zero).collect();
    let nk: Vec<f64> = keep.iter().map(|i| n[*i]).collect();
    let full = with_ig(&ig, |m| ig_jet(m, t, v, &n), |m| ig_jet(m, t, v, &n));
    let sub = with_ig(&ig, |m| ig_jet(&Components::subset(m, &keep), t, v, &nk), |m| ig_jet(&Components::subset(m, &keep), t, v, &nk));
    json!({"records": names, "T": t, "V": v, "N": n, "zero": zero,
        "full": [full.a, full.a_t, full.a_v, full.a_tt], "subset": [sub.a, sub.a_t, sub.a_v, sub.a_tt],
        "finite": full.a.is_finite() && full.a_t.is_finite() && full.a_v.is_finite() && full.a_tt.is_finite()})
}

// ---------------------------------------------------------------------------------------------
// part C: the State API with a residual model

type Getter<E> = (String, Box<dyn Fn(&State<E>, Contributions) -> f64>);

fn getters<I: IdealGas + 'static>(nc: usize) -> Vec<Getter<EquationOfState<I, ResidualModel>>> {
    type S<I> = State<EquationOfState<I, ResidualModel>>;
    let mut g: Vec<Getter<EquationOfState<I, ResidualModel>>> = Vec::new();
    macro_rules! add {
        ($name:expr, $f:expr) => {
            g.push(($name.to_string(), Box::new($f)));
        };
    }
    add!("G_pressure", |s: &S<I>, c| s.pressure(c).to_reduced());
    add!("G_compressibility", |s: &S<I>, c| s.compressibility(c));
    add!("G_dp_dv", |s: &S<I>, c| s.dp_dv(c).to_reduced());
    add!("G_dp_drho", |s: &S<I>, c| s.dp_drho(c).to_reduced());
    add!("G_dp_dt", |s: &S<I>, c| s.dp_dt(c).to_reduced());
    add!("G_d2p_dv2", |s: &S<I>, c| s.d2p_dv2(c).to_reduced());
    add!("G_d2p_drho2", |s: &S<I>, c| s.d2p_drho2(c).to_reduced());
    for i in 0..nc {
        add!(format!("G_dp_dni {i}"), move |s: &S<I>, c| s.dp_dni(c).to_reduced()[i]);
        add!(format!("G_chemical_potential {i}"), move |s: &S<I>, c| s.chemical_potential(c).to_reduced()[i]);
        add!(format!("G_dmu_dt {i}"), move |s: &S<I>, c| s.dmu_dt(c).to_reduced()[i]);
        for j in 0..nc {
            add!(format!("G_dmu_dni {i} {j}"), move |s: &S<I>, c| s.dmu_dni(c).to_reduced()[[i, j]]);
        }
    }
    add!("G_entropy", |s: &S<I>, c| s.entropy(c).to_reduced());
    add!("G_molar_entropy", |s: &S<I>, c| s.molar_entropy(c).to_reduced());
    add!("G_specific_entropy", |s: &S<I>, c| s.specific_entropy(c).to_reduced());
    add!("G_ds_dt", |s: &S<I>, c| s.ds_dt(c).to_reduced());
    add!("G_d2s_dt2", |s: &S<I>, c| s.d2s_dt2(c).to_reduced());
    add!("G_helmholtz_energy", |s: &S<I>, c| s.helmholtz_energy(c).to_reduced());
    add!("G_molar_helmholtz_energy", |s: &S<I>, c| s.molar_helmholtz_energy(c).to_reduced());
    add!("G_specific_helmholtz_energy", |s: &S<I>, c| s.specific_helmholtz_energy(c).to_reduced());
    add!("G_c_v", |s: &S<I>, c| s.molar_isochoric_heat_capacity(c).to_reduced());
    add!("G_specific_c_v", |s: &S<I>, c| s.specific_isochoric_heat_capacity(c).to_reduced());
    add!("G_dc_v_dt", |s: &S<I>, c| s.dc_v_dt(c).to_reduced());
    add!("G_c_p", |s: &S<I>, c| s.molar_isobaric_heat_capacity(c).to_reduced());
    add!("G_specific_c_p", |s: &S<I>, c| s.specific_isobaric_heat_capacity(c).to_reduced());
    add!("G_enthalpy", |s: &S<I>, c| s.enthalpy(c).to_reduced());
    add!("G_molar_enthalpy", |s: &S<I>, c| s.molar_enthalpy(c).to_reduced());
    add!("G_specific_enthalpy", |s: &S<I>, c| s.specific_enthalpy(c).to_reduced());
    add!("G_internal_energy", |s: &S<I>, c| s.internal_energy(c).to_reduced());
    add!("G_molar_internal_energy", |s: &S<I>, c| s.molar_internal_energy(c).to_reduced());
    add!("G_specific_internal_energy", |s: &S<I>, c| s.specific_internal_energy(c).to_reduced());
    add!("G_gibbs_energy", |s: &S<I>, c| s.gibbs_energy(c).to_reduced());
    add!("G_molar_gibbs_energy", |s: &S<I>, c| s.molar_gibbs_energy(c).to_reduced());
    add!("G_specific_gibbs_energy", |s: &S<I>, c| s.specific_gibbs_energy(c).to_reduced());
    g
}

struct StateCase {
    json: Value,
    coq: String,
}

#[allow(clippy::too_many_arguments)]
fn state_case<I: IdealGas + 'static>(
    id: &str,
    cfg: &Config,
    ig: Arc<I>,
    ig_desc: &Value,
    t: f64,
    v: f64,
    n: &[f64],
    eta_frac: f64,
) -> Option<StateCase> {
    let nc = n.len();
    let eos = Arc::new(EquationOfState::new(ig.clone(), cfg.model.clone()));
    let st = State::new_nvt(&eos, Temperature::from_reduced(t), Volume::from_reduced(v), &Moles::from_reduced(Array1::from_vec(n.to_vec()))).ok()?;
    let ntot: f64 = n.iter().sum();
    let mw = st.total_molar_weight().to_reduced();
    let r = Contributions::Residual;
    // primitive jets
    let ij = ig_jet(&*ig, t, v, n);
    let res_a = st.residual_helmholtz_energy().to_reduced();
    let res_t = -st.residual_entropy().to_reduced();
    let res_v = -st.pressure(r).to_reduced();
    let res_n = st.residual_chemical_potential().to_reduced();
    let res_tt = -st.ds_res_dt().to_reduced();
    let res_vv = -st.dp_dv(r).to_reduced();
    let res_vt = -st.dp_dt(r).to_reduced();
    let res_vn = -st.dp_dni(r).to_reduced();
    let res_tn = st.dmu_res_dt().to_reduced();
    let res_nn = st.dmu_dni(r).to_reduced();
    let res_ttt = -st.d2s_res_dt2().to_reduced();
    let res_vvv = -st.d2p_dv2(r).to_reduced();
    let mut all = vec![ij.a, ij.a_t, ij.a_tt, ij.a_ttt, res_a, res_t, res_v, res_tt, res_vv, res_vt, res_ttt, res_vvv, mw];
    all.extend(ij.a_n.iter());
    all.extend(ij.a_tn.iter());
    all.extend(res_n.iter());
    all.extend(res_vn.iter());
    all.extend(res_tn.iter());
    all.extend(res_nn.iter());
    if !all.iter().all(|x| x.is_finite()) {
        return None;
    }
    let mut coq = String::new();
    writeln!(coq, "Definition st_{id} : state := mk_state {} {} [{}] {}.", dy(t), dy(v), n.iter().map(|x| dy(*x)).collect::<Vec<_>>().join("; "), dy(mw)).unwrap();
    let mut igm = format!("Definition ig_{id} (d : pderiv) : R := match d with\n | Zeroth => {}\n | First DT => {}\n | Second DT => {}\n | Third DT => {}\n", dy(ij.a), dy(ij.a_t), dy(ij.a_tt), dy(ij.a_ttt));
    let mut rsm = format!(
        "Definition res_{id} (d : pderiv) : R := match d with\n | Zeroth => {}\n | First DT => {}\n | First DV => {}\n | Second DT => {}\n | Second DV => {}\n | SecondMixed DV DT => {}\n | Third DT => {}\n | Third DV => {}\n",
        dy(res_a), dy(res_t), dy(res_v), dy(res_tt), dy(res_vv), dy(res_vt), dy(res_ttt), dy(res_vvv)
    );
    for i in 0..nc {
        writeln!(igm, " | First (DN {i}) => {}\n | SecondMixed DT (DN {i}) => {}", dy(ij.a_n[i]), dy(ij.a_tn[i])).unwrap();
        writeln!(rsm, " | First (DN {i}) => {}\n | SecondMixed DV (DN {i}) => {}\n | SecondMixed DT (DN {i}) => {}", dy(res_n[i]), dy(res_vn[i]), dy(res_tn[i])).unwrap();
        for j in 0..nc {
            writeln!(rsm, " | SecondMixed (DN {i}) (DN {j}) => {}", dy(res_nn[[i, j]])).unwrap();
        }
    }
    igm.push_str(" | _ => 0 end.\n");
    rsm.push_str(" | _ => 0 end.\n");
    coq.push_str(&igm);
    coq.push_str(&rsm);
    writeln!(coq, "Ltac ev_{id} := c10_state st_{id} ig_{id} res_{id}.").unwrap();

    // getters x selectors
    let cs = [("IdealGas", Contributions::IdealGas), ("Residual", Contributions::Residual), ("Total", Contributions::Total)];
    // scales of composite quantities
    let p_ig = ntot / v * t;
    let e_scale = (t * ij.a_t).abs() + (t * res_t).abs() + ij.a.abs() + res_a.abs() + (p_ig * v).abs() + (res_v * v).abs();
    let rho = ntot / v;
    let dpdv_ig = -rho * t / v;
    let dpdv_tot = dpdv_ig - res_vv;
    let dpdt_tot = rho - res_vt;
    let kappa = (dpdv_ig.abs() + res_vv.abs()) / dpdv_tot.abs();
    let cp_extra = t / ntot * (dpdt_tot * dpdt_tot / dpdv_tot.abs()) * (kappa + (rho.abs() + res_vt.abs()) / dpdt_tot.abs().max(1e-300)) + 1.0
        + t / ntot * (ij.a_tt.abs() + res_tt.abs());
    let d2_ig = 2.0 * rho * t / (v * v);
    let d2rho_extra = v / (rho * rho) * (v * (d2_ig.abs() + res_vvv.abs()) + 2.0 * (dpdv_ig.abs() + res_vv.abs()));
    let mut rows = Vec::new();
    let mut goals = Vec::new();
    let mut ok = true;
    for (gi, (name, f)) in getters::<I>(nc).iter().enumerate() {
        let vals: Vec<f64> = cs.iter().map(|(_, c)| f(&st, *c)).collect();
        if !vals.iter().all(|x| x.is_finite()) {
            ok = false;
            rows.push(json!({"getter": name, "values": vals.iter().map(|x| format!("{x}")).collect::<Vec<_>>(), "nonfinite": true}));
            continue;
        }
        let mut scale = vals.iter().map(|x| x.abs()).sum::<f64>();
        let base = name.split(' ').next().unwrap();
        let per = |x: f64| match base {
            b if b.contains("specific") => x / ntot / mw,
            b if b.contains("molar") => x / ntot,
            _ => x,
        };
        if base.contains("enthalpy") || base.contains("internal_energy") || base.contains("gibbs") || base.contains("helmholtz") {
            scale += per(e_scale);
        }
        if base == "G_entropy" || base == "G_molar_entropy" || base == "G_specific_entropy" {
            scale += per(e_scale / t);
        }
        if base == "G_c_p" {
            scale += cp_extra;
        }
        if base == "G_specific_c_p" {
            scale += cp_extra / mw;
        }
        if base == "G_c_v" || base == "G_specific_c_v" {
            scale += t / ntot * (ij.a_tt.abs() + res_tt.abs()) / if base == "G_c_v" { 1.0 } else { mw };
        }
        if base == "G_dc_v_dt" {
            scale += (t * (ij.a_ttt.abs() + res_ttt.abs()) + ij.a_tt.abs() + res_tt.abs()) / ntot;
        }
        if base == "G_d2p_drho2" {
            scale += d2rho_extra;
        }
        if base == "G_dp_drho" {
            scale += v / rho * (dpdv_ig.abs() + res_vv.abs());
        }
        if base == "G_compressibility" {
            scale += 1.0 + (res_v / p_ig).abs();
        }
        scale = scale.max(1e-300);
        let tol = 1e-9 * scale;
        let mut gn = Vec::new();
        for (k, (cn, _)) in cs.iter().enumerate() {
            let nm = format!("g{gi}_{cn}_{id}");
            goal(&mut coq, &nm, &format!("value 1 st_{id} ig_{id} res_{id} ({name}) {cn}"), vals[k], tol, &format!("ev_{id}."));
            gn.push(nm.clone());
            goals.push(nm);
        }
        rows.push(json!({"getter": name, "IdealGas": vals[0], "Residual": vals[1], "Total": vals[2], "scale": scale, "goals": gn}));
    }
    // ideal pressure in SI: rho R T with the SI constants, and from the Helmholtz energy of the ideal-gas trait
    let p_si = (st.pressure(Contributions::IdealGas) / PASCAL).into_value();
    let rho_si = (st.density / (MOL / METER.powi::<P3>())).into_value();
    let t_si = (st.temperature / KELVIN).into_value();
    goal(&mut coq, &format!("pSI_{id}"), &format!("({} * Q_RGAS * {})", dy(rho_si), dy(t_si)), p_si, 1e-12 * p_si.abs(), "c10_arith.");
    goal(&mut coq, &format!("pAV_{id}"), &format!("(- {} * (Q_KB / 1e-30))", dy(ij.a_v)), p_si, 1e-12 * p_si.abs(), "c10_arith.");
    goal(&mut coq, &format!("pMod_{id}"), &format!("(pressure 1 st_{id} res_{id} IdealGas)"), -ij.a_v, 1e-12 * ij.a_v.abs(), &format!("ev_{id}."));
    goals.push(format!("pSI_{id}"));
    goals.push(format!("pAV_{id}"));
    goals.push(format!("pMod_{id}"));
    // ideal mixing in SI (J/mol): mu_i^ig(mixture) - mu_i^ig(pure i at the same T, V, total moles) = R T ln x_i
    let mut mixing = Vec::new();
    if nc > 1 {
        let mu_mix = st.chemical_potential(Contributions::IdealGas);
        for i in 0..nc {
            let sub = Arc::new(eos.subset(&[i]));
            let pure = State::new_nvt(&sub, st.temperature, st.volume, &(arr1(&[1.0]) * st.total_moles)).ok()?;
            let mu_p = pure.chemical_potential(Contributions::IdealGas);
            let m1 = (mu_mix.get(i) / (JOULE / MOL)).into_value();
            let m0 = (mu_p.get(0) / (JOULE / MOL)).into_value();
            let tol = 1e-10 * (m1.abs() + m0.abs() + 8.3 * t_si);
            let nm = format!("mix{i}_{id}");
            let nsum = n.iter().map(|x| dy(*x)).collect::<Vec<_>>().join(" + ");
            goal(
                &mut coq,
                &nm,
                &format!("({} - Q_RGAS * {} * ln ({} / ({nsum})))", dy(m1), dy(t_si), dy(n[i])),
                m0,
                tol,
                "c10_arith.",
            );
            goals.push(nm);
            mixing.push(json!({"component": i, "mu_mix": m1, "mu_pure": m0, "x": n[i] / ntot, "RTlnx": 8.31446261815324 * t_si * (n[i] / ntot).ln(), "tol": tol}));
        }
    }
    // chemical_potential_contributions(component, selector): lists per contribution; Total = IdealGas entry ++ Residual entries
    let mut mu_contrib = Vec::new();
    for i in 0..nc {
        let sums: Vec<(usize, f64, f64)> = cs
            .iter()
            .map(|(_, c)| {
                let l = st.chemical_potential_contributions(i, *c);
                let vals: Vec<f64> = l.iter().map(|(_, m)| m.to_reduced()).collect();
                (vals.len(), vals.iter().sum::<f64>(), vals.iter().map(|z| z.abs()).sum::<f64>())
            })
            .collect();
        let mu = |c: Contributions| st.chemical_potential(c).to_reduced()[i];
        mu_contrib.push(json!({"component": i, "len": [sums[0].0, sums[1].0, sums[2].0], "sum": [sums[0].1, sums[1].1, sums[2].1],
            "scale": sums[2].2 + sums[0].2 + sums[1].2,
            "getter": [mu(Contributions::IdealGas), mu(Contributions::Residual), mu(Contributions::Total)]}));
    }
    // relabelling through EquationOfState::subset with a permutation (same number of components): the ideal-gas part must follow
    let mut subset_perm = Value::Null;
    if nc > 1 {
        let perm: Vec<usize> = (0..nc).rev().collect();
        let sub = Arc::new(eos.subset(&perm));
        let np: Vec<f64> = perm.iter().map(|&i| n[i]).collect();
        if let Ok(sp) = State::new_nvt(&sub, Temperature::from_reduced(t), Volume::from_reduced(v), &Moles::from_reduced(Array1::from_vec(np))) {
            let c = Contributions::IdealGas;
            let mu0 = st.chemical_potential(c).to_reduced();
            let mu1 = sp.chemical_potential(c).to_reduced();
            subset_perm = json!({"perm": perm,
                "A": [st.helmholtz_energy(c).to_reduced(), sp.helmholtz_energy(c).to_reduced()],
                "S": [st.entropy(c).to_reduced(), sp.entropy(c).to_reduced()],
                "cp": [st.molar_isobaric_heat_capacity(c).to_reduced(), sp.molar_isobaric_heat_capacity(c).to_reduced()],
                "mu": [perm.iter().map(|&i| mu0[i]).collect::<Vec<f64>>(), mu1.to_vec()]});
        }
    }
    let json = json!({"id": id, "config": cfg.name, "ideal_gas": ig_desc, "mu_contributions": mu_contrib, "subset_permutation": subset_perm, "T": t, "V": v, "N": n, "eta_over_eta_max": eta_frac,
        "getters": rows, "all_finite": ok, "p_ig_SI": p_si, "rho_SI": rho_si, "T_SI": t_si, "minus_dAig_dV_reduced": -ij.a_v,
        "mixing": mixing, "goals": goals});
    Some(StateCase { json, coq })
}

/// DFT profile with an ideal-gas model attached: the selector-taking profile properties (feos-dft/src/profile/properties.rs:
/// entropy_density / internal_energy_density for Total and Residual; IdealGas panics by design).  Total - Residual at sampled grid
/// points is compared with (i) the bulk State of the same T and partial densities (oracle) and (ii) the Coq model of the local
/// ideal-gas Helmholtz energy density (interval goals: -dA_dT(T, 1, rho) and A_ig - T dA_dT).
fn dft_case<I: IdealGas + 'static>(id: &str, names: &[String], recs: &[Rec], ig: Arc<I>, pnames: &[&str], rng: &mut Rng, file: &mut String) -> Option<Value> {
    use feos::pcsaft::PcSaftFunctional;
    use feos_dft::{Axis, DFTProfile, Grid};
    use ndarray::{Array2, Ix1};
    use quantity::{Density, Length};
    let nc = recs.len();
    let params = configs::pcsaft_params(pnames, "gross2001.json", None);
    let func = Arc::new(EquationOfState::new(ig, Arc::new(PcSaftFunctional::new(Arc::new(params)))));
    let t = rng.range(200.0, 450.0);
    // a smooth (tanh) profile between a vapour-like and a liquid-like composition, arbitrary (not an equilibrium profile)
    let ngrid = 64usize;
    let l = 60.0;
    let x_l = sample_x(rng, nc);
    let x_v = sample_x_trace(rng, nc);
    let (rho_l, rho_v) = (rng.range(4.0e-3, 7.0e-3), rng.log_range(1.0e-7, 1.0e-4));
    let mut dens = Array2::<f64>::zeros((nc, ngrid));
    for i in 0..nc {
        for z in 0..ngrid {
            let zz = (z as f64 + 0.5) / ngrid as f64 * l;
            let w = 0.5 * (1.0 + ((zz - 0.5 * l) / 4.0).tanh());
            dens[[i, z]] = (1.0 - w) * rho_v * x_v[i] + w * rho_l * x_l[i];
        }
    }
    let nb: Vec<f64> = (0..nc).map(|i| dens[[i, 0]] * 1000.0).collect();
    let bulk = State::new_nvt(&func, Temperature::from_reduced(t), Volume::from_reduced(1000.0), &Moles::from_reduced(Array1::from_vec(nb))).ok()?;
    let grid = Grid::Cartesian1(Axis::new_cartesian(ngrid, Length::from_reduced(l), None));
    let density = Density::from_reduced(dens.clone());
    let profile: DFTProfile<Ix1, _> = DFTProfile::new(grid, &bulk, None, Some(&density), None);
    let s_tot = profile.entropy_density(Contributions::Total).ok()?.to_reduced();
    let s_res = profile.entropy_density(Contributions::Residual).ok()?.to_reduced();
    let u_tot = profile.internal_energy_density(Contributions::Total).ok()?.to_reduced();
    let u_res = profile.internal_energy_density(Contributions::Residual).ok()?.to_reduced();
    let s_int = profile.entropy(Contributions::Total).ok()?.to_reduced() - profile.entropy(Contributions::Residual).ok()?.to_reduced();
    let ts = dy(t);
    let mut points = Vec::new();
    let mut goals = Vec::new();
    for (k, z) in [1usize, ngrid / 4, ngrid / 2 - 2, ngrid / 2 + 1, 3 * ngrid / 4, ngrid - 2].iter().enumerate() {
        let rho: Vec<f64> = (0..nc).map(|i| dens[[i, *z]]).collect();
        let v = 1.0 / rho.iter().sum::<f64>() * 8.0; // bulk state with 8 particles at the local partial densities
        let n: Vec<f64> = rho.iter().map(|r| r * v).collect();
        let st = State::new_nvt(&func, Temperature::from_reduced(t), Volume::from_reduced(v), &Moles::from_reduced(Array1::from_vec(n.clone()))).ok()?;
        let s_ig_bulk = st.entropy(Contributions::IdealGas).to_reduced() / v;
        let u_ig_bulk = st.internal_energy(Contributions::IdealGas).to_reduced() / v;
        let (ds, du) = (s_tot[*z] - s_res[*z], u_tot[*z] - u_res[*z]);
        let lam = lam_of(&*func, t);
        let term: f64 = (0..nc).map(|i| rho[i] * (lam[i].abs() + rho[i].ln().abs() + 1.0)).sum();
        let s_scale = term * 10.0 + s_tot[*z].abs() + s_res[*z].abs();
        let u_scale = t * term * 10.0 + u_tot[*z].abs() + u_res[*z].abs();
        let cs = format!("[{}]", recs.iter().zip(&rho).map(|(r, x)| r.icomp(*x)).collect::<Vec<_>>().join("; "));
        writeln!(file, "Definition cs_{id}_{k} : list icomp := {cs}.").unwrap();
        let gs = format!("dftS_{id}_{k}");
        let gu = format!("dftU_{id}_{k}");
        goal(file, &gs, &format!("(- dA_dT {ts} 1 cs_{id}_{k})"), ds, 1e-9 * s_scale, &format!("c10_helm cs_{id}_{k}."));
        goal(file, &gu, &format!("(A_ig {ts} 1 cs_{id}_{k} - {ts} * dA_dT {ts} 1 cs_{id}_{k})"), du, 1e-9 * u_scale, &format!("c10_helm cs_{id}_{k}."));
        goals.push(gs.clone());
        goals.push(gu.clone());
        points.push(json!({"z": z, "rho": rho, "s_total": s_tot[*z], "s_residual": s_res[*z], "s_ideal_bulk": s_ig_bulk, "s_scale": s_scale,
            "u_total": u_tot[*z], "u_residual": u_res[*z], "u_ideal_bulk": u_ig_bulk, "u_scale": u_scale, "goals": [gs, gu]}));
    }
    Some(json!({"id": id, "functional": format!("PcSaftFunctional{:?}", pnames), "records": names, "models": recs.iter().map(|r| r.json()).collect::<Vec<_>>(),
        "T": t, "grid_points": ngrid, "length": l, "points": points, "goals": goals, "entropy_total_minus_residual_integrated": s_int}))
}

/// zero-density sweep (support search): residual quantities relative to their ideal-gas scale along rho -> 0
fn zero_density<I: IdealGas + 'static>(cfg: &Config, ig: Arc<I>, t: f64, x: &[f64]) -> Value {
    let eos = Arc::new(EquationOfState::new(ig, cfg.model.clone()));
    let ntot = 10.0;
    let n: Vec<f64> = x.iter().map(|xi| xi * ntot).collect();
    let rho_max = cfg.model.compute_max_density(&Array1::from_vec(n.clone()));
    let fracs: Vec<f64> = vec![1e-2, 3e-3, 1e-3, 1e-4, 1e-5, 1e-6, 1e-7, 1e-8, 1e-9, 1e-10, 1e-11, 1e-12];
    let mut rows = Vec::new();
    for f in fracs {
        let v = ntot / (f * rho_max);
        let st = match State::new_nvt(&eos, Temperature::from_reduced(t), Volume::from_reduced(v), &Moles::from_reduced(Array1::from_vec(n.clone()))) {
            Ok(s) => s,
            Err(e) => {
                rows.push(json!({"frac": f, "error": format!("{e}")}));
                continue;
            }
        };
        let p_ig = st.pressure(Contributions::IdealGas).to_reduced();
        let z_res = st.pressure(Contributions::Residual).to_reduced() / p_ig;
        // right away: a later higher-order call refreshes the cached first derivative with a value that differs by round-off
        let tot_minus_ig = (st.pressure(Contributions::Total).to_reduced() - p_ig) / p_ig;
        let a_res = st.residual_helmholtz_energy().to_reduced() / (ntot * t);
        let s_res = st.residual_entropy().to_reduced() / ntot;
        let mu_res = st.residual_chemical_potential().to_reduced().iter().map(|m| (m / t).abs()).fold(0.0, f64::max);
        let cv_res = st.residual_molar_isochoric_heat_capacity().to_reduced();
        let h_res = st.residual_molar_enthalpy().to_reduced() / t;
        let dpdv_rel = st.dp_dv(Contributions::Residual).to_reduced() / st.dp_dv(Contributions::IdealGas).to_reduced();
        // magnitude of the individual contributions (round-off scale of the sum)
        let a_abs: f64 = st.residual_helmholtz_energy_contributions().iter().map(|(_, a)| a.to_reduced().abs()).sum::<f64>() / (ntot * t);
        rows.push(json!({"frac": f, "a_abs": a_abs, "z_res": z_res, "a_res": a_res, "s_res": s_res, "mu_res": mu_res, "cv_res": cv_res, "h_res": h_res,
            "dpdv_res_rel": dpdv_rel, "p_tot_minus_ig_rel": tot_minus_ig}));
    }
    json!({"config": cfg.name, "T": t, "x": x, "rho_max": rho_max, "rows": rows})
}

// a Joback / DIPPR record per component of a residual configuration (the property quantifies over all pairs)
fn pick_ig(rng: &mut Rng, nc: usize, joback: &[(String, Rec)], dippr: &[(String, Rec)], use_joback: bool) -> (Vec<String>, Vec<Rec>) {
    let pool = if use_joback { joback } else { dippr };
    let mut names = Vec::new();
    let mut recs = Vec::new();
    for _ in 0..nc {
        let (n, r) = &pool[rng.below(pool.len())];
        names.push(n.clone());
        recs.push(r.clone());
    }
    (names, recs)
}

fn sample_x(rng: &mut Rng, nc: usize) -> Vec<f64> {
    let mut x: Vec<f64> = (0..nc).map(|_| rng.range(0.05, 1.0)).collect();
    let s: f64 = x.iter().sum();
    x.iter_mut().for_each(|xi| *xi /= s);
    x
}

/// composition in the open simplex; half of the time one component is a trace (x log-uniform in [1e-6, 1e-1])
fn sample_x_trace(rng: &mut Rng, nc: usize) -> Vec<f64> {
    let mut x = sample_x(rng, nc);
    if nc > 1 && rng.f64() < 0.5 {
        let j = rng.below(nc);
        let xt = rng.log_range(1e-6, 1e-1);
        with_trace(&mut x, j, xt);
    }
    x
}

fn with_trace(x: &mut [f64], j: usize, xt: f64) {
    let rest: f64 = x.iter().enumerate().filter(|(i, _)| *i != j).map(|(_, v)| *v).sum();
    for (i, xi) in x.iter_mut().enumerate() {
        *xi = if i == j { xt } else { *xi / rest * (1.0 - xt) };
    }
}

/// the corner of the property's quantifier: total density 1e-12 rho_max and a trace component x_j = 1e-6
fn corner_x(rng: &mut Rng, nc: usize) -> Vec<f64> {
    let mut x = sample_x(rng, nc);
    if nc > 1 {
        let j = rng.below(nc);
        with_trace(&mut x, j, 1e-6);
    }
    x
}

/// ideal-gas identities on the IdealGas trait alone (reduced units) at one state: ideal mixing for every component
/// (pure reference = the subset model at the same T, V, total N) and the Euler relation A = -pV + sum mu_i N_i
fn trait_identities(ig: &Ig, t: f64, v: f64, n: &[f64]) -> Value {
    let nc = n.len();
    let ntot: f64 = n.iter().sum();
    let jet = with_ig(ig, |m| ig_jet(m, t, v, n), |m| ig_jet(m, t, v, n));
    let lam = with_ig(ig, |m| lam_of(m, t), |m| lam_of(m, t));
    let mut mixing = Vec::new();
    for i in 0..nc {
        let pure = with_ig(
            ig,
            |m| ig_jet(&Components::subset(m, &[i]), t, v, &[ntot]),
            |m| ig_jet(&Components::subset(m, &[i]), t, v, &[ntot]),
        );
        let scale = t * (lam[i].abs() + (n[i] / v).ln().abs() + (ntot / v).ln().abs() + 1.0);
        mixing.push(json!({"component": i, "x": n[i] / ntot, "rho_i": n[i] / v, "mu_mix": jet.a_n[i], "mu_pure": pure.a_n[0],
            "T_ln_x": t * (n[i] / ntot).ln(), "tol": 1e-11 * scale}));
    }
    let mun: f64 = (0..nc).map(|i| jet.a_n[i] * n[i]).sum();
    let finite = [jet.a, jet.a_t, jet.a_v, jet.a_tt].iter().chain(jet.a_n.iter()).all(|z| z.is_finite());
    let euler_scale: f64 = jet.a.abs() + (jet.a_v * v).abs() + (0..nc).map(|i| (jet.a_n[i] * n[i]).abs()).sum::<f64>();
    json!({"T": t, "V": v, "N": n, "rho": ntot / v, "mixing": mixing,
        "euler_residual": jet.a - (jet.a_v * v + mun), "euler_tol": 1e-11 * euler_scale,
        "p_residual": -jet.a_v - ntot * t / v, "p_tol": 1e-12 * ntot * t / v,
        "finite": finite})
}

fn main() {
    let cli = feos_verif::cli::Cli::parse("/verif/coq/gen/C10");
    let full = cli.full();
    let mut rng = Rng(cli.seed.wrapping_mul(0x2545F4914F6CDD1D) ^ 0xC10);
    let write = |name: &str, body: &str| std::fs::write(format!("{}/{name}", cli.out), format!("{HEADER}{body}")).unwrap();

    // ---------------- part A
    let jb_all = shipped_joback();
    let dp_all = shipped_dippr();
    let pick = |v: &[(String, Rec)], k: usize, rng: &mut Rng| -> Vec<(String, Rec)> {
        if full || k >= v.len() {
            v.to_vec()
        } else {
            let mut idx: Vec<usize> = (0..v.len()).collect();
            let mut out = Vec::new();
            for _ in 0..k {
                let j = rng.below(idx.len());
                out.push(v[idx.swap_remove(j)].clone());
            }
            out
        }
    };
    let nt = if full { 6 } else { 3 };
    let mut record_json = Vec::new();
    let mut files = Vec::new();
    let chunk = if full { 12 } else { 4 };
    let jb = pick(&jb_all, 8, &mut rng);
    // the records with fewer than 5 coefficients are always included (rare arity)
    let mut dp: Vec<(String, Rec)> = dp_all.iter().filter(|(_, r)| matches!(r, Rec::D100(c) if c.len() != 5)).take(if full { 99 } else { 2 }).cloned().collect();
    for x in pick(&dp_all, 8, &mut rng) {
        if !dp.iter().any(|(n, _)| *n == x.0) {
            dp.push(x);
        }
    }
    let nrand = if full { 40 } else { 4 };
    let mut rnd = Vec::new();
    for form in [100usize, 107, 127] {
        for k in 0..nrand {
            rnd.push((format!("random:dippr{form}:{k}"), random_dippr(&mut rng, form)));
        }
    }
    // the three test records of dippr.rs
    rnd.push(("dippr.rs:test:eq100".into(), Rec::D100(vec![276370., -2090.1, 8.125, -0.014116, 0.0000093701])));
    rnd.push(("dippr.rs:test:eq107".into(), Rec::D107([33363., 26790., 2610.5, 8896., 1169.])));
    rnd.push(("dippr.rs:test:eq127".into(), Rec::D127([3.3258E4, 3.6199E4, 1.2057E3, 1.5373E7, 3.2122E3, -1.5318E7, 3.2122E3])));
    for (tag, set) in [("jb", &jb), ("dp", &dp), ("rd", &rnd)] {
        for (ci, ch) in set.chunks(chunk).enumerate() {
            let mut body = String::new();
            let t = format!("{tag}{ci}");
            let cases = record_cases(ch, nt, &mut rng, &mut body, &t);
            let fname = format!("lam_{t}.v");
            write(&fname, &body);
            files.push(fname.clone());
            for mut c in cases {
                c["file"] = json!(fname);
                record_json.push(c);
            }
        }
    }

    // ---------------- part B
    let nmix = if full { 24 } else { 6 };
    let mut mix_json = Vec::new();
    let mut guard_json = Vec::new();
    let dpool: Vec<(String, Rec)> = dp_all.iter().cloned().chain(rnd.iter().cloned()).collect();
    for k in 0..nmix {
        let use_j = k % 2 == 0;
        // the first two cases (one Joback, one DIPPR) sit in the corner of the quantifier: rho = 1e-14 / A^3, x_j = 1e-6
        let corner = k < 2;
        let nc = if corner { 2 + rng.below(2) } else { 1 + rng.below(3) };
        let (names, recs) = pick_ig(&mut rng, nc, &jb_all, &dpool, use_j);
        let id = format!("m{k}");
        let mut body = String::new();
        let mut c = mixture_case(&id, &names, &recs, &mut rng, &mut body, corner);
        let fname = format!("mix_{id}.v");
        write(&fname, &body);
        c["file"] = json!(fname);
        files.push(fname);
        mix_json.push(c);
        let nc2 = 2 + rng.below(2);
        let (names, recs) = pick_ig(&mut rng, nc2, &jb_all, &dpool, use_j);
        guard_json.push(guard_case(&names, &recs, &mut rng));
    }

    // oracle sweep on the trait alone (cheap): thin gases, trace components, every density decade of the quantifier
    let nsweep = if full { 4000 } else { 400 };
    let mut sweep_json = Vec::new();
    for k in 0..nsweep {
        let nc = 2 + rng.below(2);
        let (names, recs) = pick_ig(&mut rng, nc, &jb_all, &dpool, k % 2 == 0);
        let ig = build(&recs);
        let t = sample_t(&mut rng, k % 3);
        let ntot = rng.log_range(0.3, 30.0);
        let rho = rng.log_range(1.0e-14, 3.0e-2);
        let x = if k % 8 == 0 { corner_x(&mut rng, nc) } else { sample_x_trace(&mut rng, nc) };
        let n: Vec<f64> = x.iter().map(|xi| xi * ntot).collect();
        let mut c = trait_identities(&ig, t, ntot / rho, &n);
        c["records"] = json!(names);
        sweep_json.push(c);
    }

    // ---------------- part F: DFT profiles (mixtures and pure) with an ideal-gas model attached
    let mut dft_json = Vec::new();
    let dft_sets: Vec<&[&str]> = if full { vec![&["propane", "butane"], &["propane"], &["propane", "hexane", "decane"], &["butane", "hexane"]] } else { vec![&["propane", "butane"], &["propane"]] };
    for (k, pn) in dft_sets.iter().enumerate() {
        let (names, recs) = pick_ig(&mut rng, pn.len(), &jb_all, &dpool, k % 2 == 0);
        let id = format!("d{k}");
        let mut body = String::new();
        let c = match build(&recs) {
            Ig::J(m) => dft_case(&id, &names, &recs, m, pn, &mut rng, &mut body),
            Ig::D(m) => dft_case(&id, &names, &recs, m, pn, &mut rng, &mut body),
        };
        if let Some(mut c) = c {
            let fname = format!("dft_{id}.v");
            write(&fname, &body);
            c["file"] = json!(fname);
            files.push(fname);
            dft_json.push(c);
        } else {
            dft_json.push(json!({"id": id, "error": "profile / bulk state could not be evaluated", "functional": format!("{:?}", pn)}));
        }
    }

    // ---------------- part C / D
    let only = cli.opt("--only");
    let quick_cfgs = ["pr2", "pcsaft_propane", "pcsaft_propane_butane_kij", "pcsaft_water_methanol", "pcsaft_co2_chlorine", "saftvrmie_ethane"];
    let cfgs: Vec<Config> = configs::all(full)
        .into_iter()
        .filter(|c| match &only {
            Some(o) => &c.name == o,
            None => full || quick_cfgs.contains(&c.name.as_str()),
        })
        // gc-PC-SAFT is left out: its parameter construction sums in HashMap order, so its values differ in the last bit from
        // process to process (observed on the molar weight) and the run would not be bit-reproducible for a fixed seed
        .filter(|c| !c.name.starts_with("uv_") && !c.name.starts_with("saftvrqmie") && !c.name.starts_with("epcsaft") && !c.name.starts_with("gcpcsaft"))
        .collect();
    let nstates = if full { 6 } else { 2 };
    let mut state_json = Vec::new();
    let mut zero_json = Vec::new();
    let mut skipped = 0usize;
    for (ci, cfg) in cfgs.iter().enumerate() {
        for k in 0..nstates {
            let use_j = (ci + k) % 2 == 0;
            let (names, recs) = pick_ig(&mut rng, cfg.ncomp, &jb_all, &dpool, use_j);
            let desc = json!({"records": names, "models": recs.iter().map(|r| r.json()).collect::<Vec<_>>()});
            let t = (cfg.t_scale * rng.range(0.5, 2.5)).clamp(150.0, 1500.0);
            // k = 0: dense, regular composition; k = 1: the corner of the quantifier (1e-12 rho_max, trace x_j = 1e-6);
            // k >= 2 (thorough): random, log-uniform density down to 1e-12 rho_max, trace compositions half of the time
            let x = match k {
                0 => sample_x(&mut rng, cfg.ncomp),
                1 => corner_x(&mut rng, cfg.ncomp),
                _ => sample_x_trace(&mut rng, cfg.ncomp),
            };
            let ntot = rng.log_range(0.5, 50.0);
            let n: Vec<f64> = x.iter().map(|xi| xi * ntot).collect();
            let rho_max = cfg.model.compute_max_density(&Array1::from_vec(n.clone()));
            let frac = match k {
                0 => rng.range(0.02, 0.85),
                1 => 1e-12,
                _ if k % 2 == 0 => rng.range(0.02, 0.85),
                _ => rng.log_range(1e-12, 0.5),
            };
            let v = ntot / (frac * rho_max);
            let id = format!("s{ci}_{k}");
            let sc = match build(&recs) {
                Ig::J(m) => state_case(&id, cfg, m, &desc, t, v, &n, frac),
                Ig::D(m) => state_case(&id, cfg, m, &desc, t, v, &n, frac),
            };
            match sc {
                Some(mut sc) => {
                    let fname = format!("state_{id}.v");
                    write(&fname, &sc.coq);
                    sc.json["file"] = json!(fname);
                    files.push(fname);
                    state_json.push(sc.json);
                }
                None => skipped += 1,
            }
        }
    }
    // zero-density sweeps (support search, no Coq goals): EVERY residual configuration of the shared set (core set in the quick tier),
    // i.e. every contribution / association topology / closed-form branch the configurations were chosen to reach; regular and
    // trace compositions; temperatures over the configuration's range incl. its lower end
    let zcfgs: Vec<Config> = configs::all(full)
        .into_iter()
        .filter(|c| match &only {
            Some(o) => &c.name == o,
            None => full || c.core,
        })
        .collect();
    let nz = if full { 4 } else { 2 };
    for cfg in zcfgs.iter() {
        for k in 0..nz {
            let (_, recs) = pick_ig(&mut rng, cfg.ncomp, &jb_all, &dpool, true);
            let t = match k {
                0 => (cfg.t_scale * rng.range(0.6, 2.5)).clamp(150.0, 1500.0),
                _ => (cfg.t_scale * rng.range(0.35, 0.8)).clamp(150.0, 1500.0),
            };
            let x = if k % 2 == 0 { sample_x(&mut rng, cfg.ncomp) } else { sample_x_trace(&mut rng, cfg.ncomp) };
            if let Ig::J(m) = build(&recs) {
                let r = std::panic::catch_unwind(std::panic::AssertUnwindSafe(|| zero_density(cfg, m, t, &x)));
                zero_json.push(match r {
                    Ok(v) => v,
                    Err(_) => json!({"config": cfg.name, "T": t, "x": x, "rho_max": null, "rows": [], "panic": true}),
                });
            }
        }
    }

    cli.write_impl(&json!({
        "files": files,
        "records": record_json,
        "mixtures": mix_json,
        "guard": guard_json,
        "trait_sweep": sweep_json,
        "dft": dft_json,
        "states": state_json,
        "states_skipped_nonfinite_or_invalid": skipped,
        "zero_density": zero_json,
        "counts": {"joback_shipped": jb_all.len(), "dippr_shipped": dp_all.len(), "joback_used": jb.len(), "dippr_used": dp.len(), "random_dippr": rnd.len(),
                   "configs": cfgs.iter().map(|c| c.name.clone()).collect::<Vec<_>>()},
    }));
}
