//! C02 — extensivity.  Emits, per configuration, the regenerated program with its degree
//! obligations and translation-validation evaluations, and runs the scaling / Euler / Gibbs-Duhem
//! oracle on the public State API (the search of DESIGN.md §4, always on).
use feos_verif::configs::{self, Config, ConfigG, RState, Rng};
use feos_verif::functionals;
use feos_verif::emit;
use feos_verif::trace;

use feos_core::{Contributions, ReferenceSystem, Residual, State};
use ndarray::Array1;
use quantity::{Moles, Temperature, Volume};
use serde_json::{json, Value};
use std::sync::Arc;

pub fn mk_state<R: Residual>(model: &Arc<R>, s: &RState) -> Option<State<R>> {
    State::new_nvt(
        model,
        Temperature::from_reduced(s.t),
        Volume::from_reduced(s.v),
        &Moles::from_reduced(Array1::from_vec(s.n.clone())),
    )
    .ok()
}

pub struct Check {
    pub name: &'static str,
    pub resid: f64,
    pub scale: f64,
}

/// Euler / Gibbs-Duhem identities and scale invariance on the public State API (reduced units)
pub fn euler_checks<R: Residual>(model: &Arc<R>, s: &RState, lam: f64) -> Vec<Check> {
    let mut out = Vec::new();
    let st = match mk_state(model, s) {
        Some(st) => st,
        None => return out,
    };
    let n = Array1::from_vec(s.n.clone());
    let nc = s.n.len();
    let v = s.v;
    let a = st.residual_helmholtz_energy().to_reduced();
    if a.is_nan() {
        // the model is undefined at this state (e.g. ePC-SAFT outside the range of its permittivity model): nothing to compare
        return out;
    }
    // conditioning of the f64 evaluation: a model whose contributions cancel (a chain functional and its ideal-chain counterpart are
    // each ~ N (m-1) ln rho and cancel to ~ N B rho in a thin gas) carries rounding noise eps * kappa relative to A^res, with
    // kappa = sum |contributions| / |A^res|; the tolerance of every identity is widened by 1e-15 * kappa / ORACLE_TOL (nothing for kappa < 1e5)
    let kappa = st.residual_helmholtz_energy_contributions().iter().map(|(_, x)| x.to_reduced().abs()).sum::<f64>() / a.abs().max(1e-300);
    let amp = 1.0 + 1e-15 * kappa / ORACLE_TOL;
    let p_res = st.pressure(Contributions::Residual).to_reduced();
    let mu = st.residual_chemical_potential().to_reduced();
    let mun: f64 = (0..nc).map(|i| mu[i] * n[i]).sum();
    let munabs: f64 = (0..nc).map(|i| (mu[i] * n[i]).abs()).sum();
    out.push(Check { name: "A=-pV+sum(mu N)", resid: a + p_res * v - mun, scale: a.abs() + (p_res * v).abs() + munabs });
    for contrib in [Contributions::Total, Contributions::Residual] {
        let dpdv = st.dp_dv(contrib).to_reduced();
        let dpdn = st.dp_dni(contrib).to_reduced();
        let s1: f64 = (0..nc).map(|i| n[i] * dpdn[i]).sum();
        let s1a: f64 = (0..nc).map(|i| (n[i] * dpdn[i]).abs()).sum();
        out.push(Check { name: "V dp/dV + sum N dp/dN = 0", resid: v * dpdv + s1, scale: (v * dpdv).abs() + s1a });
        let dmu = st.dmu_dni(contrib).to_reduced();
        for i in 0..nc {
            let s2: f64 = (0..nc).map(|j| n[j] * dmu[[i, j]]).sum();
            let s2a: f64 = (0..nc).map(|j| (n[j] * dmu[[i, j]]).abs()).sum();
            out.push(Check { name: "sum_j N_j dmu_i/dN_j = V dp/dN_i", resid: s2 - v * dpdn[i], scale: s2a + (v * dpdn[i]).abs() });
            for j in 0..i {
                out.push(Check { name: "dmu/dN symmetric", resid: dmu[[i, j]] - dmu[[j, i]], scale: dmu[[i, j]].abs() + dmu[[j, i]].abs() });
            }
        }
    }
    let dlnphi = st.dln_phi_dnj().to_reduced();
    for j in 0..nc {
        let s3: f64 = (0..nc).map(|i| n[i] * dlnphi[[i, j]]).sum();
        let s3a: f64 = (0..nc).map(|i| (n[i] * dlnphi[[i, j]]).abs()).sum();
        out.push(Check { name: "sum_i N_i dlnphi_i/dN_j = 0", resid: s3, scale: s3a + 1e-3 / n.sum() });
    }
    let pmv = st.partial_molar_volume().to_reduced();
    let s4: f64 = (0..nc).map(|i| n[i] * pmv[i]).sum();
    out.push(Check { name: "sum N_i v_i = V", resid: s4 - v, scale: v });
    // scale invariance
    let s2 = RState { t: s.t, v: s.v * lam, n: s.n.iter().map(|x| x * lam).collect() };
    if let Some(st2) = mk_state(model, &s2) {
        let a2 = st2.residual_helmholtz_energy().to_reduced();
        out.push(Check { name: "A(lam V, lam N) = lam A", resid: a2 - lam * a, scale: (lam * a).abs() + munabs * lam });
        let p1 = st.pressure(Contributions::Total).to_reduced();
        let p2 = st2.pressure(Contributions::Total).to_reduced();
        out.push(Check { name: "p intensive", resid: p2 - p1, scale: p1.abs() + (p_res).abs() + s.n.iter().sum::<f64>() / s.v * s.t });
        let l1 = st.ln_phi();
        let l2 = st2.ln_phi();
        // ln phi needs a positive compressibility factor (p > 0)
        let zpos = st.compressibility(Contributions::Total) > 0.0;
        for i in 0..nc {
            if !zpos {
                break;
            }
            out.push(Check { name: "ln phi intensive", resid: l2[i] - l1[i], scale: l1[i].abs() + 1.0 });
        }
        let sm1 = st.residual_molar_entropy().to_reduced();
        let sm2 = st2.residual_molar_entropy().to_reduced();
        out.push(Check { name: "s_res molar intensive", resid: sm2 - sm1, scale: sm1.abs() + 1e-3 });
        let mu2 = st2.residual_chemical_potential().to_reduced();
        for i in 0..nc {
            out.push(Check { name: "mu_res intensive", resid: mu2[i] - mu[i], scale: mu[i].abs() + s.t * 1e-3 });
        }
        // further intensive properties built from the derivatives
        if nc > 1 {
            let g1 = st.thermodynamic_factor();
            let g2 = st2.thermodynamic_factor();
            for i in 0..nc - 1 {
                for j in 0..nc - 1 {
                    out.push(Check { name: "thermodynamic factor intensive", resid: g2[[i, j]] - g1[[i, j]], scale: g1[[i, j]].abs() + 1.0 });
                }
            }
        }
        let v1 = st.partial_molar_volume().to_reduced();
        let v2 = st2.partial_molar_volume().to_reduced();
        let lt1 = st.dln_phi_dt().to_reduced();
        let lt2 = st2.dln_phi_dt().to_reduced();
        let lp1 = st.dln_phi_dp().to_reduced();
        let lp2 = st2.dln_phi_dp().to_reduced();
        let ln1 = st.dln_phi_dnj().to_reduced();
        let ln2 = st2.dln_phi_dnj().to_reduced();
        for i in 0..nc {
            out.push(Check { name: "partial molar volume intensive", resid: v2[i] - v1[i], scale: v1[i].abs() + s.v / n.sum() * 1e-3 });
            out.push(Check { name: "dlnphi/dT intensive", resid: lt2[i] - lt1[i], scale: lt1[i].abs() + 1.0 / s.t });
            out.push(Check { name: "dlnphi/dp intensive", resid: lp2[i] - lp1[i], scale: lp1[i].abs() + (v1[i] / s.t).abs() });
            for j in 0..nc {
                out.push(Check { name: "dlnphi/dN degree -1", resid: ln2[[i, j]] * lam - ln1[[i, j]], scale: ln1[[i, j]].abs() + 1.0 / n.sum() });
            }
        }
        let k1 = st.isothermal_compressibility().to_reduced();
        let k2 = st2.isothermal_compressibility().to_reduced();
        out.push(Check { name: "isothermal compressibility intensive", resid: k2 - k1, scale: k1.abs() });
        let cv1 = st.residual_molar_isochoric_heat_capacity().to_reduced();
        let cv2 = st2.residual_molar_isochoric_heat_capacity().to_reduced();
        out.push(Check { name: "c_v residual intensive", resid: cv2 - cv1, scale: cv1.abs() + 1e-3 });
        let cp1 = st.residual_molar_isobaric_heat_capacity().to_reduced();
        let cp2 = st2.residual_molar_isobaric_heat_capacity().to_reduced();
        out.push(Check { name: "c_p residual intensive", resid: cp2 - cp1, scale: cp1.abs() + 1.0 });
        let sf1 = st.structure_factor();
        let sf2 = st2.structure_factor();
        out.push(Check { name: "structure factor intensive", resid: sf2 - sf1, scale: sf1.abs() });
        let dpdt1 = st.dp_dt(Contributions::Total).to_reduced();
        let dpdt2 = st2.dp_dt(Contributions::Total).to_reduced();
        out.push(Check { name: "dp/dT intensive", resid: dpdt2 - dpdt1, scale: dpdt1.abs() });
        let d1 = st.dp_dv(Contributions::Total).to_reduced();
        let d2 = st2.dp_dv(Contributions::Total).to_reduced();
        out.push(Check { name: "dp/dV degree -1", resid: d2 * lam - d1, scale: d1.abs() + (st.dp_dv(Contributions::Residual).to_reduced()).abs() });
    }
    if amp.is_finite() {
        for ch in out.iter_mut() {
            ch.scale *= amp;
        }
    }
    out
}

pub const ORACLE_TOL: f64 = 1e-8;

const D1_BLOCK: &str = r#"(* first derivatives: the derivative program seeded with the unit direction d (seeds are further constants: zero except one) is
   homogeneous of degree 1 for d = T (entropy) and of degree 0 for d = V, N_i (pressure, chemical potentials) *)
Definition P_D1 := tan_outs P_prog P_n [0%nat].
Definition P_seedflags (d : nat) : list bool := map (fun j => negb (Nat.eqb j d)) (seq 0 P_n).
Definition P_d1deg (d : nat) : Z := if Nat.eqb d 0 then 1%Z else 0%Z.
Eval vm_compute in ("D1OK", "P", map (fun d => outputs_deg P_D1 ncomp (zero_flags P_consts ++ P_seedflags d) 1 (P_d1deg d)) (seq 0 P_nvars)).
Eval vm_compute in ("D1NONE", "P", map (fun d => first_none P_D1 (d0_thermo ncomp (zero_flags P_consts ++ P_seedflags d))) (seq 0 P_nvars)).
"#;

const D1_LEMMA: &str = r#"Lemma P_first_derivatives_check :
  forallb (fun d => outputs_deg P_D1 ncomp (zero_flags P_consts ++ P_seedflags d) 1 (P_d1deg d)) (seq 0 P_nvars) = true.
Proof. vm_compute. reflexivity. Qed.
Definition P_first_derivative_homogeneous (d : nat) (Hd : In d (seq 0 P_nvars)) :=
  C02_program_homogeneous P_D1 ncomp (zero_flags P_consts ++ P_seedflags d) 1 (P_d1deg d)
    (proj1 (forallb_forall _ _) P_first_derivatives_check d Hd).
Definition P_gibbs_duhem (d : nat) (Hd : In d (seq 0 P_nvars)) T V N consts k y dv :=
  C02_euler_relation_any_degree P_D1 ncomp (zero_flags P_consts ++ P_seedflags d) 1 (P_d1deg d) T V N consts k y dv
    (proj1 (forallb_forall _ _) P_first_derivatives_check d Hd).
Check P_first_derivative_homogeneous.
Check P_gibbs_duhem.
"#;


/// one configuration, for any model implementing `Residual`
fn one<R: Residual>(c: &ConfigG<R>, out_dir: &str, seed: u64, k_tv: usize, k_oracle: usize) -> Value {
        let mut rng = Rng(seed ^ trace::fxhash(&c.name));
        let sa = configs::sample_state(c, &mut rng);
        let mut sb = configs::sample_state(c, &mut rng);
        // make sure the two trace states differ in every coordinate
        sb.t = sa.t * 1.37;
        let tv_states: Vec<RState> = (0..k_tv).map(|_| configs::sample_state(c, &mut rng)).collect();
        let set = trace::trace_set(c.model.as_ref(), &sa, &sb, &tv_states);
        // Coq file: one block per distinct program shape
        let mut v = emit::header(&["ProgSem", "ProgSemBig", "Homog", "AD", "Euler"]);
        v.push_str("From FeosProps Require Import C02.\n");
        v.push_str(&format!("Definition ncomp : nat := {}.\n", c.ncomp));
        let mut progs_json = Vec::new();
        let lam_t = 3.7;
        for (i, tr) in set.progs.iter().enumerate() {
            let p = format!("P{i}");
            v.push_str(&tr.prog.emit_coq(&p));
            v.push_str(&set.emit_inputs("P", i));
            let body = r#"
Definition P_degs := deg_eval P_prog (d0_thermo ncomp (zero_flags P_consts)).
Eval vm_compute in ("DEG", "P", map (fun j => nth (P_out j) P_degs DNone) (seq 0 P_nouts)).
Eval vm_compute in ("EVDEG", "P", map (fun k => nth k P_degs DNone) P_re).
Eval vm_compute in ("CMPDEG", "P", map (fun ab => (nth (fst ab) P_degs DNone, nth (snd ab) P_degs DNone)) P_cmp).
Eval vm_compute in ("FIRSTNONE", "P", first_none P_prog (d0_thermo ncomp (zero_flags P_consts))).
Eval vm_compute in ("TV", "P", map (fun st => let r := evalIB 64%Z P_prog st in map (fun j => ib_out (nth (P_out j) r IB.nai)) (seq 0 P_nouts)) P_inputs).
Lemma P_homogeneous_check : outputs_deg P_prog ncomp (zero_flags P_consts) P_nouts 1%Z = true.
Proof. vm_compute. reflexivity. Qed.
Lemma P_events_check : events_sign_ok P_prog ncomp (zero_flags P_consts) P_re = true.
Proof. vm_compute. reflexivity. Qed.
Lemma P_cmp_check : events_cmp_ok P_prog ncomp (zero_flags P_consts) P_cmp = true.
Proof. vm_compute. reflexivity. Qed.
Definition P_extensive := C02_program_homogeneous P_prog _ _ _ 1%Z P_homogeneous_check.
Definition P_observed_signs_scale_invariant := C02_observed_signs_scale_invariant P_prog _ _ _ P_events_check.
Definition P_comparisons_scale_invariant := C02_comparisons_scale_invariant P_prog _ _ _ P_cmp_check.
Check P_extensive.
Check P_observed_signs_scale_invariant.
Check P_comparisons_scale_invariant.
Definition P_n := (P_nvars + List.length P_consts)%nat.
Lemma P_scoped : wscoped P_prog P_n = true.
Proof. vm_compute. reflexivity. Qed.
Definition P_euler := C02_euler_relation P_prog ncomp (zero_flags P_consts) P_nouts.
Check P_euler.
D1_BLOCK
(* numeric reading of Euler's relation at the validation states: directional derivative along (0,V,N,0) vs the value itself *)
Definition P_edir (st : list (Z * Z)) : list (Z * Z) := (0, 0)%Z :: (firstn (P_nvars - 1) (tl st) ++ repeat (0, 0)%Z (List.length P_consts))%list.
Eval vm_compute in ("EULER", "P", let d := tan_outs P_prog P_n [0%nat] in map (fun st => (ib_out (nth 0 (evalIB 64%Z P_prog st) IB.nai), ib_out (nth 0 (evalIB 64%Z d (st ++ P_edir st)%list) IB.nai))) P_inputs).
D1_LEMMA
"#;
            // the obligations on the derivative program (~3x larger, analysed once per direction) only below a size limit
            let with_d1 = tr.prog.instrs.len() <= 4500;
            let mut body = body.replace("D1_BLOCK\n", if with_d1 { D1_BLOCK } else { "" }).replace("D1_LEMMA\n", if with_d1 { D1_LEMMA } else { "" });
            if tr.prog.instrs.len() > 4000 {
                // the numeric Euler check evaluates a derivative program (~3x larger): skipped for very large programs
                body = body.lines().filter(|l| !l.contains("\"EULER\"")).collect::<Vec<_>>().join("\n") + "\n";
            }
            v.push_str(&body.replace("P_", &format!("{p}_")).replace("\"P\"", &format!("\"{p}\"")));
            // scaled differential trace: a scale-dependent value that escaped through `.re()` into f64
            // arithmetic shows up as a constant that differs (or as a different shape)
            let base = if i == 0 { sa.clone() } else { set.tv.iter().find(|(k, _, _)| *k == i).unwrap().1.clone() };
            let sc = RState { t: base.t, v: base.v * lam_t, n: base.n.iter().map(|x| x * lam_t).collect() };
            let pc = trace::trace_residual(c.model.as_ref(), &sc);
            let mut cs = feos_verif::prog::compare(&tr.raw, &pc);
            // re-injected f64 values (converged monomer fractions) differ in the last bits because N/V is rounded
            // differently after scaling: only a relative difference above 1e-9 counts as scale dependence
            if cs.same_shape {
                cs.leaks.retain(|&i| {
                    let (x, y) = (tr.raw.consts[i], pc.consts[i]);
                    !((x - y).abs() <= 1e-9 * x.abs().max(y.abs()))
                });
            }
            progs_json.push(json!({
                "name": p, "ninstr": tr.prog.instrs.len(), "with_first_derivative_obligations": with_d1, "nconsts": tr.prog.consts.len(),
                "outs": tr.prog.outs, "n_re": tr.prog.re_events.len(), "n_cmp": tr.prog.cmp_events.len(),
                "same_shape": tr.same_shape, "leaks": tr.leaks, "unsupported": tr.prog.unsupported,
                "scaled_same_shape": cs.same_shape, "scaled_leaks": cs.leaks, "trace_state": base.vars(),
                "tv_states": set.tv.iter().filter(|(k, _, _)| *k == i).map(|(_, s, _)| s.vars()).collect::<Vec<_>>(),
                "tv_impl": set.tv.iter().filter(|(k, _, _)| *k == i).map(|(_, s, _)| trace::eval_f64(c.model.as_ref(), s)).collect::<Vec<_>>(),
            }));
        }
        std::fs::write(format!("{out_dir}/{}.v", c.name), v).unwrap();
        // oracle on the State API
        let mut nchecks = 0usize;
        let mut worst = 0.0f64;
        let mut failures = Vec::new();
        let mut lam_hist = Vec::new();
        for i in 0..k_oracle {
            let s = configs::sample_state(c, &mut rng);
            let lam = rng.log_range(1e-3, 1e3);
            if i < 3 {
                lam_hist.push(lam);
            }
            for ch in euler_checks(&c.model, &s, lam) {
                nchecks += 1;
                let rel = if ch.scale > 0.0 { ch.resid.abs() / ch.scale } else { ch.resid.abs() };
                if !(rel <= ORACLE_TOL) {
                    if failures.len() < 5 {
                        failures.push(json!({"identity": ch.name, "state": s.vars(), "lambda": lam, "residual": ch.resid, "scale": ch.scale}));
                    }
                }
                if rel.is_finite() {
                    worst = worst.max(rel);
                } else {
                    worst = f64::INFINITY;
                }
            }
        }
        json!({
            "name": c.name, "ncomp": c.ncomp, "programs": progs_json,
            "oracle": {"checks": nchecks, "worst_rel": if worst.is_finite() { json!(worst) } else { json!("inf") }, "failures": failures, "tol": ORACLE_TOL, "lambda_samples": lam_hist},
        })
}

pub fn run(out_dir: &str, tier: &str, seed: u64, only: Option<String>, oracle_n: Option<usize>) -> Value {
    let full = tier == "thorough";
    let cfgs: Vec<Config> = configs::all(full || only.is_some())
        .into_iter()
        .chain(configs::literal())
        .filter(|c| match &only {
            Some(o) => &c.name == o,
            None => full || c.core,
        })
        .collect();
    let k_tv = if full { 6 } else { 3 };
    let k_oracle = oracle_n.unwrap_or(if full { 200 } else { 40 });
    let mut results = Vec::new();
    for c in &cfgs {
        results.push(one(c, out_dir, seed, k_tv, k_oracle));
    }
    // Helmholtz energy functionals used as bulk models ("for every model")
    let sel = |n: &str, core: bool| match &only {
        Some(o) => o == n,
        None => full || core,
    };
    macro_rules! functional {
        ($c:expr) => {{
            let c = $c;
            if sel(&c.name, c.core) {
                results.push(one(&c, out_dir, seed, k_tv, k_oracle));
            }
        }};
    }
    functional!(functionals::pcsaft("fn_pcsaft_wb_propane_butane_kij", 0, true));
    functional!(functionals::pcsaft("fn_pcsaft_kr_water_methanol", 1, false));
    functional!(functionals::pcsaft("fn_pcsaft_wb_acetone_butanone", 2, true));
    functional!(functionals::pcsaft("fn_pcsaft_wb_water", 3, true));
    functional!(functionals::pcsaft("fn_pcsaft_aswb_propane", 4, false));
    functional!(functionals::gc_pcsaft("fn_gcpcsaft_propanol_ethanol", true));
    functional!(functionals::pets("fn_pets2", true));
    functional!(functionals::saftvrqmie("fn_saftvrqmie_h2", false));
    json!({"property": "C02", "tier": tier, "seed": seed, "configs": results})
}

fn main() {
    let cli = feos_verif::cli::Cli::parse("/verif/coq/gen/C02");
    let res = run(&cli.out, &cli.tier, cli.seed, cli.opt("--only"), cli.opt("--oracle").and_then(|s| s.parse().ok()));
    cli.write_impl(&res);
}
