// scratch probe (deleted afterwards): adjointness of vector weights on spherical grids with analytic smooth psi
use feos::hard_sphere::{FMTFunctional, FMTVersion};
use feos_core::ReferenceSystem;
use feos_dft::{Axis, Convolver, ConvolverFFT, Grid, HelmholtzEnergyFunctional};
use ndarray::{Array1, Array2, Ix1};
use quantity::Length;
use std::sync::Arc;
fn bump(z: f64, c: f64, h: f64) -> f64 { let u=(z-c)/h; if u.abs()>=1.0 {0.0} else {(1.0-1.0/(1.0-u*u)).exp()} }
fn main() {
    let kind = std::env::args().nth(1).unwrap();
    let f = FMTFunctional::new(&Array1::from_vec(vec![1.0, 0.7]), FMTVersion::WhiteBear);
    for n in [64usize, 128, 256, 512, 1024, 2048, 4096] {
        let l = 12.0;
        let ax = match kind.as_str() { "s" => Axis::new_spherical(n, Length::from_reduced(l)), "p" => Axis::new_polar(n, Length::from_reduced(l)), _ => Axis::new_cartesian(n, Length::from_reduced(l), None) };
        let w = ax.verif_integration_weights().clone();
        let grid = Grid::new_1d(ax);
        let z = grid.grids()[0].clone();
        let wf = f.weight_functions(1.0);
        let conv: Arc<dyn Convolver<f64, Ix1>> = ConvolverFFT::plan(&grid, &wf, None);
        let delta = Array2::from_shape_fn((2, n), |(s, k)| if s == 0 { bump(z[k], 6.0, 2.5) } else { 0.0 });
        let wd = conv.weighted_densities(&delta);
        let mut line = format!("{n:5}");
        for a in 0..6 {
            let mut psi = Array2::zeros((6, n));
            for k in 0..n { psi[[a, k]] = bump(z[k], 6.5, 2.0); }
            let b = conv.functional_derivative(&[psi.clone()]);
            let lhs: f64 = (0..n).map(|k| w[k] * wd[0][[a, k]] * psi[[a, k]]).sum();
            let rhs: f64 = (0..n).map(|k| w[k] * delta[[0, k]] * b[[0, k]]).sum();
            line += &format!("  [{a}] {lhs:.6e} {rhs:.6e}");
        }
        println!("{line}");
    }
}
