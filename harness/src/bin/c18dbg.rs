use feos::pcsaft::{PcSaftFunctional, PcSaftParameters};
use feos_core::parameter::{IdentifierOption, Parameter};
use feos_core::{ReferenceSystem, StateBuilder};
use feos_dft::adsorption::{ExternalPotential, Pore1D, PoreSpecification};
use feos_dft::{DFTSolver, DFTSpecifications, Geometry};
use feos_verif::configs::params;
use ndarray::Array1;
use quantity::*;
use std::sync::Arc;
fn main() {
    let p = Arc::new(PcSaftParameters::from_json(vec!["propane"], format!("{}/pcsaft/gross2001.json", params()), None, IdentifierOption::Name).unwrap());
    let func = Arc::new(PcSaftFunctional::new(p));
    let bulk = StateBuilder::new(&func).temperature(300.0 * KELVIN).pressure(4.953 * BAR).build().unwrap();
    let pore = Pore1D::new(Geometry::Cartesian, 20.0 * ANGSTROM, ExternalPotential::LJ93 { epsilon_k_ss: 10.0, sigma_ss: 3.0, rho_s: 0.08 }, Some(256), None);
    let mut pp = pore.initialize(&bulk, None, None).unwrap();
    pp.solve_inplace(None, false).unwrap();
    let n0 = pp.profile.integrate_comp(&pp.profile.density).to_reduced()[0];
    let mut q = pp.clone();
    q.profile.specification = Arc::new(DFTSpecifications::Moles { moles: Array1::from_vec(vec![1.1 * n0]) });
    let s = DFTSolver::new(None).picard_iteration(None, Some(2000), None, None);
    q.solve_inplace(Some(&s), false).unwrap();
    let rho = q.profile.density.to_reduced();
    let g = rho.shape()[1];
    let (res, rbk, _) = q.profile.residual(false).unwrap();
    let rb = q.profile.bulk.partial_density.to_reduced()[0];
    let w: Vec<f64> = (0..g).map(|k| { let mut ind = Array1::<f64>::zeros(g); ind[k] = 1.0; q.profile.integrate(&Dimensionless::from_reduced(ind)).to_reduced() }).collect();
    let int_proj: f64 = (0..g).map(|j| w[j] * (res[(0, j)] + rho[(0, j)])).sum();
    let z_mine = int_proj / rb;
    // z of the code through a unit specification
    q.profile.specification = Arc::new(DFTSpecifications::Moles { moles: Array1::from_vec(vec![1.0]) });
    let (_, rbk1, _) = q.profile.residual(false).unwrap();
    let z_code = 1.0 / (rbk1[0] + rb);
    println!("z_mine {z_mine:e} z_code {z_code:e} rel {:e}", (z_mine - z_code) / z_code);
    println!("res_bulk {:e}  N/z_mine - rb {:e}  N/z_code - rb {:e}", rbk[0], 1.1 * n0 / z_mine - rb, 1.1 * n0 / z_code - rb);
    let v = &q.profile.external_potential;
    let mut nm = 0; let mut mx: f64 = 0.0;
    for j in 0..g { if v[(0, j)] + f64::EPSILON >= 50.0 { nm += 1; mx = mx.max(rho[(0, j)]); } }
    println!("masked {nm} max rho in masked {mx:e}; w0 {} w1 {} wlast {}", w[0], w[1], w[g-1]);
}
