//! C01 — state properties are exact derivatives of the Helmholtz energy.
//! Per configuration: regenerate the program of A^res(T,V,N) (reduced units) by tracing the real generic
//! code, emit the Coq file that builds the derivative programs D1, D2, D3 = tan_outs^k and encloses them
//! with the verified multi-precision interval evaluator at sample states, and record what the public
//! State API reports for every derivative at the same states.
use feos::ResidualModel;
use feos_core::{Contributions, ReferenceSystem, Residual, State};
use feos_verif::configs::{self, Config, ConfigG, RState, Rng};
use feos_verif::emit;
use feos_verif::functionals;
use feos_verif::trace;
use ndarray::Array1;
use quantity::{Moles, Temperature, Volume};
use serde_json::{json, Value};
use std::sync::Arc;

pub fn mk_state<R: Residual>(model: &Arc<R>, s: &RState) -> Option<State<R>> {
    State::new_nvt(
        model,
        Temperature::from_reduced(s.t),
        Volume::from_reduced(s.v),
        &Moles::from_reduced(Array1::from_vec(s.n.clone())),
    )
    .ok()
}

/// what the State API reports, expressed as partial derivatives of A^res(T,V,N) in reduced units.
/// directions: 0 = T, 1 = V, 2+k = N_k
fn api_jet<R: Residual>(model: &Arc<R>, s: &RState) -> Option<Value> {
    let st = mk_state(model, s)?;
    let nc = s.n.len();
    let nd = nc + 2;
    let r = Contributions::Residual;
    let a0 = st.residual_helmholtz_energy().to_reduced();
    let mu = st.residual_chemical_potential().to_reduced();
    let mut a1 = vec![-st.residual_entropy().to_reduced(), -st.pressure(r).to_reduced()];
    a1.extend(mu.iter());
    let dmu_dt = st.dmu_res_dt().to_reduced();
    let dp_dn = st.dp_dni(r).to_reduced();
    let dmu_dn = st.dmu_dni(r).to_reduced();
    let mut a2 = vec![vec![Value::Null; nd]; nd];
    fn set(a2: &mut [Vec<Value>], i: usize, j: usize, v: f64) {
        a2[i][j] = json!(v);
        a2[j][i] = json!(v);
    }
    set(&mut a2, 0, 0, -st.ds_res_dt().to_reduced());
    set(&mut a2, 0, 1, -st.dp_dt(r).to_reduced());
    set(&mut a2, 1, 1, -st.dp_dv(r).to_reduced());
    for k in 0..nc {
        set(&mut a2, 0, 2 + k, dmu_dt[k]);
        set(&mut a2, 1, 2 + k, -dp_dn[k]);
        for l in 0..nc {
            // the API returns the full matrix; both triangles are compared (symmetry is part of C02)
            a2[2 + k][2 + l] = json!(dmu_dn[[k, l]]);
        }
    }
    let a3 = json!({"TTT": -st.d2s_res_dt2().to_reduced(), "VVV": -st.d2p_dv2(r).to_reduced()});
    // derived (caloric / fugacity) quantities, reduced units
    let zpos = st.compressibility(Contributions::Total) > 0.0;
    let derived = json!({
        "p_total": st.pressure(Contributions::Total).to_reduced(),
        "dp_dv_total": st.dp_dv(Contributions::Total).to_reduced(),
        "dp_dt_total": st.dp_dt(Contributions::Total).to_reduced(),
        "dp_dni_total": st.dp_dni(Contributions::Total).to_reduced().to_vec(),
        "d2p_dv2_total": st.d2p_dv2(Contributions::Total).to_reduced(),
        "dp_drho_total": st.dp_drho(Contributions::Total).to_reduced(),
        "d2p_drho2_total": st.d2p_drho2(Contributions::Total).to_reduced(),
        "c_v_res": st.residual_molar_isochoric_heat_capacity().to_reduced(),
        "c_p_res": st.residual_molar_isobaric_heat_capacity().to_reduced(),
        "dc_v_res_dt": st.dc_v_res_dt().to_reduced(),
        "kappa_t": st.isothermal_compressibility().to_reduced(),
        "partial_molar_volume": st.partial_molar_volume().to_reduced().to_vec(),
        "h_res": st.residual_enthalpy().to_reduced(),
        "u_res": st.residual_internal_energy().to_reduced(),
        "ln_phi": if zpos { json!(st.ln_phi().to_vec()) } else { Value::Null },
        "g_res": if zpos { json!(st.residual_gibbs_energy().to_reduced()) } else { Value::Null },
        "dln_phi_dt": st.dln_phi_dt().to_reduced().to_vec(),
        "dln_phi_dp": st.dln_phi_dp().to_reduced().to_vec(),
        "dln_phi_dnj": st.dln_phi_dnj().to_reduced().rows().into_iter().map(|r| r.to_vec()).collect::<Vec<_>>(),
        "structure_factor": st.structure_factor(),
    });
    Some(json!({"a0": a0, "a1": a1, "a2": a2, "a3": a3, "derived": derived}))
}

/// central finite differences on the public API around a state (the search oracle of DESIGN.md section 4):
/// each reported derivative vs. the numerical derivative of the next-lower-order quantity.
fn fd_search<R: Residual>(model: &Arc<R>, s: &RState, one_sided_t: bool) -> Vec<Value> {
    // a derivative is flagged only if it disagrees with the central difference for EVERY step size
    // (truncation error dominates for large steps, round-off noise for small ones)
    let mut best: std::collections::BTreeMap<String, (f64, Value)> = std::collections::BTreeMap::new();
    let hs = [1e-3, 1e-4, 1e-5, 1e-6];
    for (k, h) in hs.iter().enumerate() {
        let mut seen = std::collections::BTreeSet::new();
        for (q, excess, v) in fd_search_h(model, s, *h, one_sided_t) {
            seen.insert(q.clone());
            if k == 0 {
                best.insert(q, (excess, v));
            } else if let Some(e) = best.get_mut(&q) {
                if excess < e.0 {
                    *e = (excess, v);
                }
            }
        }
        // a quantity that passed for this step size is fine
        best.retain(|q, _| seen.contains(q));
        if best.is_empty() {
            break;
        }
    }
    best.into_values().map(|(_, v)| v).collect()
}

/// (quantity, mismatch / tolerance, description) of every derivative outside its tolerance for step `h`
fn fd_search_h<R: Residual>(model: &Arc<R>, s: &RState, h: f64, one_sided_t: bool) -> Vec<(String, f64, Value)> {
    let out = std::cell::RefCell::new(Vec::new());
    let nc = s.n.len();
    let nd = nc + 2;
    let Some(j0) = api_jet(model, s) else { return out.into_inner() };
    let shift = |dir: usize, h: f64| {
        let mut x = s.clone();
        match dir {
            0 => x.t *= 1.0 + h,
            1 => x.v *= 1.0 + h,
            k => x.n[k - 2] *= 1.0 + h,
        }
        x
    };
    let coord = |dir: usize| match dir {
        0 => s.t,
        1 => s.v,
        k => s.n[k - 2],
    };
    // ideal-gas magnitude N*T / prod(coordinates): round-off noise of a finite difference scales with it
    let ntot: f64 = s.n.iter().sum();
    let ig = |dirs: &[usize]| dirs.iter().fold(ntot * s.t, |a, d| a / coord(*d));
    let getf = |v: &Value| v.as_f64().unwrap_or(f64::NAN);
    let test = |name: String, fd: f64, an: f64, tol: f64| {
        if fd.is_finite() && an.is_finite() && !((fd - an).abs() <= tol) {
            out.borrow_mut().push((name.clone(), (fd - an).abs() / tol,
                json!({"quantity": name, "state": s.vars(), "reported": an, "finite_difference": fd, "step": h})));
        }
    };
    for d in 0..nd {
        let (Some(jp), Some(jm)) = (api_jet(model, &shift(d, h)), api_jet(model, &shift(d, -h))) else { continue };
        if d == 0 && one_sided_t {
            // the state sits exactly on a temperature where the model's code branches (e.g. a point of a piecewise-linear
            // permittivity table): the function may have a kink there, so the reported derivative must equal ONE of the
            // one-sided difference quotients (first-order accurate: looser tolerance)
            let dx = h * coord(0);
            let one = |k: &str, idx: Option<(usize, usize)>| -> (f64, f64, f64) {
                let get = |j: &Value| match idx {
                    None => getf(&j[k]),
                    Some((a, b)) if a == usize::MAX => getf(&j[k][b]),
                    Some((a, b)) => getf(&j[k][a][b]),
                };
                ((get(&jp) - get(&j0)) / dx, (get(&j0) - get(&jm)) / dx, get(&j0))
            };
            let test1 = |name: String, fwd: f64, bwd: f64, an: f64, sc: f64| {
                let tol = 2e-3 * sc;
                let e = (fwd - an).abs().min((bwd - an).abs());
                if fwd.is_finite() && bwd.is_finite() && an.is_finite() && !(e <= tol) {
                    out.borrow_mut().push((name.clone(), e / tol, json!({"quantity": name, "state": s.vars(), "reported": an,
                        "forward_difference": fwd, "backward_difference": bwd, "step": h, "note": "state on a branch temperature: one-sided differences"})));
                }
            };
            let (f, b, _) = one("a0", None);
            let an = getf(&j0["a1"][0]);
            test1("dA/d0".to_string(), f, b, an, an.abs().max(getf(&j0["a0"]).abs() / coord(0)) + 1e-5 * ig(&[0]));
            for e in 0..nd {
                let (f, b, lower) = one("a1", Some((usize::MAX, e)));
                let an = getf(&j0["a2"][e][0]);
                test1(format!("d2A/d{e}d0"), f, b, an, an.abs().max(lower.abs() / coord(0)) + 1e-5 * ig(&[e, 0]));
            }
            continue;
        }
        let dx = 2.0 * h * coord(d);
        // first order vs A
        let fd = (getf(&jp["a0"]) - getf(&jm["a0"])) / dx;
        let an = getf(&j0["a1"][d]);
        let sc = an.abs().max(getf(&j0["a0"]).abs() / coord(d));
        test(format!("dA/d{d}"), fd, an, 1e-5 * sc + 1e-8 * ig(&[d]));
        // second order vs first order
        for e in 0..nd {
            let fd = (getf(&jp["a1"][e]) - getf(&jm["a1"][e])) / dx;
            let an = getf(&j0["a2"][e][d]);
            let sc = an.abs().max(getf(&j0["a1"][e]).abs() / coord(d));
            test(format!("d2A/d{e}d{d}"), fd, an, 1e-5 * sc + 1e-8 * ig(&[e, d]));
        }
        if d < 2 {
            let key = if d == 0 { "TTT" } else { "VVV" };
            let fd = (getf(&jp["a2"][d][d]) - getf(&jm["a2"][d][d])) / dx;
            let an = getf(&j0["a3"][key]);
            let sc = an.abs().max(getf(&j0["a2"][d][d]).abs() / coord(d));
            test(format!("d3A/d{key}"), fd, an, 1e-4 * sc + 1e-8 * ig(&[d, d, d]));
        }
    }
    out.into_inner()
}

const BODY_COMMON: &str = r#"
Open Scope list_scope.
Definition P_n := (P_nvars + List.length P_consts)%nat.
Definition P_u (k : nat) : list (Z * Z) := map (fun j => if Nat.eqb j k then (1, 0)%Z else (0, 0)%Z) (seq 0 P_n).
Definition P_z : list (Z * Z) := repeat (0, 0)%Z P_n.
Definition P_in1 (st : list (Z * Z)) (i : nat) := st ++ P_u i.
Definition P_in2 (st : list (Z * Z)) (i j : nat) := (st ++ P_u i) ++ (P_u j ++ P_z).
Definition P_in3 (st : list (Z * Z)) (i j k : nat) := ((st ++ P_u i) ++ (P_u j ++ P_z)) ++ ((P_u k ++ P_z) ++ (P_z ++ P_z)).
Definition P_dirs := seq 0 P_nvars.
Definition P_pairs := flat_map (fun i => map (fun j => (i, j)) (seq i (P_nvars - i))) P_dirs.
Eval vm_compute in ("LEAKS", "P", P_nleaks).
"#;

/// order 1 on program P (NDERIV = 1)
const BODY_1: &str = r#"
Definition P_D1 := tan_outs P_prog P_n [0%nat].
Eval vm_compute in ("E0", "P", map (fun st => ib_out (nth 0 (evalIB PREC P_prog st) IB.nai)) P_inputs).
Eval vm_compute in ("E1", "P", let d := P_D1 in map (fun st => map (fun i => ib_out (nth 0 (evalIB PREC d (P_in1 st i)) IB.nai)) P_dirs) P_inputs).
Lemma P_scoped : wscoped P_prog P_n = true.
Proof. vm_compute. reflexivity. Qed.
Definition P_order1 a e r Ha He := C01_directional_derivative P_prog P_n [0%nat] a e r Ha He P_scoped.
Check P_order1.
"#;

/// order 2 on program Q (NDERIV = 2; Q = P for closed programs)
const BODY_2: &str = r#"
Definition Q_n := (Q_nvars + List.length Q_consts)%nat.
Definition Q_D1 := tan_outs Q_prog Q_n [0%nat].
Definition Q_D2 := tan_outs Q_D1 (2 * Q_n) [0%nat].
Eval vm_compute in ("SIZES2", "P", (N.of_nat (List.length Q_prog), N.of_nat (List.length Q_D1), N.of_nat (List.length Q_D2))).
Eval vm_compute in ("E2", "P", let d := Q_D2 in map (fun st => map (fun ij => ib_out (nth 0 (evalIB PREC d (P_in2 st (fst ij) (snd ij))) IB.nai)) P_pairs) Q_inputs).
Lemma Q_scoped : wscoped Q_prog Q_n = true.
Proof. vm_compute. reflexivity. Qed.
Lemma Q_D1_scoped : wscoped Q_D1 (2 * Q_n) = true.
Proof. vm_compute. reflexivity. Qed.
Definition Q_order1 a e r Ha He := C01_directional_derivative Q_prog Q_n [0%nat] a e r Ha He Q_scoped.
Definition Q_order2 a e r Ha He := C01_directional_derivative Q_D1 (2 * Q_n) [0%nat] a e r Ha He Q_D1_scoped.
Check Q_order2.
"#;

/// order 3 on program R (NDERIV = 3)
const BODY_3: &str = r#"
Definition R_n := (R_nvars + List.length R_consts)%nat.
Definition R_D1 := tan_outs R_prog R_n [0%nat].
Definition R_D2 := tan_outs R_D1 (2 * R_n) [0%nat].
Definition R_D3 := tan_outs R_D2 (4 * R_n) [0%nat].
Eval vm_compute in ("E3", "P", let d := R_D3 in map (fun st => map (fun i => ib_out (nth 0 (evalIB PREC d (P_in3 st i i i)) IB.nai)) [0%nat; 1%nat]) R_inputs).
Lemma R_scoped : wscoped R_prog R_n = true.
Proof. vm_compute. reflexivity. Qed.
Lemma R_D1_scoped : wscoped R_D1 (2 * R_n) = true.
Proof. vm_compute. reflexivity. Qed.
Lemma R_D2_scoped : wscoped R_D2 (4 * R_n) = true.
Proof. vm_compute. reflexivity. Qed.
Definition R_order3 a e r Ha He := C01_directional_derivative R_D2 (4 * R_n) [0%nat] a e r Ha He R_D2_scoped.
Check R_order3.
"#;

fn inputs_def(name: &str, rows: &[(RState, Vec<f64>)]) -> String {
    let rows: Vec<String> = rows
        .iter()
        .map(|(s, cs)| {
            let mut x = s.vars();
            x.extend(cs);
            emit::dy_list(&x)
        })
        .collect();
    format!("Definition {} : list (list (Z * Z)) := [{}].\n", name, rows.join(";\n "))
}

struct Par<'a> {
    out_dir: &'a str,
    seed: u64,
    k_states: usize,
    k_third: usize,
    k_fd: usize,
    lim2: usize,
    lim3: usize,
    prec: i64,
}

/// one configuration, for any model implementing `Residual` (equations of state and functionals used as bulk models)
fn one<R: Residual>(c: &ConfigG<R>, par: &Par) -> Value {
    let (out_dir, seed, k_states, k_third, k_fd, lim2, lim3, prec) = (par.out_dir, par.seed, par.k_states, par.k_third, par.k_fd, par.lim2, par.lim3, par.prec);
        let mut rng = Rng(seed ^ trace::fxhash(&c.name) ^ 0xC01);
        let sa = configs::sample_state(c, &mut rng);
        let mut sb = configs::sample_state(c, &mut rng);
        sb.t = sa.t * 1.37;
        let m = c.model.as_ref();
        let t1 = trace::trace_two_k::<_, 1>(m, &sa, &sb);
        let t2 = trace::trace_two_k::<_, 2>(m, &sa, &sb);
        let t3 = trace::trace_two_k::<_, 3>(m, &sa, &sb);
        // states on which all three programs keep the shape of the trace state
        let mut st1 = Vec::new();
        let mut st2 = Vec::new();
        let mut st3 = Vec::new();
        let mut tried = 0;
        while st1.len() < k_states && tried < 8 * k_states {
            tried += 1;
            let s = configs::sample_state(c, &mut rng);
            if let (Some(c1), Some(c2), Some(c3)) = (t1.consts_at(m, &s), t2.consts_at(m, &s), t3.consts_at(m, &s)) {
                st1.push((s.clone(), c1));
                st2.push((s.clone(), c2));
                st3.push((s, c3));
            }
        }
        let ninstr = t1.prog.instrs.len();
        let do2 = ninstr <= lim2;
        let do3 = ninstr <= lim3;
        st3.truncate(k_third);
        let mut v = emit::header(&["ProgSem", "ProgSemBig", "AD"]);
        v.push_str("From FeosProps Require Import C01.\n");
        v.push_str(&t1.prog.emit_coq("P"));
        v.push_str(&format!("Definition P_nleaks : N := {}%N.\n", t1.leaks.len()));
        v.push_str(&inputs_def("P_inputs", &st1));
        v.push_str(BODY_COMMON);
        v.push_str(&BODY_1.replace("PREC", &format!("{prec}%Z")));
        // a program is closed if no f64 value is re-injected: no constant differs between the two trace states AND the
        // program does not depend on the number of implicit sweeps (re-injected values that happen to be bit-identical at
        // the two trace states, e.g. monomer fractions equal to 1 in a dilute gas, still show up as a K-dependent program)
        let same123 = t1.prog.instrs == t2.prog.instrs && t2.prog.instrs == t3.prog.instrs;
        let leaky = !t1.leaks.is_empty() || !same123;
        if !leaky {
            v.push_str("Lemma P_closed : P_nleaks = 0%N.\nProof. reflexivity. Qed.\n");
        }
        if do2 {
            v.push_str(&t2.prog.emit_coq("Q"));
            v.push_str(&inputs_def("Q_inputs", &st2));
            v.push_str(&BODY_2.replace("PREC", &format!("{prec}%Z")));
        }
        if do3 {
            v.push_str(&t3.prog.emit_coq("R"));
            v.push_str(&inputs_def("R_inputs", &st3));
            v.push_str(&BODY_3.replace("PREC", &format!("{prec}%Z")));
        }
        std::fs::write(format!("{out_dir}/{}.v", c.name), v).unwrap();
        let api: Vec<Value> = st1.iter().map(|(s, _)| api_jet(&c.model, s).unwrap_or(Value::Null)).collect();
        // always-on finite-difference oracle on the public API
        let mut fd_fail = Vec::new();
        let mut fd_n = 0;
        for _ in 0..k_fd {
            let s = configs::sample_state(c, &mut rng);
            fd_n += 1;
            let f = fd_search(&c.model, &s, c.special_t.contains(&s.t));
            if fd_fail.len() < 5 {
                fd_fail.extend(f.into_iter().take(3));
            }
        }
        json!({
            "name": c.name, "ncomp": c.ncomp, "nvars": c.ncomp + 2,
            "ninstr": ninstr, "ninstr_k": [ninstr, t2.prog.instrs.len(), t3.prog.instrs.len()],
            "nconsts": t1.prog.consts.len(), "outs": t1.prog.outs,
            "programs_identical_for_all_sweep_counts": same123, "leaky": leaky,
            "same_shape": t1.same_shape && t2.same_shape && t3.same_shape, "leaks": t1.leaks,
            "leak_values": t1.leak_values, "unsupported": t1.prog.unsupported,
            "order2": do2, "order3": do3,
            "states": st1.iter().map(|(s, _)| s.vars()).collect::<Vec<_>>(),
            "api": api, "third_states": st3.len(),
            "fd": {"states": fd_n, "failures": fd_fail},
        })
}

/// Caloric properties of the State layer (properties.rs: c_v, c_p, Joule-Thomson, isentropic / isenthalpic compressibility,
/// thermal expansivity, Grueneisen parameter, speed of sound) for models with an ideal-gas part:
///  * tie of the getters to the expressions of coq/theories/CaloricC01.v (one `interval` goal per state and getter), and
///  * the property's own reading: each coefficient vs the Jacobian quotient of NUMERICAL partial derivatives (central differences of
///    H, S, U, p of neighbouring states in T and V, public API only).
fn caloric(out_dir: &str, full: bool, seed: u64) -> Vec<Value> {
    use feos::ideal_gas::{Joback, JobackRecord};
    use feos_core::parameter::{Identifier, Parameter, PureRecord};
    use feos_core::EquationOfState;
    let mut out = Vec::new();
    let names: Vec<&str> = if full {
        vec!["pr2", "pcsaft_propane_butane_kij", "pcsaft_water_methanol", "pcsaft_acetone_butanone", "gcpcsaft_propanol_ethanol", "pets2", "saftvrmie_methanol_ethanol"]
    } else {
        vec!["pr2", "pcsaft_propane_butane_kij", "pcsaft_water_methanol"]
    };
    for c in configs::all(true).into_iter().filter(|c| names.contains(&c.name.as_str())) {
        let jrec: Vec<_> = (0..c.ncomp)
            .map(|i| PureRecord::new(Identifier::default(), 1.0, JobackRecord::new(25.0 + 8.0 * i as f64, 0.12 - 0.02 * i as f64, 3e-5, -2e-8, 4e-12)))
            .collect();
        let ig = Arc::new(Joback::from_records(jrec, None).unwrap());
        let eos = Arc::new(EquationOfState::new(ig, c.model.clone()));
        let mut rng = Rng(seed ^ trace::fxhash(&c.name) ^ 0xCA10);
        let k = if full { 6 } else { 3 };
        for si in 0..k {
            let s = configs::sample_state(&c, &mut rng);
            let mk = |t: f64, v: f64| {
                State::new_nvt(&eos, Temperature::from_reduced(t), Volume::from_reduced(v), &Moles::from_reduced(Array1::from_vec(s.n.clone()))).ok()
            };
            let Some(st) = mk(s.t, s.v) else { continue };
            let tot = Contributions::Total;
            let n: f64 = s.n.iter().sum();
            let (att, atv, avv) = (-st.ds_dt(tot).to_reduced(), -st.dp_dt(tot).to_reduced(), -st.dp_dv(tot).to_reduced());
            let api = [
                ("cv", st.molar_isochoric_heat_capacity(tot).to_reduced()),
                ("cp", st.molar_isobaric_heat_capacity(tot).to_reduced()),
                ("joule_thomson", st.joule_thomson().to_reduced()),
                ("isentropic_compressibility", st.isentropic_compressibility().to_reduced()),
                ("isenthalpic_compressibility", st.isenthalpic_compressibility().to_reduced()),
                ("thermal_expansivity", st.thermal_expansivity().to_reduced()),
                ("grueneisen", st.grueneisen_parameter()),
            ];
            if ![att, atv, avv].iter().chain(api.iter().map(|x| &x.1)).all(|x| x.is_finite()) || avv == 0.0 {
                continue;
            }
            let model = |q: &str| match q {
                "cv" => "m_cv T n att".to_string(),
                "cp" => "m_cp T n att atv avv".to_string(),
                "grueneisen" => "m_grueneisen T V n att atv".to_string(),
                "thermal_expansivity" => "m_thermal_expansivity V atv avv".to_string(),
                q => format!("m_{q} T V n att atv avv"),
            };
            let mut g = String::new();
            g.push_str("From Coq Require Import Reals.\nFrom Interval Require Import Tactic.\nFrom FeosVerif Require Import CaloricC01.\nLocal Open Scope R_scope.\n");
            g.push_str(&format!("Definition T := {:e}.\nDefinition V := {:e}.\nDefinition n := {:e}.\nDefinition att := {:e}.\nDefinition atv := {:e}.\nDefinition avv := {:e}.\n", s.t, s.v, n, att, atv, avv));
            // the Joule-Thomson coefficient -(V + T p_T/p_V)/(n c_p) cancels in a thin gas (both terms ~ V, the difference ~ B - T dB/dT): the
            // f64 getter carries rounding noise ~ eps V/(n c_p), which the comparison allows on top of the relative 1e-10
            let jt_scale = s.v / (n * api[1].1.abs());
            for (q, x) in api.iter() {
                let extra = if *q == "joule_thomson" { 1e-13 * jt_scale } else { 0.0 };
                g.push_str(&format!("Goal Rabs ({} - ({:e})) <= 1e-10 * Rabs ({:e}) + {:e}.\nProof. unfold m_joule_thomson, m_isenthalpic_compressibility, m_isentropic_compressibility, m_grueneisen, m_thermal_expansivity, m_cp, m_cv, S_T, p_T, p_V, T, V, n, att, atv, avv. interval with (i_prec 100). Qed.\n", model(q), x, x, extra));
            }
            let name = format!("caloric_{}_{si}", c.name);
            std::fs::write(format!("{out_dir}/{name}.v"), g).unwrap();
            // numerical Jacobians from neighbouring states
            let h = 1e-4;
            let get = |st: &State<_>| -> [f64; 5] {
                [
                    st.enthalpy(tot).to_reduced(),
                    st.entropy(tot).to_reduced(),
                    st.internal_energy(tot).to_reduced(),
                    st.pressure(tot).to_reduced(),
                    0.0,
                ]
            };
            let mut fd = Vec::new();
            if let (Some(tp), Some(tm), Some(vp), Some(vm)) = (mk(s.t * (1.0 + h), s.v), mk(s.t * (1.0 - h), s.v), mk(s.t, s.v * (1.0 + h)), mk(s.t, s.v * (1.0 - h))) {
                let (gtp, gtm, gvp, gvm) = (get(&tp), get(&tm), get(&vp), get(&vm));
                let dt = |k: usize| (gtp[k] - gtm[k]) / (2.0 * h * s.t);
                let dv = |k: usize| (gvp[k] - gvm[k]) / (2.0 * h * s.v);
                // index: 0 H, 1 S, 2 U, 3 p; T = (1,0), V = (0,1)
                let jac = |f: (f64, f64), hh: (f64, f64), g: (f64, f64)| (f.0 * g.1 - f.1 * g.0) / (hh.0 * g.1 - hh.1 * g.0);
                let (hh, ss, uu, pp) = ((dt(0), dv(0)), (dt(1), dv(1)), (dt(2), dv(2)), (dt(3), dv(3)));
                let (tt, vv) = ((1.0, 0.0), (0.0, 1.0));
                let num = [
                    ("cv", uu.0 / n),
                    ("cp", jac(hh, tt, pp) / n),
                    ("joule_thomson", jac(tt, pp, hh)),
                    ("isentropic_compressibility", -jac(vv, pp, ss) / s.v),
                    ("isenthalpic_compressibility", -jac(vv, pp, hh) / s.v),
                    ("thermal_expansivity", jac(vv, tt, pp) / s.v),
                    ("grueneisen", s.v * jac(pp, uu, vv)),
                ];
                for ((q, x), (_, y)) in api.iter().zip(num.iter()) {
                    let rel = (x - y).abs() / x.abs().max(y.abs()).max(1e-300);
                    // (central differences with h = 1e-4 are good to ~1e-8 relative per derivative; the cancellation in the Joule-Thomson
                    // coefficient amplifies that by V/(n c_p)/|mu_JT|)
                    let extra = if *q == "joule_thomson" { 1e-9 * jt_scale / x.abs().max(1e-300) } else { 0.0 };
                    if !(rel <= 2e-5 + extra) {
                        fd.push(json!({"quantity": q, "reported": x, "from_numerical_partial_derivatives": y, "relative": rel}));
                    }
                }
                // speed of sound (SI) against 1/sqrt(rho_mass kappa_S) from the numerical isentropic compressibility
                let w = st.speed_of_sound().convert_into(quantity::METER / quantity::SECOND);
                let rho_mass = (st.density * st.total_molar_weight()).convert_into(quantity::KILOGRAM / quantity::METER.powi::<typenum::P3>());
                let ks_si = (-jac(vv, pp, ss) / s.v) / (1.380649e-23 * 1e30);
                let w_num = (1.0 / (rho_mass * ks_si)).sqrt();
                if w.is_finite() && w_num.is_finite() && !((w - w_num).abs() <= 2e-5 * w.abs()) {
                    fd.push(json!({"quantity": "speed_of_sound", "reported": w, "from_numerical_partial_derivatives": w_num}));
                }
            }
            out.push(json!({"file": name, "config": c.name, "state_TVN": s.vars(), "api": api.iter().map(|(q, x)| json!([q, x])).collect::<Vec<_>>(),
                            "jets": [att, atv, avv], "fd_failures": fd}));
        }
    }
    out
}

/// finite-difference oracle only
fn one_oracle<R: Residual>(c: &ConfigG<R>, seed: u64, n: usize) -> Value {
    let mut rng = Rng(seed ^ trace::fxhash(&c.name) ^ 0xC01);
    let mut fd_fail = Vec::new();
    for _ in 0..n {
        let s = configs::sample_state(c, &mut rng);
        let f = fd_search(&c.model, &s, c.special_t.contains(&s.t));
        if fd_fail.len() < 5 {
            fd_fail.extend(f.into_iter().take(3));
        }
    }
    json!({"name": c.name, "fd": {"states": n, "failures": fd_fail}})
}

pub fn run(out_dir: &str, tier: &str, seed: u64, only: Option<String>, search_n: Option<usize>) -> Value {
    let full = tier == "thorough";
    let cfgs: Vec<Config> = configs::all(full || only.is_some())
        .into_iter()
        .chain(configs::literal())
        .filter(|c| match &only {
            Some(o) => &c.name == o,
            None => full || c.core,
        })
        .collect();
    // size limits (instructions of P) up to which orders 2 and 3 are enclosed (cost grows ~9x / ~27x)
    let (lim2, lim3) = if full { (2500, 900) } else { (1500, 450) };
    let par = Par {
        out_dir,
        seed,
        k_states: if full { 4 } else { 2 },
        k_third: if full { 2 } else { 1 },
        k_fd: search_n.unwrap_or(if full { 40 } else { 6 }),
        lim2,
        lim3,
        prec: 100,
    };
    let mut results = Vec::new();
    for c in &cfgs {
        results.push(one(c, &par));
    }
    // Helmholtz energy functionals used as bulk models (the property quantifies over "every *Functional")
    let mut oracle_only = Vec::new();
    let sel = |n: &str, core: bool| match &only {
        Some(o) => o == n,
        None => full || core,
    };
    macro_rules! functional {
        ($c:expr) => {{
            let c = $c;
            if sel(&c.name, c.core) {
                results.push(one(&c, &par));
            } else if only.is_none() {
                oracle_only.push(one_oracle(&c, seed, par.k_fd.min(4)));
            }
        }};
    }
    functional!(functionals::pcsaft("fn_pcsaft_wb_propane_butane_kij", 0, true));
    functional!(functionals::pcsaft("fn_pcsaft_kr_water_methanol", 1, false));
    functional!(functionals::pcsaft("fn_pcsaft_wb_acetone_butanone", 2, true));
    functional!(functionals::pcsaft("fn_pcsaft_wb_water", 3, true));
    functional!(functionals::pcsaft("fn_pcsaft_aswb_propane", 4, false));
    functional!(functionals::gc_pcsaft("fn_gcpcsaft_propanol_ethanol", true));
    functional!(functionals::pets("fn_pets2", true));
    functional!(functionals::saftvrqmie("fn_saftvrqmie_h2", false));
    // quick tier: the configurations left to the thorough tier (large programs) still get the finite-difference oracle on
    // the public API, so that a change confined to one of them is not invisible to the per-change check
    if !full && only.is_none() {
        for c in configs::all(true).into_iter().chain(configs::literal()).filter(|c| !c.core) {
            oracle_only.push(one_oracle(&c, seed, par.k_fd.min(4)));
        }
    }
    let cal = if only.is_none() { caloric(out_dir, full, seed) } else { Vec::new() };
    json!({"property": "C01", "tier": tier, "seed": seed, "prec": par.prec, "configs": results, "oracle_only": oracle_only, "caloric": cal})
}

fn main() {
    let cli = feos_verif::cli::Cli::parse("/verif/coq/gen/C01");
    let res = run(&cli.out, &cli.tier, cli.seed, cli.opt("--only"), cli.opt("--fd").and_then(|s| s.parse().ok()));
    cli.write_impl(&res);
}
