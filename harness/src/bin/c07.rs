//! C07 — stability verdicts.  Runs the REAL implementation and writes
//!  * tpd_*.v     : `interval` goals: the tangent-plane distance of every returned trial phase, recomputed from
//!                  public-API fugacity coefficients with the model formula of coq/theories/TpdC07.v, is negative
//!  * step_*.v    : `interval` goals tying the successive-substitution map, the value `tpd = 1 - sum y`, the Newton
//!                  gradient/Hessian/step and the frozen-ln-phi objective to the hooked private functions
//!  * ctrl_*.v    : control skeleton of `minimize_tpd` and acceptance/deduplication of `stability_analysis`
//!                  (executable models over Q) vs. the hooked private functions on the same per-iteration data
//!  * impl.json   : everything the implementation returned + the support search (verdicts on both sides of the envelope)
use feos::pcsaft::{PcSaft, PcSaftParameters};
use feos_core::cubic::PengRobinson;
use feos_core::parameter::{IdentifierOption, Parameter};
use feos_core::{
    Contributions, DensityInitialization, EosError, PhaseEquilibrium, ReferenceSystem, Residual, SolverOptions, State,
};
use feos_verif::configs::{self, Rng};
use feos_verif::prog::dyadic;
use ndarray::{arr1, Array1};
use quantity::{Moles, Pressure, Temperature, Volume};
use serde_json::{json, Value};
use std::panic::{catch_unwind, AssertUnwindSafe};
use std::sync::Arc;

const N_HYDROCARBONS: usize = 51; // gross2001.json: methane .. biphenyl are the C/H-only records
const MARGIN: f64 = 0.02; // the 2 % margin of the property
#[allow(dead_code)]
const ZERO_TPD: f64 = -1e-8; // acceptance threshold of stability_analysis.rs (the Coq model TpdC07.zero_tpd carries it)
const TRIVIAL: f64 = 1e-5; // TRIVIAL_REL_DEVIATION of phase_equilibria/mod.rs
const P_REL: f64 = 1e-8; // trial phase pressure vs feed pressure: |dp| <= P_REL * p + P_ABS (the tolerances of C05)
const P_ABS: f64 = 1e-9; // reduced units; absolute floor of the pressure round-off of a liquid state

fn err_kind(e: &EosError) -> String {
    match e {
        EosError::NotConverged(s) => format!("NotConverged({s})"),
        EosError::IterationFailed(s) => format!("IterationFailed({s})"),
        EosError::TrivialSolution => "TrivialSolution".into(),
        EosError::NoPhaseSplit => "NoPhaseSplit".into(),
        EosError::UndeterminedState(s) => format!("UndeterminedState({s})"),
        other => format!("{other}"),
    }
}

fn run_guard<T>(f: impl FnOnce() -> Result<T, EosError>) -> Result<T, String> {
    match catch_unwind(AssertUnwindSafe(f)) {
        Ok(Ok(v)) => Ok(v),
        Ok(Err(e)) => Err(err_kind(&e)),
        Err(_) => Err("panic".into()),
    }
}

fn dyl(xs: &[f64]) -> String {
    let v: Vec<String> = xs.iter().map(|x| dyadic(*x)).collect();
    format!("[{}]%Z", v.join("; "))
}
fn rlist(xs: &[f64]) -> String {
    let v: Vec<String> = xs.iter().map(|x| format!("dy_R {}%Z", dyadic(*x))).collect();
    format!("[{}]", v.join("; "))
}
fn all_finite(xs: &[f64]) -> bool {
    xs.iter().all(|x| x.is_finite())
}

fn header() -> String {
    "From Coq Require Import Reals List ZArith QArith String.\nFrom Interval Require Import Tactic.\nFrom FeosVerif Require Import ProgSem TpdC07.\nImport ListNotations.\nOpen Scope string_scope.\nSet Printing Width 1000000.\nSet Printing Depth 1000000.\n".to_string()
}

// ------------------------------------------------------------------------------------------------
// independent recomputation

/// tangent-plane distance of `trial` with respect to `feed`, from public-API fugacity coefficients only
fn tpd_api<E: Residual>(feed: &State<E>, trial: &State<E>) -> (f64, Vec<f64>, Vec<f64>, Vec<f64>, Vec<f64>) {
    let z = feed.molefracs.to_vec();
    let w = trial.molefracs.to_vec();
    let pz = feed.ln_phi().to_vec();
    let pw = trial.ln_phi().to_vec();
    let t: f64 = (0..z.len()).map(|i| if w[i] > 0.0 { w[i] * (w[i].ln() + pw[i] - z[i].ln() - pz[i]) } else { 0.0 }).sum();
    (t, w, pw, z, pz)
}

fn max_rel_dev(r1: &[f64], r2: &[f64]) -> f64 {
    r1.iter().zip(r2).fold(0.0f64, |a, (x, y)| (y / x - 1.0).abs().max(a))
}

fn state_json<E: Residual>(s: &State<E>) -> Value {
    json!({"T": s.temperature.to_reduced(), "p": s.pressure(Contributions::Total).to_reduced(), "rho": s.density.to_reduced(),
           "x": s.molefracs.to_vec(), "partial_density": s.partial_density.to_reduced().to_vec()})
}


/// the value `minimize_tpd` returned for each state of `trials` (hooked re-run of the N+1 minimisations; matched bit-for-bit)
fn code_tpds<E: Residual>(feed: &State<E>, opts: SolverOptions, trials: &[State<E>]) -> Vec<Option<f64>> {
    let n = feed.eos.components();
    let mut finals: Vec<(Vec<f64>, f64)> = Vec::new();
    for i in 0..=n {
        if let Ok(mut t) = run_guard(|| feed.verif_define_trial_state(i)) {
            if let Ok((Some(tpd), _)) = run_guard(|| feed.verif_minimize_tpd(&mut t, opts)) {
                finals.push((t.partial_density.to_reduced().to_vec(), tpd));
            }
        }
    }
    trials.iter().map(|s| { let r = s.partial_density.to_reduced().to_vec(); finals.iter().find(|f| f.0 == r).map(|f| f.1) }).collect()
}

/// what the property asks of one analysed state
#[derive(Clone, Copy, PartialEq)]
enum Expect {
    Stable,
    Unstable,
    /// only soundness of whatever is returned (no verdict prescribed)
    Any,
}

struct Tally {
    analysed: usize,
    trials_returned: usize,
    worst_tpd: f64, // largest (closest to zero) recomputed tpd of a returned trial phase
    worst_p: f64,
    flashes: usize,
    flash_ok: usize,
    errors_any: usize,
    by_kind: std::collections::BTreeMap<String, [usize; 3]>, // stable / unstable / error
}

impl Tally {
    fn new() -> Self {
        Tally { analysed: 0, trials_returned: 0, worst_tpd: f64::NEG_INFINITY, worst_p: 0.0, flashes: 0, flash_ok: 0, errors_any: 0, by_kind: Default::default() }
    }
}

struct Goals {
    tpd: Vec<(String, Value)>,
}

/// analyse one state with the real `stability_analysis`; returns failures (property text decides)
#[allow(clippy::too_many_arguments)]
fn analyse<E: Residual>(
    feed: &State<E>,
    key: Value,
    kind: &str,
    expect: Expect,
    opts: SolverOptions,
    flash: bool,
    tally: &mut Tally,
    goals: &mut Goals,
    failures: &mut Vec<Value>,
) -> Option<Vec<State<E>>> {
    tally.analysed += 1;
    let ent = tally.by_kind.entry(kind.to_string()).or_insert([0; 3]);
    let mut fail = |ty: &str, what: String, detail: Value, tpds: Vec<f64>, codes: Vec<Option<f64>>| {
        failures.push(json!({"key": key, "kind": kind, "type": ty, "what": what, "detail": detail, "feed": state_json(feed),
            "max_abs_tpd_recomputed": tpds.iter().fold(0.0f64, |a, t| a.max(t.abs())), "options": key["opts"],
            "tpd_accepted_by_the_code": codes}));
    };
    let opt_index = key["opts"].as_u64().unwrap_or(0) as usize;
    let res = run_guard(|| feed.stability_analysis(opts));
    let out = match res {
        Err(e) => {
            ent[2] += 1;
            let off_window = key["off_window"].as_bool().unwrap_or(false);
            if expect != Expect::Any && !((below_noise_floor(opt_index) || off_window) && e.starts_with("NotConverged")) {
                fail("error_instead_of_verdict", format!("stability_analysis returns an error instead of a verdict: {e}"), json!({"error": e}), vec![], vec![]);
            } else {
                tally.errors_any += 1;
            }
            None
        }
        Ok(trials) => {
            if trials.is_empty() {
                ent[0] += 1;
            } else {
                ent[1] += 1;
            }
            // soundness of every returned trial phase
            for (ti, tr) in trials.iter().enumerate() {
                tally.trials_returned += 1;
                let (t, w, pw, z, pz) = tpd_api(feed, tr);
                let pf = feed.pressure(Contributions::Total).to_reduced();
                let pt = tr.pressure(Contributions::Total).to_reduced();
                let dp = ((pt - pf).abs() - P_ABS).max(0.0) / pf.abs();
                tally.worst_p = tally.worst_p.max(dp);
                if t.is_finite() {
                    tally.worst_tpd = tally.worst_tpd.max(t);
                }
                let mut bad = Vec::new();
                if !(t < 0.0) {
                    bad.push(format!("returned trial phase {ti} has tangent-plane distance {t:e} >= 0 when recomputed from ln_phi"));
                }
                if tr.temperature.to_reduced() != feed.temperature.to_reduced() {
                    bad.push(format!("trial phase {ti} has a different temperature"));
                }
                if !(dp <= P_REL) {
                    bad.push(format!("trial phase {ti} has pressure {pt} instead of the feed pressure {pf}"));
                }
                let dev = max_rel_dev(feed.partial_density.to_reduced().as_slice().unwrap(), tr.partial_density.to_reduced().as_slice().unwrap());
                if !(dev >= TRIVIAL) {
                    bad.push(format!("trial phase {ti} is a copy of the analysed state"));
                }
                for (tj, other) in trials.iter().enumerate().take(ti) {
                    let d = max_rel_dev(other.partial_density.to_reduced().as_slice().unwrap(), tr.partial_density.to_reduced().as_slice().unwrap());
                    if !(d >= TRIVIAL) {
                        bad.push(format!("trial phases {tj} and {ti} are copies of each other"));
                    }
                }
                if !bad.is_empty() {
                    fail("unsound_trial_phase", bad.join("; "), json!({"trial": state_json(tr), "tpd_recomputed": t, "w": w, "ln_phi_w": pw, "z": z, "ln_phi_z": pz}), vec![if t.is_finite() { t } else { f64::INFINITY }], code_tpds(feed, opts, std::slice::from_ref(tr)));
                } else if all_finite(&pw) && all_finite(&pz) && w.iter().all(|x| *x > 0.0) && z.iter().all(|x| *x > 0.0) {
                    goals.tpd.push((
                        format!("Goal tpd_of {} {} {} {} < 0 /\\ Rabs (tpd_of {} {} {} {} - dy_R {}%Z) <= {:e}.\nProof. split; tpd_interval. Qed.\n",
                            rlist(&w), rlist(&pw), rlist(&z), rlist(&pz), rlist(&w), rlist(&pw), rlist(&z), rlist(&pz), dyadic(t), 1e-12 * (1.0 + t.abs())),
                        json!({"key": key, "kind": kind, "trial": ti, "tpd_recomputed": t, "w": w, "ln_phi_w": pw, "z": z, "ln_phi_z": pz}),
                    ));
                }
            }
            match expect {
                Expect::Stable if !trials.is_empty() => fail(
                    "reported_unstable",
                    format!("state that must be stable ({kind}) is reported unstable ({} trial phase(s))", trials.len()),
                    json!({"trials": trials.iter().map(|s| { let mut j = state_json(s); j["tpd_recomputed"] = json!(tpd_api(feed, s).0); j }).collect::<Vec<_>>()}),
                    trials.iter().map(|s| tpd_api(feed, s).0).collect(),
                    code_tpds(feed, opts, &trials),
                ),
                Expect::Unstable if trials.is_empty() => fail("reported_stable", format!("feed strictly inside the two-phase region ({kind}) is reported stable"), json!(null), vec![], vec![]),
                _ => {}
            }
            Some(trials)
        }
    };
    if flash && expect == Expect::Unstable {
        tally.flashes += 1;
        match run_guard(|| feed.tp_flash(None, SolverOptions::default(), None)) {
            Ok(vle) => {
                tally.flash_ok += 1;
                let d = max_rel_dev(vle.vapor().partial_density.to_reduced().as_slice().unwrap(), vle.liquid().partial_density.to_reduced().as_slice().unwrap());
                if !(d >= TRIVIAL) {
                    failures.push(json!({"key": key, "kind": format!("{kind}:flash"), "type": "flash_failed", "what": "flash of a feed inside the two-phase region returns two copies of one phase", "feed": state_json(feed)}));
                }
            }
            Err(e) if key["off_window"].as_bool().unwrap_or(false) && e == "NotConverged(stability analysis)" => tally.errors_any += 1,
            Err(e) => failures.push(json!({"key": key, "kind": format!("{kind}:flash"), "type": "flash_failed", "what": format!("flash of a feed strictly inside the two-phase region fails: {e}"), "detail": {"error": e}, "feed": state_json(feed)})),
        }
    }
    out
}


// ------------------------------------------------------------------------------------------------
// tie of the models of TpdC07.v to the hooked private functions

#[derive(Default)]
struct Tie {
    step_goals: Vec<(String, Value)>, // (Coq text of all goals of one step, meta)
    ctrl_cases: Vec<(String, Value)>,
    stab_cases: Vec<(String, Value)>,
    triv_cases: Vec<(String, Value)>,
    formula_mismatch: Vec<Value>,
    trial_mismatch: Vec<Value>,
    trial_goals: Vec<(String, Value)>,
    n_trials_compared: usize,
    n_ss_steps: usize,
    n_newton_steps: usize,
    n_newton_direct: usize,
    undetermined_steps: usize,
    guarded_newton_steps: usize,
    newton_goals_skipped_guard: usize,
    max_step_goals: usize,
}

fn opt_pair(i: usize) -> (f64, usize) {
    let (mi, tol, _) = options(i).unwrap_or(100, 1e-6);
    (tol, mi)
}

fn rmat(m: &[Vec<f64>]) -> String {
    let v: Vec<String> = m.iter().map(|r| rlist(r)).collect();
    format!("[{}]", v.join("; "))
}

/// goals for one Newton step  W -> Y  performed by the real `stability_newton_step` at a state with ln phi = p, matrix dphi
#[allow(clippy::too_many_arguments)]
fn newton_goals(w: &[f64], y: &[f64], p: &[f64], d: &[f64], dphi: &[Vec<f64>], err_impl: Option<f64>, tpd_impl: Option<f64>, meta: Value, tie: &mut Tie) {
    let n = w.len();
    if w.iter().chain(y.iter()).any(|v| *v <= 4.0 * f64::EPSILON) {
        // the real-valued model TpdC07.newton_grad has no `y > f64::EPSILON` guard: its domain is amounts above the guard
        tie.newton_goals_skipped_guard += 1;
        return;
    }
    let g: Vec<f64> = (0..n).map(|i| w[i].ln() + p[i] - d[i]).collect();
    let grad: Vec<f64> = (0..n).map(|i| w[i].sqrt() * g[i]).collect();
    let delta: Vec<f64> = (0..n).map(|i| 2.0 * (w[i].sqrt() - y[i].sqrt())).collect();
    // find the Murray shift eta_h in {1 + 0.25 m} the step was solved with
    let mut best = (f64::INFINITY, 1.0);
    for m in 0..=160 {
        let eta = 1.0 + 0.25 * m as f64;
        let mut r = 0.0f64;
        for i in 0..n {
            let mut s = -grad[i];
            let mut sc = grad[i].abs();
            for j in 0..n {
                let h = w[i].sqrt() * w[j].sqrt() * dphi[i][j] + if i == j { g[i] + eta } else { 0.0 };
                s += h * delta[j];
                sc += (h * delta[j]).abs();
            }
            r = r.max(s.abs() / (sc + 1e-300));
        }
        if r < best.0 {
            best = (r, eta);
        }
    }
    let eta = best.1;
    let mut v = String::new();
    if let Some(e) = err_impl {
        v.push_str(&format!("Goal Rabs (newton_err {} {} {} - dy_R {}%Z) <= {:e}.\nProof. tpd_interval. Qed.\n", rlist(w), rlist(p), rlist(d), dyadic(e), 1e-11 * (1.0 + e.abs())));
    }
    if let Some(t) = tpd_impl {
        v.push_str(&format!("Goal Rabs (tm_of {} {} {} - dy_R {}%Z) <= {:e}.\nProof. tpd_interval. Qed.\n", rlist(y), rlist(p), rlist(d), dyadic(t), 1e-11 * (1.0 + t.abs())));
    }
    let mut tols = Vec::new();
    for i in 0..n {
        let mut sc = grad[i].abs();
        for j in 0..n {
            let h = w[i].sqrt() * w[j].sqrt() * dphi[i][j] + if i == j { g[i] + eta } else { 0.0 };
            sc += (h * delta[j]).abs();
        }
        let tol = 1e-6 * sc + 1e-11;
        tols.push(tol);
        v.push_str(&format!(
            "Goal Rabs (newton_residual (dy_R {}%Z) {} {} {} {} {} {i}) <= {:e}.\nProof. tpd_interval. Qed.\n",
            dyadic(eta), rlist(w), rlist(p), rlist(d), rlist(y), rmat(dphi), tol
        ));
    }
    let mut m = meta;
    m["eta_h"] = json!(eta);
    m["rel_residual_f64"] = json!(best.0);
    m["W"] = json!(w);
    m["Y"] = json!(y);
    m["gradient"] = json!(grad);
    m["residual_tolerances"] = json!(tols);
    tie.step_goals.push((v, m));
}

fn tie_feed<E: Residual>(feed: &State<E>, key: &Value, opts_i: usize, tie: &mut Tie, failures: &mut Vec<Value>) {
    let n = feed.eos.components();
    let (tol, max_iter) = opt_pair(opts_i);
    let opts = SolverOptions::default().tol(tol).max_iter(max_iter);
    let z = feed.molefracs.to_vec();
    let pz = feed.ln_phi().to_vec();
    if !all_finite(&pz) || z.iter().any(|x| *x <= 0.0) {
        return;
    }
    let d: Vec<f64> = (0..n).map(|i| z[i].ln() + pz[i]).collect();
    let darr = Array1::from_vec(d.clone());
    let rho_feed = feed.partial_density.to_reduced().to_vec();
    let mut stab_items: Vec<String> = Vec::new();
    let mut finals: Vec<Option<Vec<f64>>> = Vec::new();
    let mut stab_meta = Vec::new();
    for i in 0..=n {
        let t0 = match run_guard(|| feed.verif_define_trial_state(i)) {
            Ok(s) => s,
            Err(e) => {
                stab_items.push("(None, false)".into());
                finals.push(None);
                stab_meta.push(json!({"trial": i, "define_trial_state": e}));
                continue;
            }
        };
        // ---- the trial state against the model of define_trial_state: composition (TpdC07.trial_liquid / trial_vapor) and the state
        // of aggregation it is created in (liquid-like for the N nearly pure trials, vapour-like for the ideal-vapour estimate)
        {
            let xt: Vec<f64> = if i == n {
                let yv: Vec<f64> = (0..n).map(|j| pz[j].exp() * z[j]).collect();
                let sy: f64 = yv.iter().sum();
                yv.iter().map(|v| v / sy).collect()
            } else {
                let f = (1.0 - 0.99) / (z.iter().sum::<f64>() - z[i]);
                (0..n).map(|j| if j == i { 0.99 } else { z[j] * f }).collect()
            };
            let init = if i == n { DensityInitialization::Vapor } else { DensityInitialization::Liquid };
            let xs = t0.molefracs.to_vec();
            let dx = (0..n).map(|j| (xs[j] - xt[j]).abs()).fold(0.0, f64::max);
            let expected = run_guard(|| State::new_npt(&feed.eos, feed.temperature, feed.pressure(Contributions::Total), &Moles::from_reduced(Array1::from_vec(xt.clone())), init));
            tie.n_trials_compared += 1;
            let rho = t0.density.to_reduced();
            let mut bad = Vec::new();
            if !(dx <= 1e-14) {
                bad.push(format!("composition {xs:?} instead of {xt:?}"));
            }
            match &expected {
                Ok(e) => {
                    let re = e.density.to_reduced();
                    if !((rho - re).abs() <= 1e-9 * re) {
                        bad.push(format!("density {rho} instead of the {} root {re} of the trial composition at the feed's (T, p)", if i == n { "vapour-like" } else { "liquid-like" }));
                    }
                }
                Err(e) => bad.push(format!("the {} state of the trial composition does not exist ({e}) but a trial state was created", if i == n { "vapour-like" } else { "liquid-like" })),
            }
            if !bad.is_empty() {
                tie.trial_mismatch.push(json!({"key": key, "trial": i, "what": bad.join("; ")}));
            }
            if tie.trial_goals.len() < tie.max_step_goals && xs.iter().all(|x| *x > 0.0) {
                let mut v = String::new();
                for j in 0..n {
                    if i == n {
                        v.push_str(&format!("Goal Rabs (nth {j} (trial_vapor {} {}) 0 - dy_R {}%Z) <= 1e-14.\nProof. tpd_interval. Qed.\n", rlist(&z), rlist(&pz), dyadic(xs[j])));
                    } else {
                        v.push_str(&format!("Goal Rabs (nth {j} (trial_liquid {} {i}) 0 - dy_R {}%Z) <= 1e-14.\nProof. tpd_interval. Qed.\n", rlist(&z), dyadic(xs[j])));
                    }
                }
                tie.trial_goals.push((v, json!({"key": key, "trial": i, "x": xs})));
            }
        }
        let mut tr = t0.clone();
        let r = run_guard(|| feed.verif_minimize_tpd(&mut tr, opts));
        let (outcome, it): ((i64, Option<f64>), usize) = match &r {
            Ok((Some(t), it)) => ((1, Some(*t)), *it),
            Ok((None, it)) => ((0, None), *it),
            Err(e) if e.starts_with("NotConverged") => ((2, None), max_iter),
            Err(_) => ((3, None), 0),
        };
        match &r {
            Ok((t, _)) => {
                let rho = tr.partial_density.to_reduced().to_vec();
                stab_items.push(format!("(Some ({}, {}), false)", match t { Some(t) => format!("Some {}%Z", dyadic(*t)), None => "None".into() }, dyl(&rho)));
                finals.push(if t.is_some() { Some(rho.clone()) } else { None }); // every converged trial: the model decides which are accepted
                stab_meta.push(json!({"trial": i, "tpd": t, "iterations": it, "partial_density": rho}));
            }
            Err(e) => {
                stab_items.push("(None, true)".into());
                finals.push(None);
                stab_meta.push(json!({"trial": i, "minimize_tpd": e}));
            }
        }
        if outcome.0 == 3 || it == 0 || it > 60 {
            continue;
        }
        // iterates y_0 .. y_it by re-running the real minimisation with max_iter = k
        let mut states = vec![t0.clone()];
        for k in 1..=it {
            if k == it && outcome.0 != 2 {
                states.push(tr.clone());
            } else {
                let mut tk = t0.clone();
                let _ = run_guard(|| feed.verif_minimize_tpd(&mut tk, opts.max_iter(k)));
                states.push(tk);
            }
        }
        let mut trace = Vec::new();
        let mut kinds: Vec<Option<bool>> = Vec::new();
        let mut tpd_prev = 1e10f64;
        let mut ok = true;
        for k in 1..=it {
            let (prev, cur) = (&states[k - 1], &states[k]);
            // derivative-evaluating calls only on clones: the cache of a State makes ln_phi depend (at round-off level, amplified
            // by 1/Z for liquids at low pressure) on whether second derivatives were requested before
            let mut p = prev.clone().ln_phi().to_vec();
            let w = prev.moles.to_reduced().to_vec();
            let y = cur.moles.to_reduced().to_vec();
            if !all_finite(&p) || !all_finite(&y) || y.iter().any(|x| *x <= 0.0) || w.iter().any(|x| *x <= 0.0) {
                ok = false;
                break;
            }
            let c: Vec<f64> = (0..n).map(|j| (d[j] - p[j]).exp()).collect();
            let ss_match = (0..n).all(|j| (y[j] / c[j] - 1.0).abs() < 1e-13);
            // what the real Newton step would have produced from the previous iterate (deterministic: bit-for-bit)
            let newton_match = {
                let mut sn = prev.clone();
                let mut tp = tpd_prev;
                run_guard(|| sn.verif_stability_newton_step(&darr, &mut tp)).is_ok() && sn.moles.to_reduced().to_vec() == y
            };
            if newton_match && !ss_match {
                // the Newton step reads ln_phi after dln_phi_dnj (line 163-164)
                let c2 = prev.clone();
                let _ = c2.dln_phi_dnj();
                p = c2.ln_phi().to_vec();
            }
            let (is_ss, determined) = match (ss_match, newton_match) {
                (true, false) => (true, true),
                (false, true) => (false, true),
                _ => ((0..n).all(|j| (y[j] / c[j] - 1.0).abs() < 1e-9), false),
            };
            if !determined {
                tie.undetermined_steps += 1;
            }
            let triv = PhaseEquilibrium::is_trivial_solution(feed, cur);
            let last = k == it && outcome.0 == 1;
            let (err, tpd);
            if is_ss {
                let sc: f64 = c.iter().sum();
                tpd = 1.0 - sc;
                err = (0..n).map(|j| (c[j] / sc - prev.molefracs[j]).abs()).sum::<f64>();
                tie.n_ss_steps += 1;
                if determined && tie.step_goals.len() < tie.max_step_goals && (k <= 2 || last) {
                    let mut v = String::new();
                    for j in 0..n {
                        v.push_str(&format!("Goal Rabs (nth {j} (ss_map {} {}) 0 - dy_R {}%Z) <= {:e}.\nProof. tpd_interval. Qed.\n", rlist(&d), rlist(&p), dyadic(y[j]), 1e-12 * (1.0 + y[j].abs())));
                    }
                    v.push_str(&format!("Goal Rabs (ss_err {} {} {} - dy_R {}%Z) <= {:e}.\nProof. tpd_interval. Qed.\n", rlist(&d), rlist(&p), rlist(prev.molefracs.as_slice().unwrap()), dyadic(err), 1e-12));
                    if last {
                        v.push_str(&format!("Goal Rabs (ss_tpd {} {} - dy_R {}%Z) <= {:e}.\nProof. tpd_interval. Qed.\n", rlist(&d), rlist(&p), dyadic(outcome.1.unwrap()), 1e-12));
                    }
                    tie.step_goals.push((v, json!({"key": key, "trial": i, "iteration": k, "kind": "substitution", "accepted_here": last, "y": y, "error": err, "tpd": tpd})));
                }
            } else {
                // the Newton step drops ln(y_i) of amounts y_i <= f64::EPSILON (lines 166, 175, 214); the mirror must do the same
                let gln = |v: f64| if v > f64::EPSILON { v.ln() } else { 0.0 };
                if w.iter().chain(y.iter()).any(|v| *v <= f64::EPSILON) {
                    tie.guarded_newton_steps += 1;
                }
                let g: Vec<f64> = (0..n).map(|j| gln(w[j]) + p[j] - d[j]).collect();
                err = (0..n).map(|j| (w[j].sqrt() * g[j]).abs()).sum::<f64>();
                tpd = 1.0 + (0..n).map(|j| y[j] * (gln(y[j]) + p[j] - d[j] - 1.0)).sum::<f64>();
                tie.n_newton_steps += 1;
                if determined && tie.step_goals.len() < tie.max_step_goals {
                    let dm = (prev.clone().dln_phi_dnj() * Moles::from_reduced(1.0)).into_value();
                    let dphi: Vec<Vec<f64>> = (0..n).map(|a| (0..n).map(|b| dm[[a, b]]).collect()).collect();
                    newton_goals(&w, &y, &p, &d, &dphi, None, if last { outcome.1 } else { None },
                        json!({"key": key, "trial": i, "iteration": k, "kind": "newton (inside minimize_tpd)", "accepted_here": last, "error": err, "tpd": tpd}), tie);
                }
            }
            if last {
                let tc = outcome.1.unwrap();
                if !((tc - tpd).abs() <= 1e-10 * (1.0 + tc.abs())) {
                    tie.formula_mismatch.push(json!({"key": key, "trial": i, "iteration": k, "step": if is_ss { "substitution" } else { "newton" },
                        "tpd_returned_by_minimize_tpd": tc, "tpd_by_the_model_formula": tpd}));
                }
            }
            trace.push(format!("(({}, {}), {})", dyadic(err), dyadic(tpd), triv));
            kinds.push(if determined { Some(!is_ss) } else { None });
            tpd_prev = tpd;
            // is_trivial_solution model
            if tie.triv_cases.len() < 400 {
                let rc = cur.partial_density.to_reduced().to_vec();
                if rho_feed.iter().all(|x| *x > 0.0) && all_finite(&rc) {
                    tie.triv_cases.push((format!("({}, {})", dyl(&rho_feed), dyl(&rc)), json!({"impl": triv, "rho1": rho_feed, "rho2": rc})));
                }
            }
        }
        if ok {
            tie.ctrl_cases.push((
                format!("(({}, {}%nat), [{}])", dyadic(tol), max_iter, trace.join("; ")),
                json!({"key": key, "trial": i, "tol": tol, "max_iter": max_iter, "impl_outcome": outcome.0, "impl_iterations": it, "impl_tpd": outcome.1, "impl_newton_flags": kinds}),
            ));
        }
        // a Newton step of the real code from an early iterate (Murray regularisation active far from the minimum)
        if tie.n_newton_direct < tie.max_step_goals / 3 && states.len() > 1 {
            let s0 = &states[(states.len() - 1).min(2)];
            let s0c = s0.clone();
            let dm = (s0c.dln_phi_dnj() * Moles::from_reduced(1.0)).into_value();
            let p = s0c.ln_phi().to_vec();
            let w = s0.moles.to_reduced().to_vec();
            if all_finite(&p) && w.iter().all(|x| *x > 0.0) {
                let dphi: Vec<Vec<f64>> = (0..n).map(|a| (0..n).map(|b| dm[[a, b]]).collect()).collect();
                let mut s1 = s0.clone();
                let mut tpd = 1.0 - w.iter().sum::<f64>();
                let tpd_in = tpd;
                if let Ok(err) = run_guard(|| s1.verif_stability_newton_step(&darr, &mut tpd)) {
                    let y = s1.moles.to_reduced().to_vec();
                    if all_finite(&y) && y.iter().all(|x| *x > 0.0) && dphi.iter().all(|r| all_finite(r)) {
                        tie.n_newton_direct += 1;
                        if std::env::var("C07_DEBUG").is_ok() {
                            let t2 = 1.0 + (0..n).map(|j| y[j] * (y[j].ln() + p[j] - d[j] - 1.0)).sum::<f64>();
                            let p2 = s0.clone().ln_phi().to_vec();
                            eprintln!("newton direct: tpd hook {tpd:e} harness {t2:e} diff {:e}; p {:?} p2 {:?} y {:?} w {:?}", tpd - t2, p, p2, y, w);
                        }
                        newton_goals(&w, &y, &p, &d, &dphi, Some(err), Some(tpd),
                            json!({"key": key, "trial": i, "kind": "newton (hooked stability_newton_step)", "tpd_in": tpd_in, "error": err, "tpd": tpd}), tie);
                    }
                }
            }
        }
    }
    // acceptance / deduplication: the real stability_analysis on the same feed with the same options
    let expected: Option<Vec<usize>> = match run_guard(|| feed.stability_analysis(opts)) {
        Ok(res) => {
            let mut idx = Vec::new();
            let mut from = 0;
            for s in &res {
                let rho = s.partial_density.to_reduced().to_vec();
                let mut found = None;
                for (j, f) in finals.iter().enumerate().skip(from) {
                    if f.as_ref().map(|f| *f == rho).unwrap_or(false) {
                        found = Some(j);
                        break;
                    }
                }
                match found {
                    Some(j) => {
                        idx.push(j);
                        from = j + 1;
                    }
                    None => {
                        failures.push(json!({"key": key, "kind": "tie:stability_analysis", "what": "a state returned by stability_analysis is not the final iterate of any of its own minimisations (hooked minimize_tpd on the same trial states)", "feed": state_json(feed)}));
                        return;
                    }
                }
            }
            Some(idx)
        }
        Err(_) => None,
    };
    tie.stab_cases.push((format!("[{}]", stab_items.join("; ")), json!({"key": key, "expected": expected, "trials": stab_meta})));
}


// ------------------------------------------------------------------------------------------------
// flashes started from the converged flash of ANOTHER condition of the same mixture (pressure / composition / temperature sweeps)

/// (system, feed state, its converged flash without initial state, key)
type Pool<E> = Vec<(String, State<E>, PhaseEquilibrium<E, 2>, Value)>;

#[derive(Default)]
struct Sweep {
    cases: Vec<(String, Value)>,
    combos: usize,
    ok: usize,
    from_guess: usize,
    fell_back: usize,
    worst_dx: f64,
}

fn err_code(e: &str) -> usize {
    if e.starts_with("NoPhaseSplit") {
        0
    } else if e.starts_with("IterationFailed") {
        1
    } else if e.starts_with("NotConverged") {
        2
    } else if e.starts_with("TrivialSolution") {
        3
    } else {
        4
    }
}

/// per stage of the start cascade of tp_flash: (stage, iteration started, converged), from the event trace of the real function
fn stages_of(ev: &[feos_core::verif_c12::VerifEvent]) -> Vec<(String, bool, bool)> {
    use feos_core::verif_c12::VerifEvent as V;
    let mut out: Vec<(String, bool, bool)> = Vec::new();
    for e in ev {
        match e {
            V::Stage { solver: "tp_flash", stage } => out.push((stage.to_string(), false, false)),
            V::IterStart { solver: "tp_flash", .. } => {
                if let Some(l) = out.last_mut() {
                    l.1 = true
                }
            }
            V::Converged { solver: "tp_flash", .. } => {
                if let Some(l) = out.last_mut() {
                    l.2 = true
                }
            }
            _ => {}
        }
    }
    out
}

fn traced_flash<E: Residual>(feed: &State<E>, init: Option<&PhaseEquilibrium<E, 2>>) -> (Result<PhaseEquilibrium<E, 2>, String>, Vec<(String, bool, bool)>) {
    feos_core::verif_c12::verif_trace_start();
    let r = run_guard(|| feed.tp_flash(init, SolverOptions::default(), None));
    let ev = feos_core::verif_c12::verif_trace_take();
    (r, stages_of(&ev))
}

fn stage_code(s: &str) -> usize {
    match s {
        "guess" => 0,
        "stability_1" => 1,
        _ => 2,
    }
}

/// all ordered (feed, guess) pairs of one system (strided down to `cap`)
fn sweep_system<E: Residual>(entries: &[&(String, State<E>, PhaseEquilibrium<E, 2>, Value)], cap: usize, sw: &mut Sweep, failures: &mut Vec<Value>) {
    let n = entries.len();
    if n < 2 {
        return;
    }
    let total = n * (n - 1);
    let stride = (total / cap.max(1)).max(1);
    let mut idx = 0usize;
    for (i, (sys, feed, reference, key)) in entries.iter().map(|e| (&e.0, &e.1, &e.2, &e.3)).enumerate() {
        // the flash without initial state, traced: what the stability-analysis start delivers for this feed
        let (r_none, st_none) = traced_flash(feed, None);
        let stab_in = {
            let s1 = st_none.iter().find(|s| s.0 == "stability_1");
            let s2 = st_none.iter().find(|s| s.0 == "stability_2");
            let final_err = r_none.as_ref().err().map(|e| err_code(e)).unwrap_or(9);
            match (s1, s2) {
                (Some(a), _) if !a.1 => format!("StErr {final_err}"),
                (Some(a), None) if a.2 => "StOne AOk".to_string(),
                (Some(_), None) => format!("StOne (AErr {final_err})"),
                (Some(_), Some(b)) if b.2 => "StTwo (AErr 9) AOk".to_string(),
                (Some(_), Some(_)) => format!("StTwo (AErr 9) (AErr {final_err})"),
                (None, _) => "StErr 9".to_string(),
            }
        };
        for (j, guess) in entries.iter().enumerate() {
            if i == j {
                continue;
            }
            idx += 1;
            if idx % stride != 0 {
                continue;
            }
            sw.combos += 1;
            let (r, st) = traced_flash(feed, Some(&guess.2));
            let pair_key = json!({"sys": sys, "feed": key, "guess": guess.3, "which": "inside:flash_with_initial_state",
                "sweep": {"sys": sys, "feed_spec": key["spec"], "guess_spec": guess.3["spec"]}});
            // ---- the clause of the property: the feed is inside the two-phase region, the flash must deliver the phase split
            match &r {
                Ok(v) => {
                    sw.ok += 1;
                    let dx = (0..v.liquid().molefracs.len())
                        .map(|c| (v.liquid().molefracs[c] - reference.liquid().molefracs[c]).abs().max((v.vapor().molefracs[c] - reference.vapor().molefracs[c]).abs()))
                        .fold(0.0, f64::max);
                    sw.worst_dx = sw.worst_dx.max(dx);
                    let d = max_rel_dev(v.vapor().partial_density.to_reduced().as_slice().unwrap(), v.liquid().partial_density.to_reduced().as_slice().unwrap());
                    if !(dx <= 1e-6) || !(d >= TRIVIAL) {
                        failures.push(json!({"key": pair_key, "kind": "inside:flash_with_initial_state", "type": "flash_with_initial_state_differs",
                            "what": format!("flash started from the converged flash of another condition returns a different / degenerate phase split (max composition difference {dx:e}, phase distinctness {d:e})"),
                            "feed": state_json(feed), "detail": {"liquid": state_json(v.liquid()), "vapor": state_json(v.vapor()), "reference_liquid": state_json(reference.liquid()), "reference_vapor": state_json(reference.vapor())}}));
                    }
                }
                Err(e) => failures.push(json!({"key": pair_key, "kind": "inside:flash_with_initial_state", "type": "flash_with_initial_state_failed",
                    "what": format!("flash of a feed strictly inside the two-phase region, started from the converged flash of another condition of the same mixture, fails: {e} (the flash without initial state finds the split)"),
                    "feed": state_json(feed), "detail": {"error": e, "stages": st.iter().map(|s| json!([s.0, s.1, s.2])).collect::<Vec<_>>()}})),
            }
            // ---- the start cascade against the model FlashCascadeC07.cascade
            let g = st.iter().find(|s| s.0 == "guess");
            let guess_in = match g {
                None => "GNone".to_string(),
                Some(a) if !a.1 => format!("GUpdateFailed {}", r.as_ref().err().map(|e| err_code(e)).unwrap_or(9)),
                Some(a) if a.2 => "GAttempt AOk".to_string(),
                Some(_) => "GAttempt (AErr 9)".to_string(),
            };
            if g.map(|a| a.2).unwrap_or(false) {
                sw.from_guess += 1;
            } else {
                sw.fell_back += 1;
            }
            let visited: Vec<usize> = st.iter().map(|s| stage_code(&s.0)).collect();
            let result = match &r {
                Ok(_) => (1usize, st.last().map(|s| stage_code(&s.0)).unwrap_or(9)),
                Err(e) => (0usize, err_code(e)),
            };
            sw.cases.push((format!("({guess_in}, {stab_in})"), json!({"key": pair_key, "guess_in": guess_in, "stab_in": stab_in, "impl_visited": visited, "impl_result": [result.0, result.1]})));
        }
    }
}

fn sweep_pool<E: Residual>(pool: &Pool<E>, cap_per_system: usize, sw: &mut Sweep, failures: &mut Vec<Value>) {
    let mut names: Vec<&String> = Vec::new();
    for e in pool {
        if !names.contains(&&e.0) {
            names.push(&e.0);
        }
    }
    for nm in names {
        let entries: Vec<&(String, State<E>, PhaseEquilibrium<E, 2>, Value)> = pool.iter().filter(|e| &e.0 == nm).collect();
        sweep_system(&entries, cap_per_system, sw, failures);
    }
}

// ------------------------------------------------------------------------------------------------
// systems

fn hydrocarbon_names() -> Vec<String> {
    let path = format!("{}/pcsaft/gross2001.json", configs::params());
    let txt = std::fs::read_to_string(path).unwrap();
    let v: Value = serde_json::from_str(&txt).unwrap();
    let names: Vec<String> = v.as_array().unwrap().iter().map(|r| r["identifier"]["name"].as_str().unwrap().to_string()).collect();
    assert_eq!(names[N_HYDROCARBONS - 1], "biphenyl");
    names[..N_HYDROCARBONS].to_vec()
}

fn pcsaft(names: &[&str]) -> Arc<PcSaft> {
    let p = PcSaftParameters::from_json(names.to_vec(), format!("{}/pcsaft/gross2001.json", configs::params()), None, IdentifierOption::Name).unwrap();
    Arc::new(PcSaft::new(Arc::new(p)))
}


/// PC-SAFT records of gross2001.json with one binary interaction parameter k_ij for all pairs
fn pcsaft_kij(names: &[&str], kij: f64) -> Arc<PcSaft> {
    let p = PcSaftParameters::from_json(names.to_vec(), format!("{}/pcsaft/gross2001.json", configs::params()), None, IdentifierOption::Name).unwrap();
    Arc::new(PcSaft::new(Arc::new(configs::with_kij(&p, kij))))
}

/// critical data (T_c / K, p_c / Pa, acentric factor, M / g/mol) of some close-boiling compounds for Peng-Robinson mixtures with a
/// freely chosen (also negative) binary interaction parameter
const PR_TABLE: [(&str, f64, f64, f64, f64); 7] = [
    ("acetone", 508.1, 4.70e6, 0.307, 58.08),
    ("chloroform", 536.4, 5.47e6, 0.222, 119.38),
    ("benzene", 562.05, 4.895e6, 0.2103, 78.11),
    ("cyclohexane", 553.6, 4.075e6, 0.2096, 84.16),
    ("methyl acetate", 506.55, 4.75e6, 0.331, 74.08),
    ("hexane", 507.6, 3.025e6, 0.301, 86.18),
    ("2-butanone", 535.5, 4.15e6, 0.323, 72.11),
];

fn pr_kij(names: &[&str], kij: f64) -> Arc<PengRobinson> {
    use feos_core::cubic::{PengRobinsonParameters, PengRobinsonRecord};
    use feos_core::parameter::{Identifier, PureRecord};
    let recs: Vec<_> = names
        .iter()
        .map(|n| {
            let r = PR_TABLE.iter().find(|r| r.0 == *n).unwrap();
            PureRecord::new(Identifier::default(), r.4, PengRobinsonRecord::new(r.1, r.2, r.3))
        })
        .collect();
    let n = names.len();
    let mut k = ndarray::Array2::zeros((n, n));
    for i in 0..n {
        for j in 0..n {
            if i != j {
                k[[i, j]] = kij;
            }
        }
    }
    Arc::new(PengRobinson::new(Arc::new(PengRobinsonParameters::from_records(recs, Some(k)).unwrap())))
}

/// composition with one component present only in traces (10^-6 .. 10^-20)
fn trace_composition(n: usize, rng: &mut Rng) -> Vec<f64> {
    let k = rng.below(n);
    let xt = 10f64.powf(-rng.range(6.0, 20.0));
    let rest = random_composition(n - 1, rng);
    let mut v = Vec::new();
    let mut it = rest.into_iter();
    for i in 0..n {
        if i == k {
            v.push(xt);
        } else {
            v.push(it.next().unwrap() * (1.0 - xt));
        }
    }
    v
}

fn tc_of<E: Residual>(eos: &Arc<E>) -> Option<f64> {
    run_guard(|| State::critical_point(eos, None, None, SolverOptions::default())).ok().map(|s| s.temperature.to_reduced())
}

fn pure_tcs<E: Residual>(eos: &Arc<E>) -> Option<Vec<f64>> {
    (0..eos.components()).map(|i| tc_of(&Arc::new(eos.subset(&[i])))).collect()
}

fn random_composition(n: usize, rng: &mut Rng) -> Vec<f64> {
    if n == 2 {
        let x = rng.range(0.05, 0.95);
        return vec![x, 1.0 - x];
    }
    loop {
        let mut v: Vec<f64> = (0..n).map(|_| -rng.range(1e-9, 1.0).ln()).collect();
        let s: f64 = v.iter().sum();
        v.iter_mut().for_each(|x| *x /= s);
        if v.iter().all(|x| *x >= 0.05 && *x <= 0.95) {
            return v;
        }
    }
}

struct PointSpec {
    t: f64,
    x: Vec<f64>,
    u_in: f64,  // position between the 2 % margins inside the envelope
    f_liq: f64, // p = p_bubble * f_liq  (>= 1.02)
    f_vap: f64, // p = p_dew * f_vap     (<= 0.98)
    opts: usize,
    /// if given: the inside feed sits at p_dew + frac (p_bubble - p_dew) (must respect the 2 % margins) instead of u_in
    frac: Option<f64>,
    /// the point lies outside the window of C05 (asymmetric systems): NotConverged of the stability analysis is counted, not judged
    off_window: bool,
}

fn options(i: usize) -> SolverOptions {
    match i {
        0 => SolverOptions::default(),
        1 => SolverOptions::default().tol(1e-8).max_iter(400),
        2 => SolverOptions::default().tol(1e-5),
        3 => SolverOptions::default().max_iter(300),
        4 => SolverOptions::default().tol(1e-10).max_iter(1000),
        5 => SolverOptions::default().tol(1e-12).max_iter(1000),
        6 => SolverOptions::default().tol(1e-9).max_iter(600),
        _ => SolverOptions::default().tol(1e-7).max_iter(200),
    }
}
const N_OPTS: usize = 8;
/// option sets every converged equilibrium phase is analysed with (besides the one drawn for the point): default, tight, loose
const EQ_OPTS: [usize; 5] = [0, 1, 4, 5, 2];
/// tolerances below the round-off floor of the iteration: NotConverged is then not a broken clause (counted), verdicts still are checked
fn below_noise_floor(i: usize) -> bool {
    matches!(i, 4 | 5)
}

/// priority entries are marked by a key field and tied without subsampling
fn keep_prio<E: Residual>(keep: &mut Vec<(State<E>, Value, usize)>, s: &State<E>, mut k: Value, o: usize) {
    k["tie_priority"] = json!(true);
    keep.push((s.clone(), k, o));
}

/// one (T, x) point of a mixture: envelope from the real bubble/dew solvers, then verdicts on both sides
#[allow(clippy::too_many_arguments)]
fn mixture_point<E: Residual>(
    eos: &Arc<E>,
    sysname: &str,
    sp: &PointSpec,
    tally: &mut Tally,
    goals: &mut Goals,
    failures: &mut Vec<Value>,
    counts: &mut [usize; 4],
    keep: &mut Vec<(State<E>, Value, usize)>,
    pool: &mut Pool<E>,
) {
    let temp = Temperature::from_reduced(sp.t);
    let spec = Array1::from_vec(sp.x.clone());
    let moles = Moles::from_reduced(spec.clone());
    let key = |p: f64, which: &str| json!({"sys": sysname, "T": sp.t, "x": sp.x, "p": p, "which": which, "opts": sp.opts,
        "spec": {"T": sp.t, "x": sp.x, "u_in": sp.u_in, "f_liq": sp.f_liq, "f_vap": sp.f_vap, "opts": sp.opts, "frac": sp.frac, "off_window": sp.off_window}, "off_window": sp.off_window});
    let key_o = |p: f64, which: &str, o: usize| { let mut k = key(p, which); k["opts"] = json!(o); k };
    counts[0] += 1;
    let bub = run_guard(|| PhaseEquilibrium::bubble_point(eos, temp, &spec, None, None, Default::default()));
    let dew = run_guard(|| PhaseEquilibrium::dew_point(eos, temp, &spec, None, None, Default::default()));
    let (bub, dew) = match (bub, dew) {
        (Ok(b), Ok(d)) => (b, d),
        _ => {
            counts[1] += 1; // envelope not available (existence of bubble/dew points is C05's clause)
            return;
        }
    };
    let pb = bub.liquid().pressure(Contributions::Total).to_reduced();
    let pd = dew.vapor().pressure(Contributions::Total).to_reduced();
    if !(pb > pd) {
        counts[1] += 1;
        return;
    }
    let opts = options(sp.opts);
    // converged bubble / dew phases are stable
    let mut eq_opts: Vec<usize> = EQ_OPTS.to_vec();
    if !eq_opts.contains(&sp.opts) {
        eq_opts.push(sp.opts);
    }
    for (pi, (nm, s)) in [("bubble:liquid", bub.liquid()), ("bubble:vapor", bub.vapor()), ("dew:vapor", dew.vapor()), ("dew:liquid", dew.liquid())].into_iter().enumerate() {
        for &o in &eq_opts {
            let k = key_o(s.pressure(Contributions::Total).to_reduced(), nm, o);
            let r = analyse(s, k.clone(), nm, Expect::Stable, options(o), false, tally, goals, failures);
            if r.map(|v| !v.is_empty()).unwrap_or(false) {
                keep_prio(keep, s, k, o); // a converged phase reported unstable: always goes through the acceptance-model tie
            } else if (counts[0] + pi) % 4 == 2 && (o == 1 || o == 4) {
                keep.push((s.clone(), k, o));
            }
        }
    }
    // 2 % outside
    for (nm, p, init) in [("outside:liquid", pb * sp.f_liq, DensityInitialization::None), ("outside:vapor", pd * sp.f_vap, DensityInitialization::None)] {
        if let Ok(s) = run_guard(|| State::new_npt(eos, temp, Pressure::from_reduced(p), &moles, init)) {
            analyse(&s, key(p, nm), nm, Expect::Stable, opts, false, tally, goals, failures);
            if counts[0] % 4 == 1 {
                keep.push((s.clone(), key(p, nm), sp.opts));
            }
        }
    }
    // 2 % inside
    let (mut lo, mut hi) = (pd * (1.0 + MARGIN), pb * (1.0 - MARGIN));
    if lo > hi && sp.frac.is_none() {
        // envelope narrower than the two pressure margins (close-boiling / azeotropic systems): the margin is then 2 % of the way
        // between dew and bubble pressure, but at least 0.1 % in pressure
        lo = (pd + MARGIN * (pb - pd)).max(pd * 1.001);
        hi = (pb - MARGIN * (pb - pd)).min(pb * 0.999);
    }
    let p_frac = sp.frac.map(|f| pd + f * (pb - pd));
    if lo <= hi && p_frac.map(|p| p >= lo && p <= hi).unwrap_or(true) {
        counts[2] += 1;
        let p = p_frac.unwrap_or(lo + sp.u_in * (hi - lo));
        if let Ok(s) = run_guard(|| State::new_npt(eos, temp, Pressure::from_reduced(p), &moles, DensityInitialization::None)) {
            let r = analyse(&s, key(p, "inside"), "inside", Expect::Unstable, opts, true, tally, goals, failures);
            if r.is_some() {
                keep.push((s.clone(), key(p, "inside"), sp.opts));
            }
            // the phases of the converged flash are stable
            if let Ok(vle) = run_guard(|| s.tp_flash(None, SolverOptions::default(), None)) {
                pool.push((sysname.to_string(), s.clone(), vle.clone(), key(p, "inside")));
                for (nm, ph) in [("flash:vapor", vle.vapor()), ("flash:liquid", vle.liquid())] {
                    for &o in &eq_opts {
                        let k = key_o(p, nm, o);
                        let r = analyse(ph, k.clone(), nm, Expect::Stable, options(o), false, tally, goals, failures);
                        if r.map(|v| !v.is_empty()).unwrap_or(false) {
                            keep_prio(keep, ph, k, o);
                        }
                    }
                }
            }
        }
    } else {
        counts[3] += 1; // envelope narrower than the two margins: no feed "2 % inside" exists
    }
}

/// pure component: density grid across the binodal at temperature t
#[allow(clippy::too_many_arguments)]
fn pure_grid<E: Residual>(eos: &Arc<E>, sysname: &str, t: f64, ngrid: usize, opts_i: usize, tally: &mut Tally, goals: &mut Goals, failures: &mut Vec<Value>, counts: &mut [usize; 4]) {
    let temp = Temperature::from_reduced(t);
    counts[0] += 1;
    let vle = match run_guard(|| PhaseEquilibrium::pure(eos, temp, None, Default::default())) {
        Ok(v) => v,
        Err(_) => {
            counts[1] += 1;
            return;
        }
    };
    let (rv, rl) = (vle.vapor().density.to_reduced(), vle.liquid().density.to_reduced());
    let opts = options(opts_i);
    let mut grid: Vec<(f64, &str, Expect)> = vec![
        (rv * 0.3, "pure:outside:vapor", Expect::Stable),
        (rv * 0.9, "pure:outside:vapor", Expect::Stable),
        (rv * (1.0 - MARGIN), "pure:outside:vapor", Expect::Stable),
        (rl * (1.0 + MARGIN), "pure:outside:liquid", Expect::Stable),
        (rl * 1.08, "pure:outside:liquid", Expect::Stable),
        (rl * 1.2, "pure:outside:liquid", Expect::Stable),
    ];
    let (lo, hi) = (rv * (1.0 + MARGIN), rl * (1.0 - MARGIN));
    for k in 0..ngrid {
        let f = k as f64 / (ngrid - 1) as f64;
        // half of the grid geometric (resolves the vapor side), half linear
        let rho = if k % 2 == 0 { lo * (hi / lo).powf(f) } else { lo + f * (hi - lo) };
        grid.push((rho, "pure:inside", Expect::Unstable));
    }
    for (nm, s) in [("pure:vle:vapor", vle.vapor()), ("pure:vle:liquid", vle.liquid())] {
        analyse(s, json!({"sys": sysname, "T": t, "rho": s.density.to_reduced(), "which": nm, "opts": opts_i, "spec": {"pure": true, "T": t, "ngrid": ngrid, "opts": opts_i}}), nm, Expect::Stable, opts, false, tally, goals, failures);
    }
    for (rho, nm, ex) in grid {
        let key = json!({"sys": sysname, "T": t, "rho": rho, "which": nm, "opts": opts_i, "spec": {"pure": true, "T": t, "ngrid": ngrid, "opts": opts_i}});
        let s = run_guard(|| State::new_nvt(eos, temp, Volume::from_reduced(1.0 / rho), &Moles::from_reduced(arr1(&[1.0]))));
        if let Ok(s) = s {
            counts[2] += 1;
            analyse(&s, key, nm, ex, opts, false, tally, goals, failures);
        }
    }
}


/// re-run one point of the support search:  sys = "pcsaft:a|b[|c]" or "peng_robinson:n",  spec = the "spec" object of a failure key
fn spec_of(spec: &Value) -> PointSpec {
    PointSpec {
        t: spec["T"].as_f64().unwrap(),
        x: spec["x"].as_array().unwrap().iter().map(|v| v.as_f64().unwrap()).collect(),
        u_in: spec["u_in"].as_f64().unwrap(),
        f_liq: spec["f_liq"].as_f64().unwrap(),
        f_vap: spec["f_vap"].as_f64().unwrap(),
        opts: spec["opts"].as_u64().unwrap() as usize,
        frac: spec["frac"].as_f64(),
        off_window: spec["off_window"].as_bool().unwrap_or(false),
    }
}

/// re-run one point of the support search:  sys = "pcsaft:a|b[|c]" or "peng_robinson:n",  spec = the "spec" object of a failure key;
/// with `guess` (the spec of another point of the same system): also the flashes of each point started from the other's result
fn run_spec(sysname: &str, spec: &Value, guess: Option<&Value>) -> (Vec<Value>, Value) {
    let mut tally = Tally::new();
    let mut goals = Goals { tpd: Vec::new() };
    let mut failures = Vec::new();
    let mut counts = [0usize; 4];
    let mut sw = Sweep::default();
    #[allow(clippy::too_many_arguments)]
    fn go<E: Residual>(eos: &Arc<E>, sysname: &str, spec: &Value, guess: Option<&Value>, tally: &mut Tally, goals: &mut Goals, failures: &mut Vec<Value>, counts: &mut [usize; 4], sw: &mut Sweep) {
        if spec["pure"].as_bool().unwrap_or(false) {
            pure_grid(eos, sysname, spec["T"].as_f64().unwrap(), spec["ngrid"].as_u64().unwrap() as usize, spec["opts"].as_u64().unwrap() as usize, tally, goals, failures, counts);
        } else {
            let mut keep = Vec::new();
            let mut pool: Pool<E> = Vec::new();
            mixture_point(eos, sysname, &spec_of(spec), tally, goals, failures, counts, &mut keep, &mut pool);
            if let Some(g) = guess {
                let mut scratch = Vec::new();
                mixture_point(eos, sysname, &spec_of(g), tally, goals, &mut scratch, counts, &mut keep, &mut pool);
                sweep_pool(&pool, usize::MAX, sw, failures);
            }
        }
    }
    if let Some(rest) = sysname.strip_prefix("pcsaft:") {
        let names: Vec<&str> = rest.split('|').collect();
        go(&pcsaft(&names), sysname, spec, guess, &mut tally, &mut goals, &mut failures, &mut counts, &mut sw);
    } else if let Some(n) = sysname.strip_prefix("peng_robinson:") {
        go(&Arc::new(configs::peng_robinson(n.parse().unwrap())), sysname, spec, guess, &mut tally, &mut goals, &mut failures, &mut counts, &mut sw);
    } else if let Some(rest) = sysname.strip_prefix("pcsaft_kij:") {
        // "pcsaft_kij:<k_ij>:a|b"
        let (k, names) = rest.split_once(':').unwrap();
        let names: Vec<&str> = names.split('|').collect();
        go(&pcsaft_kij(&names, k.parse().unwrap()), sysname, spec, guess, &mut tally, &mut goals, &mut failures, &mut counts, &mut sw);
    } else if let Some(rest) = sysname.strip_prefix("pr_kij:") {
        let (k, names) = rest.split_once(':').unwrap();
        let names: Vec<&str> = names.split('|').collect();
        go(&pr_kij(&names, k.parse().unwrap()), sysname, spec, guess, &mut tally, &mut goals, &mut failures, &mut counts, &mut sw);
    }
    (failures, json!({"states_analysed": tally.analysed, "verdicts_by_kind_[stable,unstable,error]": tally.by_kind, "flashes_attempted": tally.flashes, "flashes_found": tally.flash_ok,
        "flashes_with_initial_state": sw.combos, "flashes_with_initial_state_found": sw.ok}))
}

/// a flash input recorded for C05 ("a|b|T|x|s|ntot": feed at p_dew + s (p_bubble - p_dew)): the C07 clauses on the same feed
fn known_point(pt: &str) -> Value {
    let f: Vec<&str> = pt.split('|').collect();
    let eos = pcsaft(&[f[0], f[1]]);
    let (t, x, sfrac, ntot): (f64, f64, f64, f64) = (f[2].parse().unwrap(), f[3].parse().unwrap(), f[4].parse().unwrap(), f[5].parse().unwrap());
    let temp = Temperature::from_reduced(t);
    let spec = arr1(&[x, 1.0 - x]);
    let bub = run_guard(|| PhaseEquilibrium::bubble_point(&eos, temp, &spec, None, None, Default::default()));
    let dew = run_guard(|| PhaseEquilibrium::dew_point(&eos, temp, &spec, None, None, Default::default()));
    let (Ok(bub), Ok(dew)) = (bub, dew) else { return json!({"point": pt, "skipped": "envelope not available"}) };
    let pb = bub.liquid().pressure(Contributions::Total).to_reduced();
    let pd = dew.vapor().pressure(Contributions::Total).to_reduced();
    let p = pd + sfrac * (pb - pd);
    let inside = p >= pd * (1.0 + MARGIN) && p <= pb * (1.0 - MARGIN);
    let feed = match run_guard(|| State::new_npt(&eos, temp, Pressure::from_reduced(p), &Moles::from_reduced(arr1(&[x * ntot, (1.0 - x) * ntot])), DensityInitialization::None)) {
        Ok(s) => s,
        Err(e) => return json!({"point": pt, "skipped": format!("feed state: {e}")}),
    };
    let mut tally = Tally::new();
    let mut goals = Goals { tpd: Vec::new() };
    let mut failures = Vec::new();
    let key = json!({"sys": format!("pcsaft:{}|{}", f[0], f[1]), "T": t, "x": [x, 1.0 - x], "p": p, "which": "inside", "opts": 0, "known_point": pt});
    let trials = analyse(&feed, key, "inside", Expect::Unstable, SolverOptions::default(), true, &mut tally, &mut goals, &mut failures);
    json!({"point": pt, "p": p, "p_dew": pd, "p_bubble": pb, "inside_2pct_margins": inside, "failures": failures,
           "trial_phases": trials.map(|v| v.iter().map(|s| { let mut j = state_json(s); j["tpd_recomputed"] = json!(tpd_api(&feed, s).0); j }).collect::<Vec<_>>())})
}

fn main() {
    let cli = feos_verif::cli::Cli::parse("/verif/coq/gen/C07");
    let full = cli.full();
    let out = cli.out.clone();
    if let (Some(sys), Some(spec)) = (cli.opt("--sys"), cli.opt("--spec")) {
        let guess: Option<Value> = cli.opt("--guess").map(|g| serde_json::from_str(&g).unwrap());
        let (failures, summary) = run_spec(&sys, &serde_json::from_str(&spec).unwrap(), guess.as_ref());
        cli.write_impl(&json!({"property": "C07", "replay": {"sys": sys, "spec": spec}, "failures": failures, "summary": summary}));
        return;
    }
    let known_out: Vec<Value> = cli.opt("--known").map(|kn| kn.split(';').filter(|s| !s.is_empty()).map(known_point).collect()).unwrap_or_default();
    if cli.opt("--known-only").is_some() {
        cli.write_impl(&json!({"property": "C07", "known_points": known_out}));
        return;
    }
    let mut rng = Rng(cli.seed ^ 0xC07C07);
    let mut tally = Tally::new();
    let mut goals = Goals { tpd: Vec::new() };
    let mut failures: Vec<Value> = Vec::new();
    let mut counts = [0usize; 4];
    let mut pcounts = [0usize; 4];

    let names = hydrocarbon_names();
    let tcs: Vec<Option<f64>> = names.iter().map(|n| tc_of(&pcsaft(&[n.as_str()]))).collect();
    let mut pairs = Vec::new();
    for i in 0..names.len() {
        for j in (i + 1)..names.len() {
            if let (Some(a), Some(b)) = (tcs[i], tcs[j]) {
                if a.max(b) / a.min(b) < 1.5 {
                    pairs.push((i, j));
                }
            }
        }
    }
    let n_pairs = cli.opt("--pairs").and_then(|s| s.parse().ok()).unwrap_or(if full { 150 } else { 12 });
    let pts = cli.opt("--points").and_then(|s| s.parse().ok()).unwrap_or(if full { 8 } else { 4 });
    let mut chosen: Vec<(usize, usize)> = vec![(2, 3)]; // propane / butane: the pinned pair of feos' own test
    while chosen.len() < n_pairs.min(pairs.len()) {
        let c = pairs[rng.below(pairs.len())];
        if !chosen.contains(&c) {
            chosen.push(c);
        }
    }
    let mut spec = |rng: &mut Rng, tlow: f64, n: usize| PointSpec {
        t: tlow * rng.range(0.65, 0.9),
        x: random_composition(n, rng),
        u_in: match rng.below(4) {
            0 => 0.0,
            1 => 1.0,
            _ => rng.range(0.0, 1.0),
        },
        f_liq: if rng.below(3) == 0 { 1.0 + MARGIN } else { rng.range(1.0 + MARGIN, 2.0) },
        f_vap: if rng.below(3) == 0 { 1.0 - MARGIN } else { rng.range(0.3, 1.0 - MARGIN) },
        opts: if rng.below(3) == 0 { 1 + rng.below(N_OPTS - 1) } else { 0 },
        frac: None,
        off_window: false,
    };
    let mut keep_pc: Vec<(State<PcSaft>, Value, usize)> = Vec::new();
    let mut keep_pr: Vec<(State<PengRobinson>, Value, usize)> = Vec::new();
    let mut pool_pc: Pool<PcSaft> = Vec::new();
    let mut pool_pr: Pool<PengRobinson> = Vec::new();
    let mut systems = Vec::new();
    for &(i, j) in &chosen {
        let eos = pcsaft(&[names[i].as_str(), names[j].as_str()]);
        let tlow = tcs[i].unwrap().min(tcs[j].unwrap());
        let nm = format!("pcsaft:{}|{}", names[i], names[j]);
        systems.push(nm.clone());
        for _ in 0..pts {
            let sp = spec(&mut rng, tlow, 2);
            mixture_point(&eos, &nm, &sp, &mut tally, &mut goals, &mut failures, &mut counts, &mut keep_pc, &mut pool_pc);
        }
    }
    // asymmetric light-gas / heavier-alkane binaries (slowly converging flashes just below the bubble pressure). These lie OUTSIDE the
    // window of C05 (T_c ratio > 1.5, T above the lighter T_c), so the list is fixed (not seeded) and calibrated on the unchanged
    // tree: (pair, T, z1, fraction of the way from dew to bubble pressure); kept only when the feed respects the 2 % margins.
    {
        let asym: Vec<([&str; 2], f64, f64, f64)> = vec![
            (["methane", "butane"], 250.0, 0.8, 0.98), (["methane", "hexane"], 250.0, 0.8, 0.98), (["methane", "hexane"], 300.0, 0.8, 0.90),
            (["methane", "hexane"], 300.0, 0.8, 0.98), (["methane", "hexane"], 300.0, 0.8, 0.50), (["methane", "butane"], 250.0, 0.5, 0.98),
            (["methane", "hexane"], 250.0, 0.8, 0.95), (["methane", "hexane"], 250.0, 0.7, 0.98), (["methane", "hexane"], 300.0, 0.7, 0.95),
            (["methane", "butane"], 250.0, 0.7, 0.95), (["methane", "pentane"], 275.0, 0.8, 0.98), (["methane", "pentane"], 275.0, 0.8, 0.92),
            (["ethane", "heptane"], 350.0, 0.8, 0.98), (["ethane", "heptane"], 350.0, 0.7, 0.95), (["methane", "propane"], 230.0, 0.6, 0.98),
        ];
        for (pair, t, z1, f) in asym.iter().take(if full { 15 } else { 9 }) {
            let eos = pcsaft(&pair[..]);
            let nm = format!("pcsaft:{}|{}", pair[0], pair[1]);
            let tag = format!("{nm}@{t}K");
            if !systems.contains(&tag) {
                systems.push(tag);
            }
            let sp = PointSpec { t: *t, x: vec![*z1, 1.0 - z1], u_in: 0.5, f_liq: 1.0 + MARGIN, f_vap: 1.0 - MARGIN, opts: 0, frac: Some(*f), off_window: true };
            mixture_point(&eos, &nm, &sp, &mut tally, &mut goals, &mut failures, &mut counts, &mut keep_pc, &mut pool_pc);
        }
    }
    {
        // a coarse (T, z1, position) grid of the same kind of system: feeds whose converged flashes serve as initial states of each
        // other (composition / pressure / temperature sweeps); NotConverged of the stability analysis is counted, not judged, here
        let grid_pairs: Vec<[&str; 2]> = if full { vec![["methane", "butane"], ["methane", "hexane"], ["carbon dioxide", "hexane"], ["ethane", "heptane"]] }
            else { vec![["methane", "butane"], ["carbon dioxide", "hexane"]] };
        for pair in &grid_pairs {
            let eos = pcsaft(&pair[..]);
            let nm = format!("pcsaft:{}|{}", pair[0], pair[1]);
            for t in [250.0, 300.0] {
                let tag = format!("{nm}@{t}K");
                if !systems.contains(&tag) {
                    systems.push(tag);
                }
                for z1 in [0.2, 0.5, 0.8] {
                    let mut fr = vec![0.1, 0.5, 0.9];
                    if full {
                        fr.push(rng.range(0.05, 0.95));
                    }
                    for f in fr {
                        let sp = PointSpec { t, x: vec![z1, 1.0 - z1], u_in: 0.5, f_liq: 1.0 + MARGIN, f_vap: 1.0 - MARGIN, opts: 0, frac: Some(f), off_window: true };
                        mixture_point(&eos, &nm, &sp, &mut tally, &mut goals, &mut failures, &mut counts, &mut keep_pc, &mut pool_pc);
                    }
                }
            }
        }
    }
    // close-boiling pairs with a binary interaction parameter of either sign (negative k_ij: negative deviations from Raoult's law,
    // pressure-minimum azeotropes; positive: pressure-maximum azeotropes), Peng-Robinson and PC-SAFT
    {
        let pr_pairs: Vec<[&str; 2]> = if full { vec![["acetone", "chloroform"], ["benzene", "cyclohexane"], ["methyl acetate", "acetone"], ["hexane", "2-butanone"], ["chloroform", "2-butanone"]] }
            else { vec![["acetone", "chloroform"], ["benzene", "cyclohexane"]] };
        let pc_pairs: Vec<[&str; 2]> = if full { vec![["benzene", "cyclohexane"], ["hexane", "2-methylpentane"], ["toluene", "heptane"], ["pentane", "isopentane"]] }
            else { vec![["benzene", "cyclohexane"], ["hexane", "2-methylpentane"]] };
        let n_k = if full { 5 } else { 2 };
        let n_p = if full { 6 } else { 3 };
        for pair in &pr_pairs {
            for ki in 0..n_k {
                // the first k_ij of every pair is negative
                let kij = ((if ki == 0 { rng.range(-0.08, -0.02) } else { rng.range(-0.08, 0.06) }) * 1e4).round() / 1e4;
                let eos = pr_kij(&pair[..], kij);
                let tlow = pair.iter().map(|n| PR_TABLE.iter().find(|r| r.0 == *n).unwrap().1).fold(f64::INFINITY, f64::min);
                let nm = format!("pr_kij:{kij}:{}", pair.join("|"));
                systems.push(nm.clone());
                for pi in 0..n_p {
                    let mut sp = spec(&mut rng, tlow, 2);
                    sp.t = tlow * rng.range(0.55, 0.9);
                    if pi < 2 {
                        sp.u_in = [0.0, 0.15][pi]; // vapour-like feeds just above the dew pressure
                    }
                    mixture_point(&eos, &nm, &sp, &mut tally, &mut goals, &mut failures, &mut counts, &mut keep_pr, &mut pool_pr);
                }
            }
        }
        for pair in &pc_pairs {
            for ki in 0..n_k {
                let kij = ((if ki == 0 { rng.range(-0.08, -0.02) } else { rng.range(-0.08, 0.05) }) * 1e4).round() / 1e4;
                let eos = pcsaft_kij(&pair[..], kij);
                let i0 = names.iter().position(|n| n == pair[0]).unwrap();
                let i1 = names.iter().position(|n| n == pair[1]).unwrap();
                let (Some(t0), Some(t1)) = (tcs[i0], tcs[i1]) else { continue };
                let tlow = t0.min(t1);
                let nm = format!("pcsaft_kij:{kij}:{}", pair.join("|"));
                systems.push(nm.clone());
                for pi in 0..n_p {
                    let mut sp = spec(&mut rng, tlow, 2);
                    if pi < 2 {
                        sp.u_in = [0.0, 0.15][pi];
                    }
                    mixture_point(&eos, &nm, &sp, &mut tally, &mut goals, &mut failures, &mut counts, &mut keep_pc, &mut pool_pc);
                }
            }
        }
    }
    // ternaries (PC-SAFT) and Peng-Robinson binary / ternary
    let ternaries: Vec<[&str; 3]> = if full {
        vec![["propane", "butane", "pentane"], ["hexane", "heptane", "octane"], ["benzene", "toluene", "cyclohexane"], ["pentane", "hexane", "benzene"]]
    } else {
        vec![["propane", "butane", "pentane"]]
    };
    for tn in &ternaries {
        let eos = pcsaft(&tn[..]);
        if let Some(tc) = pure_tcs(&eos) {
            let tlow = tc.iter().cloned().fold(f64::INFINITY, f64::min);
            let nm = format!("pcsaft:{}", tn.join("|"));
            systems.push(nm.clone());
            for _ in 0..(if full { 3 * pts } else { pts }) {
                let sp = spec(&mut rng, tlow, 3);
                mixture_point(&eos, &nm, &sp, &mut tally, &mut goals, &mut failures, &mut counts, &mut keep_pc, &mut pool_pc);
            }
            // one component present only in traces (infinite-dilution calculations)
            for _ in 0..(if full { 3 * pts } else { pts + 2 }) {
                let mut sp = spec(&mut rng, tlow, 3);
                sp.x = trace_composition(3, &mut rng);
                sp.opts = 0;
                mixture_point(&eos, &nm, &sp, &mut tally, &mut goals, &mut failures, &mut counts, &mut keep_pc, &mut pool_pc);
            }
        }
    }
    for n in [2usize, 3] {
        let eos = Arc::new(configs::peng_robinson(n));
        if let Some(tc) = pure_tcs(&eos) {
            let tlow = tc.iter().cloned().fold(f64::INFINITY, f64::min);
            let nm = format!("peng_robinson:{n}");
            systems.push(nm.clone());
            for _ in 0..(if full { 6 * pts } else { pts }) {
                let sp = spec(&mut rng, tlow, n);
                mixture_point(&eos, &nm, &sp, &mut tally, &mut goals, &mut failures, &mut counts, &mut keep_pr, &mut pool_pr);
            }
            if n == 3 {
                for _ in 0..(if full { 3 * pts } else { pts }) {
                    let mut sp = spec(&mut rng, tlow, 3);
                    sp.x = trace_composition(3, &mut rng);
                    sp.opts = 0;
                    mixture_point(&eos, &nm, &sp, &mut tally, &mut goals, &mut failures, &mut counts, &mut keep_pr, &mut pool_pr);
                }
            }
        }
    }
    // pure components on a density grid across the binodal
    let n_pure = if full { N_HYDROCARBONS } else { 6 };
    let mut pure_idx: Vec<usize> = vec![2];
    while pure_idx.len() < n_pure {
        let c = rng.below(N_HYDROCARBONS);
        if !pure_idx.contains(&c) && tcs[c].is_some() {
            pure_idx.push(c);
        }
    }
    for &i in &pure_idx {
        let eos = pcsaft(&[names[i].as_str()]);
        for _ in 0..(if full { 4 } else { 2 }) {
            let t = tcs[i].unwrap() * rng.range(0.65, 0.9);
            let o = if rng.below(3) == 0 { 1 + rng.below(N_OPTS - 1) } else { 0 };
            pure_grid(&eos, &format!("pcsaft:{}", names[i]), t, if full { 24 } else { 12 }, o, &mut tally, &mut goals, &mut failures, &mut pcounts);
        }
    }
    {
        let eos = Arc::new(configs::peng_robinson(1));
        if let Some(tc) = tc_of(&eos) {
            for _ in 0..(if full { 8 } else { 2 }) {
                let t = tc * rng.range(0.65, 0.9);
                pure_grid(&eos, "peng_robinson:1", t, if full { 24 } else { 12 }, 0, &mut tally, &mut goals, &mut failures, &mut pcounts);
            }
        }
    }
    // ---- tie: hooked private functions vs the models, on kept feeds
    let mut tie = Tie { max_step_goals: if full { 400 } else { 60 }, ..Default::default() };
    let n_tie = if full { 400 } else { 40 };
    fn tie_all<E: Residual>(keep: &[(State<E>, Value, usize)], budget: usize, full: bool, tie: &mut Tie, failures: &mut Vec<Value>) {
        // converged phases reported unstable first (acceptance model under the options that produced the verdict), then a strided sample
        for (s, k, o) in keep.iter().filter(|e| e.1["tie_priority"].as_bool().unwrap_or(false)).take(if full { 60 } else { 12 }) {
            tie_feed(s, k, *o, tie, failures);
        }
        let rest: Vec<&(State<E>, Value, usize)> = keep.iter().filter(|e| !e.1["tie_priority"].as_bool().unwrap_or(false)).collect();
        let stride = (rest.len() / budget.max(1)).max(1);
        for (s, k, o) in rest.into_iter().step_by(stride) {
            tie_feed(s, k, *o, tie, failures);
        }
    }
    tie_all(&keep_pc, n_tie * 3 / 4, full, &mut tie, &mut failures);
    tie_all(&keep_pr, n_tie / 4, full, &mut tie, &mut failures);
    let mut step_files = Vec::new();
    for (ci, cs) in tie.step_goals.chunks(6).enumerate() {
        let mut v = header();
        v.push_str("Open Scope R_scope.\n");
        for (g, _) in cs {
            v.push_str(g);
        }
        let name = format!("step_{ci}.v");
        std::fs::write(format!("{out}/{name}"), v).unwrap();
        step_files.push(json!({"file": name, "steps": cs.iter().map(|(_, m)| m.clone()).collect::<Vec<_>>()}));
    }
    let mut trial_files = Vec::new();
    for (ci, cs) in tie.trial_goals.chunks(12).enumerate() {
        let mut v = header();
        v.push_str("Open Scope R_scope.\n");
        for (g, _) in cs {
            v.push_str(g);
        }
        let name = format!("trial_{ci}.v");
        std::fs::write(format!("{out}/{name}"), v).unwrap();
        trial_files.push(json!({"file": name, "trials": cs.iter().map(|(_, m)| m.clone()).collect::<Vec<_>>()}));
    }
    let mut ctrl_files = Vec::new();
    for (ci, cs) in tie.ctrl_cases.chunks(40).enumerate() {
        let mut v = header();
        v.push_str(&format!("Definition cases : list ((Z * Z) * nat * list ((Z * Z) * (Z * Z) * bool)) := [\n  {}\n]%Z.\n", cs.iter().map(|c| c.0.clone()).collect::<Vec<_>>().join(";\n  ")));
        v.push_str("Eval vm_compute in (\"CTRL\", map run_ctrl cases).\n");
        let name = format!("ctrl_{ci}.v");
        std::fs::write(format!("{out}/{name}"), v).unwrap();
        ctrl_files.push(json!({"file": name, "cases": cs.iter().map(|c| c.1.clone()).collect::<Vec<_>>()}));
    }
    let mut stab_files = Vec::new();
    for (ci, cs) in tie.stab_cases.chunks(40).enumerate() {
        let mut v = header();
        v.push_str(&format!("Definition cases : list (list (option (option (Z * Z) * list (Z * Z)) * bool)) := [\n  {}\n]%Z.\n", cs.iter().map(|c| c.0.clone()).collect::<Vec<_>>().join(";\n  ")));
        v.push_str("Eval vm_compute in (\"STAB\", map run_stab cases).\n");
        let name = format!("stab_{ci}.v");
        std::fs::write(format!("{out}/{name}"), v).unwrap();
        stab_files.push(json!({"file": name, "cases": cs.iter().map(|c| c.1.clone()).collect::<Vec<_>>()}));
    }
    let mut triv_files = Vec::new();
    for (ci, cs) in tie.triv_cases.chunks(100).enumerate() {
        let mut v = header();
        v.push_str(&format!("Definition cases : list (list (Z * Z) * list (Z * Z)) := [\n  {}\n]%Z.\n", cs.iter().map(|c| c.0.clone()).collect::<Vec<_>>().join(";\n  ")));
        v.push_str("Eval vm_compute in (\"TRIV\", map run_trivial cases).\n");
        let name = format!("triv_{ci}.v");
        std::fs::write(format!("{out}/{name}"), v).unwrap();
        triv_files.push(json!({"file": name, "cases": cs.iter().map(|c| c.1.clone()).collect::<Vec<_>>()}));
    }

    // ---- flashes with an initial state from another condition (support search) + start cascade of tp_flash vs the model
    let mut sw = Sweep::default();
    let cap = if full { 2000 } else { 150 };
    sweep_pool(&pool_pc, cap, &mut sw, &mut failures);
    sweep_pool(&pool_pr, cap, &mut sw, &mut failures);
    let mut casc_files = Vec::new();
    for (ci, cs) in sw.cases.chunks(400).enumerate() {
        let mut v = String::from("From Coq Require Import List String.\nFrom FeosVerif Require Import FlashCascadeC07.\nImport ListNotations.\nOpen Scope string_scope.\nSet Printing Width 1000000.\nSet Printing Depth 1000000.\n");
        v.push_str(&format!("Definition cases : list (guess_in * stab_in) := [\n  {}\n].\n", cs.iter().map(|c| c.0.clone()).collect::<Vec<_>>().join(";\n  ")));
        v.push_str("Eval vm_compute in (\"CASC\", map run_cascade cases).\n");
        let name = format!("casc_{ci}.v");
        std::fs::write(format!("{out}/{name}"), v).unwrap();
        casc_files.push(json!({"file": name, "cases": cs.iter().map(|c| c.1.clone()).collect::<Vec<_>>()}));
    }

    // ---- tpd goal files
    let mut tpd_files = Vec::new();
    // every returned trial phase was recomputed in f64 above; a seeded subset also goes through Coq's interval arithmetic
    let max_tpd_goals = if full { 1800 } else { 240 };
    let n_tpd_total = goals.tpd.len();
    if goals.tpd.len() > max_tpd_goals {
        let stride = goals.tpd.len() as f64 / max_tpd_goals as f64;
        let picked: Vec<(String, Value)> = (0..max_tpd_goals).map(|k| goals.tpd[(k as f64 * stride) as usize].clone()).collect();
        goals.tpd = picked;
    }
    for (ci, cs) in goals.tpd.chunks(12).enumerate() {
        let mut v = header();
        v.push_str("Open Scope R_scope.\n");
        for (g, _) in cs {
            v.push_str(g);
        }
        let name = format!("tpd_{ci}.v");
        std::fs::write(format!("{out}/{name}"), v).unwrap();
        tpd_files.push(json!({"file": name, "goals": cs.iter().map(|(_, m)| m.clone()).collect::<Vec<_>>()}));
    }

    let res = json!({
        "property": "C07", "tier": cli.tier, "seed": cli.seed,
        "tpd_goals": tpd_files,
        "cascade": casc_files,
        "sweep": {"flashes_with_initial_state": sw.combos, "found": sw.ok, "delivered_by_the_guess": sw.from_guess, "fell_back_to_the_stability_start_or_failed": sw.fell_back,
                  "largest_composition_difference_to_the_flash_without_initial_state": sw.worst_dx, "feeds_in_pools": pool_pc.len() + pool_pr.len()},
        "trial_goals": trial_files,
        "step_goals": step_files, "ctrl": ctrl_files, "stab": stab_files, "triv": triv_files,
        "tie": {"feeds_kept": keep_pc.len() + keep_pr.len(), "substitution_steps_seen": tie.n_ss_steps, "newton_steps_seen_inside_minimize_tpd": tie.n_newton_steps,
                "newton_steps_hooked": tie.n_newton_direct, "steps_consistent_with_both_or_neither_kind_(flag_not_compared)": tie.undetermined_steps, "newton_steps_with_an_amount_below_f64_EPSILON_(guard_mirrored_in_the_trace)": tie.guarded_newton_steps, "newton_step_goals_skipped_(amount_below_the_guard,_outside_the_model_domain)": tie.newton_goals_skipped_guard,
                "formula_mismatch": tie.formula_mismatch,
                "trial_states_compared_with_the_model_of_define_trial_state": tie.n_trials_compared, "trial_mismatch": tie.trial_mismatch},
        "support": {
            "systems": systems,
            "mixture_points": counts[0], "envelope_unavailable": counts[1], "points_with_inside_feed": counts[2], "envelope_narrower_than_margins": counts[3],
            "pure_isotherms": pcounts[0], "pure_vle_unavailable": pcounts[1], "pure_grid_states": pcounts[2],
            "states_analysed": tally.analysed, "trial_phases_returned": tally.trials_returned,
            "largest_recomputed_tpd_of_a_returned_trial_phase": tally.worst_tpd,
            "largest_rel_pressure_deviation_of_a_trial_phase": tally.worst_p,
            "flashes_attempted": tally.flashes, "flashes_found": tally.flash_ok,
            "errors_with_nondefault_options_outside_prescribed_verdicts": tally.errors_any,
            "verdicts_by_kind_[stable,unstable,error]": tally.by_kind,
            "failures": failures,
            "known_points": known_out,
            "trial_phases_recomputed_in_f64": n_tpd_total,
            "solver_option_sets": "0 default; 1 tol 1e-8/400; 2 tol 1e-5; 3 max_iter 300; 4 tol 1e-10/1000; 5 tol 1e-12/1000; 6 tol 1e-9/600; 7 tol 1e-7/200 — every converged bubble/dew/flash phase is analysed with sets 0,1,4,5,2 and the set drawn for the point (NotConverged under sets 4,5 is counted, not judged)",
            "ranges": "asymmetric methane/ethane + alkane binaries at 90-98 % of the way from dew to bubble pressure; PC-SAFT hydrocarbon binaries of gross2001.json with T_c ratio < 1.5 (+ ternaries, Peng-Robinson 2/3 components), T in [0.65,0.9] of the lowest T_c, x in [0.05,0.95]; p inside [1.02 p_dew, 0.98 p_bubble], p outside >= 1.02 p_bubble or <= 0.98 p_dew; pure: density grid, inside [1.02 rho_V, 0.98 rho_L]",
        }
    });
    cli.write_impl(&res);
}
