//! C13 — virial coefficients equal the low-density limit of the compressibility factor.
//! Per configuration and composition: trace g(T, rho) = beta A^res(T, V = 1, N = rho x) through a literal
//! `StateHD` (exactly what `StateHD::new_virial` builds) at rho = 0 — the path the virial functions take — and at a
//! finite density; emit the Coq file that encloses the rho-derivatives at rho = 0; record what the public
//! `second_virial_coefficient`, `third_virial_coefficient` and their temperature derivatives return, and the
//! low-density behaviour of (Z - 1)/rho of real states (the always-on oracle).
use feos::ResidualModel;
use feos_core::{Contributions, ReferenceSystem, Residual, State, StateHD};
use feos_verif::configs::{self, Config, Rng};
use feos_verif::emit;
use feos_verif::prog::{compare, extract, Prog};
use feos_verif::sym::{self, Sym};
use feos_verif::trace;
use ndarray::Array1;
use quantity::{Density, Moles, Temperature};
use serde_json::{json, Value};
use std::sync::Arc;

/// trace g(T, rho) with variables 0 = T, 1 = rho; outputs: contributions, then the sum
fn trace_g<R: Residual, const K: usize>(model: &R, t: f64, rho: f64, x: &[f64]) -> Prog {
    sym::reset();
    let tt: Sym<K> = sym::var(0, t);
    let r: Sym<K> = sym::var(1, rho);
    let volume: Sym<K> = <Sym<K> as num_traits::One>::one();
    let partial_density = Array1::from_iter(x.iter().map(|xi| r * *xi));
    let moles = partial_density.mapv(|pd| pd * volume);
    let molefracs = Array1::from_iter(x.iter().map(|xi| Sym::<K>::from(*xi)));
    let sh = StateHD { temperature: tt, volume, moles, molefracs, partial_density };
    let contribs = model.residual_helmholtz_energy_contributions(&sh);
    let mut outs: Vec<(String, u32)> = Vec::new();
    let mut acc = <Sym<K> as num_traits::Zero>::zero();
    for (name, a) in &contribs {
        outs.push((name.clone(), a.0));
        acc = acc + *a;
    }
    outs.push(("g_total".into(), acc.0));
    let tr = sym::take();
    extract(&tr, 2, &outs)
}

fn api<R: Residual>(model: &Arc<R>, t: f64, x: &[f64]) -> Value {
    let tt = Temperature::from_reduced(t);
    let m = Moles::from_reduced(Array1::from_vec(x.to_vec()));
    let f = |r: Result<f64, String>| match r {
        Ok(v) if v.is_finite() => json!(v),
        Ok(_) => json!("nan"),
        Err(e) => json!(format!("err: {e}")),
    };
    json!({
        "B": f(model.second_virial_coefficient(tt, Some(&m)).map(|q| q.to_reduced()).map_err(|e| e.to_string())),
        "C": f(model.third_virial_coefficient(tt, Some(&m)).map(|q| q.to_reduced()).map_err(|e| e.to_string())),
        "dB_dT": f(model.second_virial_coefficient_temperature_derivative(tt, Some(&m)).map(|q| q.to_reduced()).map_err(|e| e.to_string())),
        "dC_dT": f(model.third_virial_coefficient_temperature_derivative(tt, Some(&m)).map(|q| q.to_reduced()).map_err(|e| e.to_string())),
    })
}

/// (Z - 1)/rho of a real state at density rho (reduced units)
fn zm1_rho<R: Residual>(model: &Arc<R>, t: f64, rho: f64, x: &[f64]) -> Option<f64> {
    let ntot = 1.0;
    let n = Moles::from_reduced(Array1::from_iter(x.iter().map(|xi| xi * ntot)));
    let st = State::new_nvt(
        model,
        Temperature::from_reduced(t),
        quantity::Volume::from_reduced(ntot / rho),
        &n,
    )
    .ok()?;
    let z = st.compressibility(Contributions::Total);
    Some((z - 1.0) / rho)
}

/// low-density oracle: Richardson extrapolation of (Z-1)/rho -> B and of its slope -> C
fn oracle<R: Residual>(model: &Arc<R>, t: f64, x: &[f64], rho_max: f64) -> Value {
    // (Z-1)/rho = B + C rho + D rho^2 + ...
    let h = 2e-3 * rho_max;
    let f = |r: f64| zm1_rho(model, t, r, x);
    let (Some(f1), Some(f2), Some(f4)) = (f(h), f(h / 2.0), f(h / 4.0)) else { return Value::Null };
    // eliminate the linear and quadratic terms
    let b1 = 2.0 * f2 - f1;
    let b2 = 2.0 * f4 - f2;
    let b = (4.0 * b2 - b1) / 3.0;
    // slope
    let c1 = (f1 - f2) / (h / 2.0);
    let c2 = (f2 - f4) / (h / 4.0);
    let c = 2.0 * c2 - c1;
    // the same extrapolation with a 16 times smaller base step: the difference of the two estimates measures the truncation
    // error of the oracle (strongly associating fluids at low temperature have a very small radius of convergence)
    let rich = |h: f64| -> Option<(f64, f64)> {
        let (f1, f2, f4) = (f(h)?, f(h / 2.0)?, f(h / 4.0)?);
        let (b1, b2) = (2.0 * f2 - f1, 2.0 * f4 - f2);
        let (c1, c2) = ((f1 - f2) / (h / 2.0), (f2 - f4) / (h / 4.0));
        Some(((4.0 * b2 - b1) / 3.0, 2.0 * c2 - c1))
    };
    let fine = rich(h / 16.0);
    json!({"B_limit": b, "C_limit": c, "h": h, "samples": [f1, f2, f4],
           "B_limit_fine": fine.map(|x| x.0), "C_limit_fine": fine.map(|x| x.1)})
}

const BODY: &str = r#"
Open Scope list_scope.
Definition P_n := (2 + List.length P_consts)%nat.
Definition P_D1 := tan_outs P_prog P_n [0%nat].
Definition P_D2 := tan_outs P_D1 (2 * P_n) [0%nat].
Definition P_D3 := tan_outs P_D2 (4 * P_n) [0%nat].
Definition P_u (k : nat) : list (Z * Z) := map (fun j => if Nat.eqb j k then (1, 0)%Z else (0, 0)%Z) (seq 0 P_n).
Definition P_z : list (Z * Z) := repeat (0, 0)%Z P_n.
Definition P_in2 (st : list (Z * Z)) (i j : nat) := (st ++ P_u i) ++ (P_u j ++ P_z).
Definition P_in3 (st : list (Z * Z)) (i j k : nat) := ((st ++ P_u i) ++ (P_u j ++ P_z)) ++ ((P_u k ++ P_z) ++ (P_z ++ P_z)).
Eval vm_compute in ("G0", "P", map (fun st => ib_out (nth 0 (evalIB PREC P_prog st) IB.nai)) P_inputs).
Eval vm_compute in ("G1", "P", let d := P_D1 in map (fun st => ib_out (nth 0 (evalIB PREC d (st ++ P_u 1)) IB.nai)) P_inputs).
Eval vm_compute in ("G2", "P", let d := P_D2 in map (fun st => ib_out (nth 0 (evalIB PREC d (P_in2 st 1 1)) IB.nai)) P_inputs).
(* per contribution: second density derivative at rho = 0 of every output (outputs in the order of P_outs) *)
Definition P_ks := seq 0 P_nouts.
Definition P_C1 := tan_outs P_prog P_n P_ks.
Definition P_C2 := tan_outs P_C1 (2 * P_n) P_ks.
Eval vm_compute in ("G2C", "P", let d := P_C2 in map (fun st => let r := evalIB PREC d (P_in2 st 1 1) in map (fun j => ib_out (nth j r IB.nai)) P_ks) P_inputs).
Lemma P_scoped : wscoped P_prog P_n = true.
Proof. vm_compute. reflexivity. Qed.
Lemma P_D1_scoped : wscoped P_D1 (2 * P_n) = true.
Proof. vm_compute. reflexivity. Qed.
(* the limit theorem instantiated on this program: all hypotheses decided by computation (per temperature) *)
Definition P_vobl (st : list (Z * Z)) : bool :=
  match st with T :: _ :: cs => virial_obligations P_prog T (1, -60)%Z cs PREC | _ => false end.
Eval vm_compute in ("VOBL", "P", map P_vobl P_inputs).
Definition P_limit (T : Z * Z) (cs : list (Z * Z)) := C13_second_virial_limit_of_program P_prog T (1, -60)%Z cs PREC.
Check P_limit.
Definition P_order1 a e r Ha He := C01_directional_derivative P_prog P_n [0%nat] a e r Ha He P_scoped.
Definition P_order2 a e r Ha He := C01_directional_derivative P_D1 (2 * P_n) [0%nat] a e r Ha He P_D1_scoped.
"#;

const BODY3: &str = r#"
Eval vm_compute in ("G3", "P", let d := P_D3 in map (fun st => ib_out (nth 0 (evalIB PREC d (P_in3 st 1 1 1)) IB.nai)) P_inputs).
Eval vm_compute in ("G2T", "P", let d := P_D3 in map (fun st => ib_out (nth 0 (evalIB PREC d (P_in3 st 1 1 0)) IB.nai)) P_inputs).
Lemma P_D2_scoped : wscoped P_D2 (4 * P_n) = true.
Proof. vm_compute. reflexivity. Qed.
Definition P_order3 a e r Ha He := C01_directional_derivative P_D2 (4 * P_n) [0%nat] a e r Ha He P_D2_scoped.
(* the third-virial limit theorem instantiated on this program (per temperature) *)
Definition P_vobl3 (st : list (Z * Z)) : bool :=
  match st with T :: _ :: cs => virial_obligations3 P_prog T (1, -60)%Z cs PREC | _ => false end.
Eval vm_compute in ("VOBL3", "P", map P_vobl3 P_inputs).
Definition P_limit3 (T : Z * Z) (cs : list (Z * Z)) := C13_third_virial_limit_of_program P_prog T (1, -60)%Z cs PREC.
Check P_limit3.
"#;

struct Par<'a> {
    out_dir: &'a str,
    full: bool,
    seed: u64,
    k_t: usize,
    lim3: usize,
    prec: i64,
}

/// one configuration: any model implementing `Residual` (equations of state and Helmholtz energy functionals used as bulk models)
fn one<R: Residual>(name: &str, model: &Arc<R>, ncomp: usize, t_scale: f64, par: &Par, oracle_only: bool) -> Value {
    one_x(name, model, ncomp, t_scale, par, oracle_only, None)
}

/// `edge = Some(i)`: the composition on the boundary of the simplex where component i is absent (oracle only)
fn one_x<R: Residual>(base: &str, model: &Arc<R>, ncomp: usize, t_scale: f64, par: &Par, oracle_only: bool, edge: Option<usize>) -> Value {
    let name_owned = match edge { Some(i) => format!("{base}_edge{i}"), None => base.to_string() };
    let name: &str = &name_owned;
    let oracle_only = oracle_only || edge.is_some();
    let (out_dir, full, seed, k_t, lim3, prec) = (par.out_dir, par.full, par.seed, par.k_t, par.lim3, par.prec);
        let mut rng = Rng(seed ^ trace::fxhash(&name) ^ 0xC13);
        let m = model.as_ref();
        // one composition per configuration
        let mut x: Vec<f64> = (0..ncomp).map(|_| rng.range(0.1, 1.0)).collect();
        if let Some(i) = edge {
            x[i] = 0.0;
        }
        let s: f64 = x.iter().sum();
        x.iter_mut().for_each(|xi| *xi /= s);
        let rho_max = m.compute_max_density(&Array1::from_vec(x.clone()));
        let ts: Vec<f64> = (0..k_t).map(|_| t_scale * rng.range(0.5, 3.0)).collect();
        // the path the virial functions take: rho = 0 exactly
        let p0 = trace_g::<_, 2>(m, ts[0], 0.0, &x);
        let p0b = trace_g::<_, 2>(m, ts[0] * 1.37, 0.0, &x);
        let c0 = compare(&p0, &p0b);
        // finite density
        let pf = trace_g::<_, 2>(m, ts[0], 1e-3 * rho_max, &x);
        let pfb = trace_g::<_, 2>(m, ts[0] * 1.37, 2.3e-3 * rho_max, &x);
        let cf = compare(&pf, &pfb);
        let same_as_fd = compare(&p0, &pf);
        // which contributions differ in shape between rho = 0 and finite density
        let nanvals: Vec<String> = p0
            .outs
            .iter()
            .enumerate()
            .filter(|(j, _)| !p0.values[p0.instrs.len() - p0.outs.len() + j].is_finite())
            .map(|(_, n)| n.clone())
            .collect();
        let mut prog = p0.clone();
        prog.dedup_consts_keep(&c0.leaks);
        let ninstr = prog.instrs.len();
        let do3 = ninstr <= lim3;
        // programs above this size are not enclosed in this tier (oracle only)
        let enclosed = !oracle_only && ninstr <= if full { 3000 } else { 1500 };
        let mut v = emit::header(&["ProgSem", "ProgSemBig", "AD", "BoxBig", "VirialBox", "VirialBox3"]);
        v.push_str("From FeosProps Require Import C01 C13.\n");
        v.push_str(&prog.emit_coq("P"));
        let rows: Vec<String> = ts
            .iter()
            .map(|t| {
                let mut xx = vec![*t, 0.0];
                xx.extend(&prog.consts);
                emit::dy_list(&xx)
            })
            .collect();
        v.push_str(&format!("Definition P_inputs : list (list (Z * Z)) := [{}].\n", rows.join(";\n ")));
        v.push_str(&BODY.replace("PREC", &format!("{prec}%Z")));
        if do3 {
            v.push_str(&BODY3.replace("PREC", &format!("{prec}%Z")));
        }
        // the finite-density program evaluated at rho = 0 (defined there iff no division by rho / eta, no ln 0)
        let mut progf = pf.clone();
        progf.dedup_consts_keep(&cf.leaks);
        v.push_str(&progf.emit_coq("F"));
        let rowsf: Vec<String> = ts
            .iter()
            .map(|t| {
                let mut xx = vec![*t, 0.0];
                xx.extend(&progf.consts);
                emit::dy_list(&xx)
            })
            .collect();
        v.push_str(&format!("Definition F_inputs : list (list (Z * Z)) := [{}].\n", rowsf.join(";\n ")));
        // identical programs (no zero-density branch at all): the per-contribution comparison is vacuous, skip its evaluation
        let identical = same_as_fd.same_shape && progf.consts.len() == prog.consts.len();
        v.push_str("Eval vm_compute in (\"SAMEPROG\", \"P\", prog_eqb P_prog F_prog).\n");
        if !identical {
            v.push_str(&format!(
                "Definition F_n := (2 + List.length F_consts)%nat.\nDefinition F_ks := seq 0 F_nouts.\nDefinition F_D2 := tan_outs (tan_outs F_prog F_n F_ks) (2 * F_n) F_ks.\nDefinition F_u (k : nat) : list (Z * Z) := map (fun j => if Nat.eqb j k then (1, 0)%Z else (0, 0)%Z) (seq 0 F_n).\nDefinition F_z : list (Z * Z) := repeat (0, 0)%Z F_n.\nEval vm_compute in (\"F2C\", \"P\", let d := F_D2 in map (fun st => let r := evalIB {prec}%Z d ((st ++ F_u 1) ++ (F_u 1 ++ F_z)) in map (fun j => ib_out (nth j r IB.nai)) F_ks) F_inputs).\n"
            ));
        }
        if enclosed {
            std::fs::write(format!("{out_dir}/{}.v", name), v).unwrap();
        }
        let apis: Vec<Value> = ts.iter().map(|t| api(model, *t, &x)).collect();
        let oracles: Vec<Value> = ts.iter().map(|t| oracle(model, *t, &x, rho_max)).collect();
        // temperature derivative oracle: central difference of the reported coefficient
        let dts: Vec<Value> = ts
            .iter()
            .map(|t| {
                let h = 1e-4 * t;
                let (a, b) = (api(model, t + h, &x), api(model, t - h, &x));
                let d = |k: &str| match (a[k].as_f64(), b[k].as_f64()) {
                    (Some(p), Some(q)) => json!((p - q) / (2.0 * h)),
                    _ => Value::Null,
                };
                json!({"dB_dT_fd": d("B"), "dC_dT_fd": d("C")})
            })
            .collect();
        json!({
            "name": name, "base": base, "ncomp": ncomp, "x": x, "temperatures": ts, "rho_max": rho_max,
            "ninstr": ninstr, "outs": prog.outs, "order3": do3, "enclosed": enclosed,
            "leaks_rho0": c0.leaks.len(), "shape_stable_rho0": c0.same_shape,
            "leaks_fd": cf.leaks.len(), "shape_stable_fd": cf.same_shape,
            "same_shape_rho0_vs_fd": same_as_fd.same_shape,
            "non_finite_outputs_at_rho0": nanvals, "unsupported": prog.unsupported,
            "api": apis, "oracle": oracles, "fd_T": dts,
        })
}

pub fn run(out_dir: &str, tier: &str, seed: u64, only: Option<String>) -> Value {
    let full = tier == "thorough";
    let cfgs: Vec<Config> = configs::all(true)
        .into_iter()
        .chain(configs::literal())
        .filter(|c| match &only {
            Some(o) => &c.name == o,
            // electrolytes have no virial coefficients (excluded by the property)
            None => (full || c.core || c.name.starts_with("uv_bh1") || c.name == "saftvrmie_literal_spherical_assoc") && !c.name.contains("nacl"),
        })
        .collect();
    let par = Par { out_dir, full, seed, k_t: if full { 4 } else { 2 }, lim3: if full { 900 } else { 450 }, prec: 100 };
    let mut results = Vec::new();
    for c in &cfgs {
        results.push(one::<ResidualModel>(&c.name, &c.model, c.ncomp, c.t_scale, &par, false));
        // the boundary of the composition simplex: one component absent (public virial functions vs the low-density limit of states)
        if c.ncomp >= 2 && only.is_none() {
            for i in if full { (0..c.ncomp).collect::<Vec<_>>() } else { vec![0] } {
                results.push(one_x::<ResidualModel>(&c.name, &c.model, c.ncomp, c.t_scale, &par, true, Some(i)));
            }
        }
    }
    // the bare model types (not wrapped in the enum over all models): a model may override the trait's default virial functions, and the
    // enum / wrapper containers do not forward such overrides
    if only.is_none() || only.as_deref().map_or(false, |o| o.starts_with("bare_")) {
        let sel = |n: &str| only.as_ref().map_or(true, |o| o == n);
        if sel("bare_pr2") {
            results.push(one("bare_pr2", &Arc::new(configs::peng_robinson(2)), 2, 400.0, &par, false));
        }
        if sel("bare_pcsaft_propane_butane_kij") {
            let p = configs::with_kij(&configs::pcsaft_params(&["propane", "butane"], "gross2001.json", None), 0.03);
            results.push(one("bare_pcsaft_propane_butane_kij", &Arc::new(feos::pcsaft::PcSaft::new(Arc::new(p))), 2, 400.0, &par, false));
        }
        if full && sel("bare_saftvrmie_ethane") {
            results.push(one("bare_saftvrmie_ethane", &Arc::new(configs::saftvrmie(&["ethane"])), 1, 305.0, &par, false));
        }
    }
    // Helmholtz energy functionals used as bulk models (they implement `Residual`, so the virial functions exist for them)
    {
        use feos::hard_sphere::FMTVersion;
        use feos::pcsaft::PcSaftFunctional;
        let sel = |n: &str| only.as_ref().map_or(true, |o| o == n);
        use feos::pcsaft::{PcSaftParameters, PcSaftRecord};
        use feos_core::parameter::Parameter;
        // the functionals regularise divisions by weighted densities, so the traced rho = 0 program is not a model of them:
        // public virial functions vs the low-density limit of real states only (oracle_only)
        let assoc = PcSaftRecord::new(1.0, 3.0, 250.0, None, None, Some(0.03), Some(2500.0), Some(1.0), Some(1.0), None, None, None, None);
        let inert = PcSaftRecord::new(1.0, 3.7, 150.0, None, None, None, None, None, None, None, None, None, None);
        let lit = |r: Vec<PcSaftRecord>| Arc::new(PcSaftParameters::from_model_records(r).unwrap());
        let mut add = |name: &str, p: Arc<PcSaftParameters>, ver: FMTVersion, t_scale: f64| {
            if sel(name) {
                let n = p.m.len();
                let f = Arc::new(PcSaftFunctional::new_full(p, ver));
                results.push(one(name, &f, n, t_scale, &par, true));
            }
        };
        // monomers (m = 1): with and without association, pure-component and mixture code paths
        add("fn_pcsaft_wb_methane", Arc::new(configs::pcsaft_params(&["methane"], "gross2001.json", None)), FMTVersion::WhiteBear, 190.0);
        add("fn_pcsaft_kr_assoc_m1", lit(vec![assoc.clone()]), FMTVersion::KierlikRosinberg, 400.0);
        add("fn_pcsaft_wb_assoc_inert_m1", lit(vec![assoc, inert]), FMTVersion::WhiteBear, 350.0);
        // chain molecules (m != 1): recorded finding
        add("fn_pcsaft_kr_propane_butane", Arc::new(configs::pcsaft_params(&["propane", "butane"], "gross2001.json", None)), FMTVersion::KierlikRosinberg, 400.0);
    }
    json!({"property": "C13", "tier": tier, "seed": seed, "prec": prec_of(&par), "configs": results})
}

fn prec_of(p: &Par) -> i64 {
    p.prec
}

fn main() {
    let cli = feos_verif::cli::Cli::parse("/verif/coq/gen/C13");
    let res = run(&cli.out, &cli.tier, cli.seed, cli.opt("--only"));
    cli.write_impl(&res);
}
