//! Part 3 — exploration support on the REAL convolvers (never counted as proof obligations):
//!  (adj)    <W delta, psi>_w = <delta, B psi>_w  per weight function (scalar / vector, component / FMT) through the public
//!           `Convolver::weighted_densities` / `functional_derivative`, psi = the real partial derivatives of a smooth profile,
//!           delta = smooth bump away from the boundary; on Cartesian grids additionally the full matrix identity
//!           w_k W[(a,k),(s,j)] = w_j B[(s,j),(a,k)] for interior columns j (unit vectors);
//!  (fd)     (F(rho + eps delta) - F(rho - eps delta)) / (2 eps) = sum_j w_j delta_j dF/drho_j, F = sum_k w_k phi_k, both from the
//!           public `HelmholtzEnergyFunctional::functional_derivative`;
//!  (newton) hook `verif_delta_functional_derivative` vs the central difference of the functional derivative;
//!  (bonds)  hook `verif_delta_bond_integrals` vs the central difference of ln(bond_integrals).
use crate::funcs::{self, FCfg, GridKind, Visitor};
use feos_core::{ReferenceSystem, State};
use feos_dft::{Convolver, ConvolverFFT, DFTProfile, FunctionalContribution, HelmholtzEnergyFunctional};
use feos_verif::cli::Cli;
use feos_verif::configs::Rng;
use feos_verif::trace::fxhash;
use ndarray::{Array, Array1, Array2, Axis as NdAxis, Dimension, Ix1, Ix2, Ix3, IxDyn, RemoveAxis};
use quantity::{Density, Moles, Temperature, Volume};
use serde_json::{json, Value};
use std::sync::Arc;

/// tolerances (relative), calibrated on the pinned tree; see notes/C17.md
pub fn tol_adj(kind: GridKind) -> f64 {
    match kind {
        GridKind::Cartesian | GridKind::Cartesian2 | GridKind::Cartesian3 | GridKind::Periodical2 | GridKind::Periodical3 => 1e-12,
        GridKind::Spherical => 5e-3,
        GridKind::Polar | GridKind::Cylindrical => 0.5,
    }
}
pub fn tol_fd(kind: GridKind) -> f64 {
    match kind {
        GridKind::Cartesian | GridKind::Cartesian2 | GridKind::Cartesian3 | GridKind::Periodical2 | GridKind::Periodical3 => 1e-5,
        GridKind::Spherical => 3e-4,
        GridKind::Polar | GridKind::Cylindrical => 2e-2,
    }
}
pub const TOL_NEWTON: f64 = 1e-4;
pub const TOL_BONDS: f64 = 1e-5;
pub const TOL_MATRIX: f64 = 1e-12;

/// the convolver of a D-dimensional grid seen through flat (rows x grid points) arrays, row-major over the grid
struct Flat<D: Dimension> {
    conv: Arc<dyn Convolver<f64, D>>,
    shape: Vec<usize>,
}
type Conv<D> = Flat<D>;

fn down<E: Dimension>(a: &Array<f64, E>) -> Array2<f64> {
    let rows = a.shape()[0];
    let n = a.len() / rows;
    a.as_standard_layout().to_owned().into_shape_with_order((rows, n)).unwrap()
}

impl<D: Dimension> Flat<D>
where
    D::Larger: Dimension<Smaller = D>,
{
    fn up(&self, a: &Array2<f64>) -> Array<f64, D::Larger> {
        let mut sh = vec![a.shape()[0]];
        sh.extend(&self.shape);
        a.as_standard_layout().to_owned().into_shape_with_order(IxDyn(&sh)).unwrap().into_dimensionality::<D::Larger>().unwrap()
    }
    fn weighted_densities(&self, rho: &Array2<f64>) -> Vec<Array2<f64>> {
        self.conv.weighted_densities(&self.up(rho)).iter().map(down).collect()
    }
    fn functional_derivative(&self, pd: &[Array2<f64>]) -> Array2<f64> {
        let v: Vec<Array<f64, D::Larger>> = pd.iter().map(|p| self.up(p)).collect();
        down(&self.conv.functional_derivative(&v))
    }
}

fn wsum(w: &Array1<f64>, a: &Array2<f64>, b: &Array2<f64>) -> (f64, f64) {
    // (sum, sum of absolute values) of  w_k a_{s,k} b_{s,k}
    let mut s = 0.0;
    let mut sa = 0.0;
    for (ra, rb) in a.outer_iter().zip(b.outer_iter()) {
        for k in 0..w.len() {
            let t = w[k] * ra[k] * rb[k];
            s += t;
            sa += t.abs();
        }
    }
    (s, sa)
}

/// F = sum_k w_k phi_k and the functional derivative, both as `functional_derivative` returns them
fn f_and_grad<D: Dimension, F: HelmholtzEnergyFunctional>(f: &F, t: f64, rho: &Array2<f64>, conv: &Conv<D>, w: &Array1<f64>) -> Option<(f64, Array2<f64>)>
where
    D::Larger: Dimension<Smaller = D>,
{
    let r = std::panic::catch_unwind(std::panic::AssertUnwindSafe(|| f.functional_derivative(t, &conv.up(rho), &conv.conv)));
    match r {
        Ok(Ok((phi, g))) => {
            let val = phi.as_standard_layout().iter().zip(w.iter()).map(|(p, w)| p * w).sum::<f64>();
            if val.is_finite() && g.iter().all(|x| x.is_finite()) {
                Some((val, down(&g)))
            } else {
                None
            }
        }
        _ => None,
    }
}

fn partials<F: HelmholtzEnergyFunctional>(f: &F, t: f64, wds: &[Array2<f64>]) -> Option<Vec<Array2<f64>>> {
    let mut out = Vec::new();
    for (c, wd) in f.contributions().zip(wds) {
        let mut phi = Array1::zeros(wd.shape()[1]);
        let mut pd = Array2::zeros(wd.raw_dim());
        c.first_partial_derivatives(t, wd.clone(), phi.view_mut(), pd.view_mut()).ok()?;
        out.push(pd);
    }
    Some(out)
}

pub struct Case {
    pub kind: GridKind,
    /// (points, length) per axis
    pub axes: Vec<(usize, f64)>,
    /// cell angles in degrees (periodic grids)
    pub angles: Vec<f64>,
    /// exponent of the Lanczos sigma factor of the convolver (`ConvolverFFT::plan(.., lanczos)`)
    pub lanczos: Option<i32>,
    pub osc: bool,
}

fn one_case<D, F: HelmholtzEnergyFunctional + 'static>(c: &FCfg, f: &Arc<F>, case: &Case, rng: &mut Rng, matrix: bool) -> Value
where
    D: Dimension + RemoveAxis + 'static,
    D::Larger: Dimension<Smaller = D>,
    D::Smaller: Dimension<Larger = D>,
    <D::Larger as Dimension>::Larger: Dimension<Smaller = D::Larger>,
{
    let grid = funcs::make_grid_nd(case.kind, &case.axes, &case.angles);
    // flat (row-major) coordinates and integration weights of the grid points
    let (pts, w) = funcs::flat_points(&grid);
    let z: Array1<f64> = pts.iter().map(|p| p[0]).collect();
    let n = pts.len();
    let wf = f.weight_functions(c.t);
    let conv: Conv<D> = Flat { conv: ConvolverFFT::plan(&grid, &wf, case.lanczos), shape: case.axes.iter().map(|a| a.0).collect() };
    let length = case.axes[0].1;
    let mut spec = funcs::sample_profile(rng, case.osc, length, c.sigma);
    if case.kind.periodic() {
        spec.kind = "periodic";
    }
    if std::env::var("C17_DILUTE").is_ok() && !case.osc && rng.f64() < 0.3 {
        // (off by default) interface against near-vacuum: the functionals have cut-offs / |.| kinks there (N0_CUTOFF, |lambda|),
        // i.e. points where they are not differentiable, so finite differences are not an oracle; part 1 covers those branches
        spec.eta_lo = rng.log_range(1e-9, 1e-7);
    }
    let lens: Vec<f64> = case.axes.iter().map(|a| a.1).collect();
    // along the first axis the tanh / oscillating profile, smooth cosine modulation along the others
    let rho = funcs::density_profile(f.as_ref(), c, &spec, &z) * &funcs::modulation(&pts, &lens, case.kind.periodic());
    let ci = f.component_index().into_owned();
    let nseg = ci.len();
    let bspec = funcs::sample_bump(rng, nseg, length);
    // multiplicative perturbation  delta_s(z) = a_s b(z) rho_s(z):  smooth, compactly supported away from the boundary, and
    // rho +- eps delta stays positive for every eps < 1 (also against near-vacuum)
    let ones: Vec<f64> = vec![1.0; nseg];
    let delta = funcs::bump(&bspec, &ones, &z) * &rho * &funcs::transverse_bump(&pts, &lens);
    let support: Vec<usize> = (0..n).filter(|k| delta.column(*k).iter().any(|x| *x != 0.0)).collect();
    let mut checks: Vec<Value> = Vec::new();
    let mut failures: Vec<Value> = Vec::new();
    let ident = json!({"config": c.name, "grid": case.kind.name(), "points": n, "axes(points,length)": case.axes, "cell_angles_deg": case.angles, "lanczos": case.lanczos, "length": length, "temperature": c.t,
        "profile": format!("{spec:?}"), "perturbation": format!("{bspec:?}"),
        "perturbation_support_grid_indices": [support.first(), support.last()]});
    let mut record = |name: &str, err: f64, tol: f64, extra: Value| {
        let v = json!({"check": name, "rel_err": err, "tol": tol, "detail": extra});
        if !(err <= tol) {
            let mut fv = v.clone();
            fv["case"] = ident.clone();
            failures.push(fv);
        }
        checks.push(v);
    };
    // ---- (adj) per weighted density
    let wds = conv.weighted_densities(&rho);
    let dwds = conv.weighted_densities(&delta);
    if std::env::var("C17_DEBUG_NAN").is_ok() {
        if let Some(ps) = partials(f.as_ref(), c.t, &wds) {
            for (cix, p) in ps.iter().enumerate() {
                for k in 0..n {
                    if p.column(k).iter().any(|x| !x.is_finite()) {
                        eprintln!("NaN partial: {} {} c{} k={} z={} rho={:?} wd={:?}", c.name, case.kind.name(), cix, k, z[k], rho.column(k).to_vec(), wds[cix].column(k).to_vec());
                        break;
                    }
                }
            }
        }
    }
    if let Some(psis) = partials(f.as_ref(), c.t, &wds) {
        let mut worst = 0.0f64;
        let mut worst_at = json!(null);
        let mut count = 0;
        let mut all_errs: Vec<Value> = Vec::new();
        for (cix, psi) in psis.iter().enumerate() {
            for a in 0..psi.shape()[0] {
                // psi restricted to one weighted density of one contribution
                let mut single: Vec<Array2<f64>> = psis.iter().map(|p| Array2::zeros(p.raw_dim())).collect();
                single[cix].row_mut(a).assign(&psi.row(a));
                let bpsi = conv.functional_derivative(&single);
                let la = dwds[cix].row(a).to_owned().insert_axis(NdAxis(0));
                let lb = psi.row(a).to_owned().insert_axis(NdAxis(0));
                let (lhs, lhs_abs) = wsum(&w, &la, &lb);
                let (rhs, rhs_abs) = wsum(&w, &delta, &bpsi);
                let den = lhs_abs.max(rhs_abs);
                if den == 0.0 {
                    continue;
                }
                count += 1;
                let e = (lhs - rhs).abs() / den;
                all_errs.push(json!([cix, a, e, lhs, rhs]));
                if e > worst || !e.is_finite() {
                    worst = if e.is_finite() { e } else { f64::INFINITY };
                    worst_at = json!({"contribution": cix, "weighted_density": a, "lhs_<W delta,psi>_w": lhs, "rhs_<delta,B psi>_w": rhs});
                }
            }
        }
        record("adjoint_per_weight_function", worst, tol_adj(case.kind), json!({"pairs": count, "worst_at": worst_at, "per_weight_function(contribution, index, rel_err, lhs, rhs)": all_errs}));
        // ---- full matrix identity on interior columns (unit vectors; Cartesian)
        if matrix {
            let mut worst = 0.0f64;
            let mut worst_at = json!(null);
            let mut entries = 0usize;
            // interior columns: every multi-index in the middle half of its axis (at most 24 of them, seeded choice);
            // rows k: all grid points when the grid is small, otherwise a seeded subset of 32
            let shape: Vec<usize> = case.axes.iter().map(|a| a.0).collect();
            let interior = |mut k: usize| {
                let mut ok = true;
                for d in (0..shape.len()).rev() {
                    let i = k % shape[d];
                    k /= shape[d];
                    ok &= i >= shape[d] / 4 && i < (3 * shape[d]).div_ceil(4);
                }
                ok
            };
            let mut cols: Vec<usize> = (0..n).filter(|k| interior(*k)).collect();
            while cols.len() > 24 {
                cols.swap_remove(rng.below(cols.len()));
            }
            let mut krows: Vec<usize> = (0..n).collect();
            while krows.len() > 64 {
                krows.swap_remove(rng.below(krows.len()));
            }
            // B columns: unit psi at (contribution, a, k)
            let mut bmat: Vec<Vec<Vec<Array2<f64>>>> = Vec::new();
            for (cix, psi) in psis.iter().enumerate() {
                let mut per_a = Vec::new();
                for a in 0..psi.shape()[0] {
                    let mut per_k = Vec::new();
                    for &k in &krows {
                        let mut single: Vec<Array2<f64>> = psis.iter().map(|p| Array2::zeros(p.raw_dim())).collect();
                        single[cix][[a, k]] = 1.0;
                        per_k.push(conv.functional_derivative(&single));
                    }
                    per_a.push(per_k);
                }
                bmat.push(per_a);
            }
            for s in 0..nseg {
                for &j in &cols {
                    let mut e = Array2::zeros((nseg, n));
                    e[[s, j]] = 1.0;
                    let wcol = conv.weighted_densities(&e);
                    for (cix, wc) in wcol.iter().enumerate() {
                        let colmax = wc.iter().fold(0.0f64, |m, x| m.max(x.abs())) * w[j];
                        for a in 0..wc.shape()[0] {
                            for (ki, &k) in krows.iter().enumerate() {
                                let l = w[k] * wc[[a, k]];
                                let r = w[j] * bmat[cix][a][ki][[s, j]];
                                entries += 1;
                                let den = colmax.max(1e-300);
                                let err = (l - r).abs() / den;
                                if err > worst {
                                    worst = err;
                                    worst_at = json!({"contribution": cix, "weighted_density": a, "k": k, "segment": s, "j": j, "w_k W": l, "w_j B": r});
                                }
                            }
                        }
                    }
                }
            }
            record("adjoint_matrix_interior_columns", worst, TOL_MATRIX, json!({"entries": entries, "worst_at": worst_at}));
        }
    } else {
        record("adjoint_per_weight_function", f64::INFINITY, tol_adj(case.kind), json!("first_partial_derivatives failed on the profile"));
    }
    // ---- (fd) central difference of the discretised functional
    if let Some((_, g0)) = f_and_grad(f.as_ref(), c.t, &rho, &conv, &w) {
        let (lin, lin_abs) = wsum(&w, &delta, &g0);
        let mut best = f64::INFINITY;
        let mut tried = Vec::new();
        let mut vals: Vec<(f64, f64)> = Vec::new();
        for eps in [3e-2, 1e-2, 3e-3, 1e-3, 3e-4] {
            let rp = &rho + &(&delta * eps);
            let rm = &rho - &(&delta * eps);
            if let (Some((fp, _)), Some((fm, _))) = (f_and_grad(f.as_ref(), c.t, &rp, &conv, &w), f_and_grad(f.as_ref(), c.t, &rm, &conv, &w)) {
                let fdv = (fp - fm) / (2.0 * eps);
                let e = (fdv - lin).abs() / lin_abs.max(1e-300);
                tried.push(json!({"eps": eps, "central_difference": fdv, "rel_err": e}));
                vals.push((fdv, e));
            }
        }
        // the converged estimate: the step whose value agrees best with the next smaller step (truncation error of
        // large steps and round-off of small ones both show up as disagreement between neighbours)
        let mut gap = f64::INFINITY;
        for i in 0..vals.len().saturating_sub(1) {
            let g = (vals[i].0 - vals[i + 1].0).abs();
            if g < gap {
                gap = g;
                best = vals[i].1.min(vals[i + 1].1);
            }
        }
        record("central_difference_of_F", best, tol_fd(case.kind), json!({"sum_w_delta_dFdrho": lin, "steps": tried}));
        // ---- (newton) second-derivative operator
        let v = 1000.0;
        let rho_b: Vec<f64> = (0..c.x.len()).map(|i| 0.5 * spec.eta_hi * c.rho_per_eta * c.x[i]).collect();
        let bulk = State::new_nvt(
            f,
            Temperature::from_reduced(c.t),
            Volume::from_reduced(v),
            &Moles::from_reduced(Array1::from_vec(rho_b.iter().map(|r| r * v).collect())),
        );
        if let Ok(bulk) = bulk {
            let profile: DFTProfile<D, F> = DFTProfile::new(grid.clone(), &bulk, None, Some(&Density::from_reduced(conv.up(&rho))), case.lanczos);
            let hook = std::panic::catch_unwind(std::panic::AssertUnwindSafe(|| profile.verif_delta_functional_derivative(&conv.up(&rho), &conv.up(&delta))));
            if let Ok(Ok(dg)) = hook {
                let dg = down(&dg);
                let gmax = dg.iter().fold(0.0f64, |m, x| m.max(x.abs())).max(1e-300);
                let mut best = f64::INFINITY;
                let mut tried = Vec::new();
                for eps in [1e-2, 3e-3, 1e-3, 3e-4, 1e-4] {
                    let rp = &rho + &(&delta * eps);
                    let rm = &rho - &(&delta * eps);
                    if let (Some((_, gp)), Some((_, gm))) = (f_and_grad(f.as_ref(), c.t, &rp, &conv, &w), f_and_grad(f.as_ref(), c.t, &rm, &conv, &w)) {
                        let num = (&gp - &gm) / (2.0 * eps);
                        let e = (&num - &dg).iter().fold(0.0f64, |m, x| m.max(x.abs())) / gmax;
                        tried.push(json!({"eps": eps, "rel_err": e}));
                        if e < best {
                            best = e;
                        }
                    }
                }
                record("newton_operator_vs_numerical_derivative", best, TOL_NEWTON, json!({"max_abs_delta_dFdrho": gmax, "steps": tried}));
                // ---- (bonds) delta_bond_integrals vs central difference of ln(bond_integrals)
                if c.chain {
                    let m = f.m().into_owned();
                    let mut q = g0.clone();
                    for (mut row, &mi) in q.outer_iter_mut().zip(m.iter()) {
                        row /= mi;
                    }
                    // keep exp(-q) in a moderate range
                    let dq = &dg * 0.5;
                    let ex = |q: &Array2<f64>| q.mapv(|x| (-x).exp());
                    let an = std::panic::catch_unwind(std::panic::AssertUnwindSafe(|| profile.verif_delta_bond_integrals(&conv.up(&ex(&q)), &conv.up(&dq))));
                    if let Ok(an) = an {
                        let an = down(&an);
                        // the hook returns d ln I for q -> q + dq ... with the sign convention of the solver (delta_i0 = (-dq + ...) i0)
                        let amax = an.iter().fold(0.0f64, |m, x| m.max(x.abs()));
                        let mut best = f64::INFINITY;
                        let mut tried = Vec::new();
                        for eps in [1e-2, 1e-3, 1e-4] {
                            let ip = down(&f.bond_integrals(c.t, &conv.up(&ex(&(&q + &(&dq * eps)))), &conv.conv));
                            let im = down(&f.bond_integrals(c.t, &conv.up(&ex(&(&q - &(&dq * eps)))), &conv.conv));
                            let num = (ip.mapv(f64::ln) - im.mapv(f64::ln)) / (2.0 * eps);
                            let e = (&num - &an).iter().fold(0.0f64, |m, x| m.max(x.abs())) / amax.max(1e-300);
                            tried.push(json!({"eps": eps, "rel_err": e}));
                            if e < best {
                                best = e;
                            }
                        }
                        if amax > 0.0 {
                            record("delta_bond_integrals_vs_numerical_derivative", best, TOL_BONDS, json!({"max_abs": amax, "steps": tried}));
                        } else {
                            record("delta_bond_integrals_trivial(no bonds)", 0.0, TOL_BONDS, json!(null));
                        }
                    } else {
                        record("delta_bond_integrals_vs_numerical_derivative", f64::INFINITY, TOL_BONDS, json!("panic"));
                    }
                }
            } else {
                record("newton_operator_vs_numerical_derivative", f64::INFINITY, TOL_NEWTON, json!("second_partial_derivatives failed / panicked"));
            }
        }
    } else {
        record("central_difference_of_F", f64::INFINITY, tol_fd(case.kind), json!("functional_derivative failed on the profile"));
    }
    json!({"case": ident, "checks": checks, "failures": failures})
}

/// the convolver option: no Lanczos factor (default of every profile constructor) most of the time, exponent 1 or 2 otherwise
fn lz(rng: &mut Rng) -> Option<i32> {
    let u = rng.f64();
    if u < 0.6 {
        None
    } else if u < 0.8 {
        Some(1)
    } else {
        Some(2)
    }
}

struct SupportVisitor<'a> {
    cli: &'a Cli,
    search: Option<usize>,
    results: Vec<Value>,
}

impl<'a> Visitor for SupportVisitor<'a> {
    fn visit<F: HelmholtzEnergyFunctional + 'static>(&mut self, c: &FCfg, f: &Arc<F>) {
        let full = self.cli.full();
        let mut rng = Rng(self.cli.seed ^ fxhash(&c.name) ^ 0x5C17);
        let reps = self.search.unwrap_or(1);
        let one_d = full || c.core || self.cli.opt("--only").is_some();
        for rep in 0..reps {
            for kind in [GridKind::Cartesian, GridKind::Spherical, GridKind::Polar] {
                if !one_d {
                    continue;
                }
                let sizes: &[usize] = match (kind, full) {
                    (GridKind::Cartesian, false) => &[32, 64],
                    (GridKind::Cartesian, true) => &[32, 64, 128],
                    (GridKind::Spherical, false) => &[64, 128],
                    (GridKind::Spherical, true) => &[64, 128, 256],
                    // the logarithmic polar grid needs many points before its discretisation error is small
                    (_, false) => &[1024],
                    (_, true) => &[1024, 2048],
                };
                let mut points = sizes[rng.below(sizes.len())];
                if let Ok(p) = std::env::var("C17_POINTS") {
                    points = p.parse().unwrap();
                }
                let length = c.sigma * rng.range(12.0, 16.0);
                let case = Case { kind, axes: vec![(points, length)], angles: vec![], lanczos: lz(&mut rng), osc: rng.f64() < 0.5 };
                let matrix = kind == GridKind::Cartesian && rep == 0 && (full || points == 32);
                self.results.push(one_case::<Ix1, F>(c, f, &case, &mut rng, matrix));
            }
            // grids with two and three FFT dimensions: vector weighted densities have more than one spatial component
            // (row layout (weight function, spatial component, segment) of the convolver is exercised for i >= 1)
            if full || c.nd {
                let s = c.sigma;
                let big = full && rng.f64() < 0.5;
                let (n0, n1) = if big { (24, 20) } else { (16, 12) };
                let case2 = Case {
                    kind: GridKind::Cartesian2,
                    axes: vec![(n0, s * rng.range(7.0, 9.0)), (n1, s * rng.range(5.0, 7.0))],
                    angles: vec![],
                    lanczos: lz(&mut rng),
                    osc: rng.f64() < 0.5,
                };
                self.results.push(one_case::<Ix2, F>(c, f, &case2, &mut rng, rep == 0));
                let case3 = Case {
                    kind: GridKind::Cartesian3,
                    axes: vec![(12, s * rng.range(6.0, 7.0)), (8, s * rng.range(4.0, 5.0)), (6, s * rng.range(3.0, 4.0))],
                    angles: vec![],
                    lanczos: lz(&mut rng),
                    osc: false,
                };
                self.results.push(one_case::<Ix3, F>(c, f, &case3, &mut rng, rep == 0));
                // periodic unit cells (PeriodicConvolver: complex FFT, own weighted_densities / functional_derivative code),
                // orthogonal and skewed
                let casep2 = Case {
                    kind: GridKind::Periodical2,
                    axes: vec![(n0, s * rng.range(6.0, 8.0)), (n1, s * rng.range(5.0, 6.0))],
                    angles: vec![if rng.f64() < 0.3 { 90.0 } else { rng.range(55.0, 125.0) }],
                    lanczos: lz(&mut rng),
                    osc: false,
                };
                self.results.push(one_case::<Ix2, F>(c, f, &casep2, &mut rng, rep == 0));
                let casep3 = Case {
                    kind: GridKind::Periodical3,
                    axes: vec![(10, s * rng.range(5.0, 6.0)), (8, s * rng.range(4.0, 5.0)), (6, s * rng.range(3.5, 4.0))],
                    angles: if rng.f64() < 0.3 { vec![90.0; 3] } else { vec![rng.range(75.0, 105.0), rng.range(75.0, 105.0), rng.range(75.0, 105.0)] },
                    lanczos: lz(&mut rng),
                    osc: false,
                };
                self.results.push(one_case::<Ix3, F>(c, f, &casep3, &mut rng, rep == 0));
                if full || c.cyl {
                    let casec = Case {
                        kind: GridKind::Cylindrical,
                        axes: vec![(1024, s * rng.range(12.0, 16.0)), (8, s * rng.range(4.0, 5.0))],
                        angles: vec![],
                        lanczos: lz(&mut rng),
                        osc: rng.f64() < 0.5,
                    };
                    self.results.push(one_case::<Ix2, F>(c, f, &casec, &mut rng, false));
                }
            }
        }
    }
}

pub fn run(cli: &Cli, only: Option<&str>, search: Option<usize>) -> Value {
    let mut v = SupportVisitor { cli, search, results: Vec::new() };
    funcs::for_each_support(cli.full(), only, &mut v);
    json!({"cases": v.results,
           "tolerances": {"adjoint": {"cartesian(1-3D)/periodic": tol_adj(GridKind::Cartesian), "spherical": tol_adj(GridKind::Spherical), "polar/cylindrical": tol_adj(GridKind::Polar)},
                          "central_difference": {"cartesian(1-3D)/periodic": tol_fd(GridKind::Cartesian), "spherical": tol_fd(GridKind::Spherical), "polar/cylindrical": tol_fd(GridKind::Polar)},
                          "newton": TOL_NEWTON, "bonds": TOL_BONDS, "matrix": TOL_MATRIX}})
}
