//! Functional configurations of C17 (all built through the public API) and the profile / perturbation shapes
//! the property quantifies over (tanh interfaces, oscillating pore-like profiles, smooth bumps away from the boundary).
use feos::gc_pcsaft::{GcPcSaftFunctional, GcPcSaftFunctionalParameters};
use feos::hard_sphere::{FMTFunctional, FMTVersion};
use feos::pcsaft::{PcSaftFunctional, PcSaftParameters};
use feos::pets::{PetsFunctional, PetsParameters, PetsRecord};
use feos::saftvrqmie::{SaftVRQMieFunctional, SaftVRQMieParameters};
use feos_core::parameter::{Identifier, IdentifierOption, Parameter, ParameterHetero, PureRecord};
use feos_core::{ReferenceSystem, Residual};
use feos_dft::{Axis, Grid, HelmholtzEnergyFunctional};
use feos_verif::configs::{params, Rng};
use ndarray::{Array1, Array2};
use quantity::Length;
use std::sync::Arc;

#[derive(Clone, Debug)]
pub struct FCfg {
    pub name: String,
    /// reduced temperature (K for the SAFT models, irrelevant for FMT)
    pub t: f64,
    /// composition (components)
    pub x: Vec<f64>,
    /// total density (1/A^3) per unit packing fraction
    pub rho_per_eta: f64,
    /// length scale (A) of a segment diameter
    pub sigma: f64,
    pub core: bool,
    /// chain / heterosegmented (bond integrals are exercised)
    pub chain: bool,
    /// part of the quick 2-D / 3-D grid search (configurations with multi-segment vector weighted densities)
    pub nd: bool,
    /// also on the cylindrical grid in the quick tier
    pub cyl: bool,
}

pub trait Visitor {
    fn visit<F: HelmholtzEnergyFunctional + 'static>(&mut self, cfg: &FCfg, f: &Arc<F>);
}

fn pcsaft(names: &[&str], file: &str, version: Option<FMTVersion>) -> Arc<PcSaftFunctional> {
    let p = Arc::new(
        PcSaftParameters::from_json(names.to_vec(), format!("{}/pcsaft/{file}", params()), None, IdentifierOption::Name)
            .unwrap(),
    );
    Arc::new(match version {
        None => PcSaftFunctional::new(p),
        Some(v) => PcSaftFunctional::new_full(p, v),
    })
}

fn pets(n: usize) -> Arc<PetsFunctional> {
    let sig = [3.4, 3.63];
    let eps = [120.0, 165.0];
    let recs: Vec<_> = (0..n)
        .map(|i| PureRecord::new(Identifier::default(), 39.948 + 40.0 * i as f64, PetsRecord::new(sig[i], eps[i], None, None, None)))
        .collect();
    let kij = if n > 1 {
        let mut k = Array2::from_elem((n, n), feos::pets::PetsBinaryRecord::from(0.0));
        k[[0, 1]] = feos::pets::PetsBinaryRecord::from(0.02);
        k[[1, 0]] = feos::pets::PetsBinaryRecord::from(0.02);
        Some(k)
    } else {
        None
    };
    Arc::new(PetsFunctional::new(Arc::new(PetsParameters::from_records(recs, kij).unwrap())))
}

pub fn gc(names: &[&str]) -> Arc<GcPcSaftFunctional> {
    let p = GcPcSaftFunctionalParameters::from_json_segments(
        names,
        format!("{}/pcsaft/gc_substances.json", params()),
        format!("{}/pcsaft/sauer2014_hetero.json", params()),
        None,
        IdentifierOption::Name,
    )
    .unwrap();
    Arc::new(GcPcSaftFunctional::new(Arc::new(p)))
}

fn saftvrq(names: &[&str]) -> Arc<SaftVRQMieFunctional> {
    let p = SaftVRQMieParameters::from_json(
        names.to_vec(),
        format!("{}/saftvrqmie/aasen2019.json", params()),
        None,
        IdentifierOption::Name,
    )
    .unwrap();
    Arc::new(SaftVRQMieFunctional::new(Arc::new(p)))
}

fn cfg_saft<F: HelmholtzEnergyFunctional>(name: &str, f: &Arc<F>, t: f64, x: &[f64], sigma: f64, core: bool, chain: bool) -> FCfg {
    // compute_max_density: total density at the model's max_eta (0.5 for all SAFT-type functionals here)
    let rho_max = f.compute_max_density(&Array1::from_vec(x.to_vec()));
    FCfg { name: name.into(), t, x: x.to_vec(), rho_per_eta: rho_max / 0.5, sigma, core, chain, nd: false, cyl: false }
}

fn cfg_fmt(name: &str, sigma: &[f64], x: &[f64], core: bool) -> FCfg {
    let s3: f64 = sigma.iter().zip(x).map(|(s, x)| x * s.powi(3)).sum();
    FCfg {
        name: name.into(),
        t: 1.0,
        x: x.to_vec(),
        rho_per_eta: 6.0 / std::f64::consts::PI / s3,
        sigma: sigma[0],
        core,
        chain: false,
        nd: false,
        cyl: false,
    }
}

pub fn for_each(full: bool, only: Option<&str>, v: &mut impl Visitor) {
    for_each_sel(full, only, false, v)
}

/// the configurations of the support search: the core ones plus those marked for the 2-D / 3-D grids
pub fn for_each_support(full: bool, only: Option<&str>, v: &mut impl Visitor) {
    for_each_sel(full, only, true, v)
}

fn for_each_sel(full: bool, only: Option<&str>, with_nd: bool, v: &mut impl Visitor) {
    // configurations with component-wise vector weighted densities for more than one segment (association in mixtures /
    // heterosegmented molecules, SAFT-VRQ Mie non-additive hard spheres in mixtures) and FMT vector weights in a mixture
    let nd_names = ["fmt_wb_mix", "pcsaft_water_methanol", "gc_isobutane_ethanol", "saftvrq_h2_ne"];
    let cyl_names = ["pcsaft_water_methanol"];
    macro_rules! go {
        ($cfg:expr, $f:expr) => {{
            let mut c: FCfg = $cfg;
            c.nd = nd_names.contains(&c.name.as_str());
            c.cyl = cyl_names.contains(&c.name.as_str());
            let sel = match only {
                Some(o) => c.name == o,
                None => full || c.core || (with_nd && c.nd),
            };
            if sel {
                v.visit(&c, &$f);
            }
        }};
    }
    use FMTVersion::*;
    let fmt = |ver, s: &[f64]| Arc::new(FMTFunctional::new(&Array1::from_vec(s.to_vec()), ver));
    go!(cfg_fmt("fmt_wb_pure", &[1.0], &[1.0], true), fmt(WhiteBear, &[1.0]));
    go!(cfg_fmt("fmt_wb_mix", &[1.0, 0.7], &[0.4, 0.6], true), fmt(WhiteBear, &[1.0, 0.7]));
    go!(cfg_fmt("fmt_kr_mix", &[1.0, 0.7], &[0.4, 0.6], true), fmt(KierlikRosinberg, &[1.0, 0.7]));
    go!(cfg_fmt("fmt_aswb_pure", &[1.0], &[1.0], false), fmt(AntiSymWhiteBear, &[1.0]));
    go!(cfg_fmt("fmt_aswb_mix", &[1.0, 0.7], &[0.4, 0.6], true), fmt(AntiSymWhiteBear, &[1.0, 0.7]));
    go!(cfg_fmt("fmt_kr_pure", &[1.0], &[1.0], false), fmt(KierlikRosinberg, &[1.0]));
    {
        let f = pcsaft(&["propane"], "gross2001.json", None);
        go!(cfg_saft("pcsaft_propane", &f, 250.0, &[1.0], 3.6, true, true), f);
    }
    {
        let f = pcsaft(&["propane"], "gross2001.json", Some(KierlikRosinberg));
        go!(cfg_saft("pcsaft_propane_kr", &f, 250.0, &[1.0], 3.6, false, true), f);
    }
    {
        let f = pcsaft(&["propane", "butane"], "gross2001.json", None);
        go!(cfg_saft("pcsaft_propane_butane", &f, 280.0, &[0.45, 0.55], 3.6, true, true), f);
    }
    {
        let f = pcsaft(&["water"], "gross2002.json", None);
        go!(cfg_saft("pcsaft_water", &f, 400.0, &[1.0], 3.0, true, false), f);
    }
    {
        let f = pcsaft(&["water"], "gross2002.json", Some(KierlikRosinberg));
        go!(cfg_saft("pcsaft_water_kr", &f, 400.0, &[1.0], 3.0, false, false), f);
    }
    {
        let f = pcsaft(&["water", "methanol"], "gross2002.json", None);
        go!(cfg_saft("pcsaft_water_methanol", &f, 380.0, &[0.5, 0.5], 3.0, false, true), f);
    }
    {
        let f = pcsaft(&["acetone", "butanone"], "gross2006.json", None);
        go!(cfg_saft("pcsaft_acetone_butanone", &f, 350.0, &[0.5, 0.5], 3.4, false, true), f);
    }
    {
        let f = pets(1);
        go!(cfg_saft("pets1", &f, 100.0, &[1.0], 3.4, true, false), f);
    }
    {
        let f = pets(2);
        go!(cfg_saft("pets2", &f, 120.0, &[0.5, 0.5], 3.5, false, false), f);
    }
    {
        let f = gc(&["propane"]);
        go!(cfg_saft("gc_propane", &f, 250.0, &[1.0], 3.7, true, true), f);
    }
    {
        let f = gc(&["isobutane", "ethanol"]);
        go!(cfg_saft("gc_isobutane_ethanol", &f, 300.0, &[0.5, 0.5], 3.6, false, true), f);
    }
    {
        let f = saftvrq(&["hydrogen"]);
        go!(cfg_saft("saftvrq_h2", &f, 25.0, &[1.0], 3.0, false, false), f);
    }
    {
        let f = saftvrq(&["hydrogen", "neon"]);
        go!(cfg_saft("saftvrq_h2_ne", &f, 30.0, &[0.5, 0.5], 2.9, false, false), f);
    }
}

// ------------------------------------------------------------------------------------------------
// grids

#[derive(Clone, Copy, Debug, PartialEq)]
pub enum GridKind {
    Cartesian,
    Spherical,
    Polar,
    Cartesian2,
    Cartesian3,
    Cylindrical,
    /// periodic (possibly non-orthogonal) unit cells: `PeriodicConvolver` (complex FFT), used by Pore2D / Pore3D
    Periodical2,
    Periodical3,
}

impl GridKind {
    pub fn periodic(&self) -> bool {
        matches!(self, GridKind::Periodical2 | GridKind::Periodical3)
    }
}

impl GridKind {
    pub fn name(&self) -> &'static str {
        match self {
            GridKind::Cartesian => "cartesian",
            GridKind::Spherical => "spherical",
            GridKind::Polar => "polar",
            GridKind::Cartesian2 => "cartesian2",
            GridKind::Cartesian3 => "cartesian3",
            GridKind::Cylindrical => "cylindrical",
            GridKind::Periodical2 => "periodical2",
            GridKind::Periodical3 => "periodical3",
        }
    }
}

pub fn make_grid(kind: GridKind, points: usize, length: f64) -> Grid {
    let l = Length::from_reduced(length);
    match kind {
        GridKind::Cartesian => Grid::Cartesian1(Axis::new_cartesian(points, l, None)),
        GridKind::Spherical => Grid::Spherical(Axis::new_spherical(points, l)),
        GridKind::Polar => Grid::Polar(Axis::new_polar(points, l)),
        _ => panic!("make_grid: 1-D kinds only"),
    }
}

pub fn make_grid_nd(kind: GridKind, axes: &[(usize, f64)], angles_deg: &[f64]) -> Grid {
    use quantity::DEGREES;
    let cart = |i: usize| Axis::new_cartesian(axes[i].0, Length::from_reduced(axes[i].1), None);
    match kind {
        GridKind::Cartesian | GridKind::Spherical | GridKind::Polar => make_grid(kind, axes[0].0, axes[0].1),
        GridKind::Cartesian2 => Grid::Cartesian2(cart(0), cart(1)),
        GridKind::Cartesian3 => Grid::Cartesian3(cart(0), cart(1), cart(2)),
        GridKind::Cylindrical => Grid::Cylindrical { r: Axis::new_polar(axes[0].0, Length::from_reduced(axes[0].1)), z: cart(1) },
        GridKind::Periodical2 => Grid::Periodical2(cart(0), cart(1), angles_deg[0] * DEGREES),
        GridKind::Periodical3 => {
            Grid::Periodical3(cart(0), cart(1), cart(2), [angles_deg[0] * DEGREES, angles_deg[1] * DEGREES, angles_deg[2] * DEGREES])
        }
    }
}

/// coordinates and integration weights (product of the axes' weights, hook `Axis::verif_integration_weights`) of all grid
/// points in row-major order
pub fn flat_points(grid: &Grid) -> (Vec<Vec<f64>>, Array1<f64>) {
    let axes = grid.axes();
    let mut pts: Vec<Vec<f64>> = vec![vec![]];
    let mut w: Vec<f64> = vec![1.0];
    for ax in axes {
        let aw = ax.verif_integration_weights();
        let mut np = Vec::new();
        let mut nw = Vec::new();
        for (p, wp) in pts.iter().zip(&w) {
            for i in 0..ax.grid.len() {
                let mut q = p.clone();
                q.push(ax.grid[i]);
                np.push(q);
                nw.push(wp * aw[i]);
            }
        }
        pts = np;
        w = nw;
    }
    (pts, Array1::from_vec(w))
}

/// smooth positive modulation along the axes other than the first (1 x points, broadcast over the segments)
pub fn modulation(pts: &[Vec<f64>], lens: &[f64], periodic: bool) -> Array2<f64> {
    // mirror-symmetric at the ends (DCT grids) resp. periodic over the cell (periodic grids)
    let f = if periodic { 2.0 } else { 1.0 };
    Array2::from_shape_fn((1, pts.len()), |(_, k)| {
        (1..lens.len()).map(|d| 1.0 + 0.15 * (f * std::f64::consts::PI * pts[k][d] / lens[d] * (d as f64) + 0.4 * (f - 1.0)).cos()).product::<f64>()
    })
}

/// C-infinity bump in the axes other than the first, supported in the middle 70 % of each of them
pub fn transverse_bump(pts: &[Vec<f64>], lens: &[f64]) -> Array2<f64> {
    Array2::from_shape_fn((1, pts.len()), |(_, k)| {
        (1..lens.len())
            .map(|d| {
                let u = (pts[k][d] - 0.52 * lens[d]) / (0.35 * lens[d]);
                if u.abs() >= 1.0 {
                    0.0
                } else {
                    (1.0 - 1.0 / (1.0 - u * u)).exp()
                }
            })
            .product::<f64>()
    })
}

/// integration weights of a 1-D grid (hook `Axis::verif_integration_weights`, cfg feos_verif)
pub fn weights(grid: &Grid) -> Array1<f64> {
    grid.axes()[0].verif_integration_weights().clone()
}

// ------------------------------------------------------------------------------------------------
// profiles and perturbations

#[derive(Clone, Debug)]
pub struct ProfileSpec {
    pub kind: &'static str,
    pub eta_lo: f64,
    pub eta_hi: f64,
    pub z0: f64,
    pub width: f64,
    pub amp: f64,
    pub wavelength: f64,
    pub decay: f64,
    pub length: f64,
    /// profile exactly uniform within 12 % of the axis length from both ends
    pub flat_ends: bool,
}

pub fn sample_profile(rng: &mut Rng, osc: bool, length: f64, sigma: f64) -> ProfileSpec {
    ProfileSpec {
        kind: if osc { "oscillating" } else { "tanh" },
        eta_lo: rng.log_range(1e-3, 3e-2),
        eta_hi: rng.range(0.25, 0.4),
        z0: length * rng.range(0.4, 0.6),
        width: sigma * rng.range(0.6, 1.5),
        amp: rng.range(0.2, 0.5),
        wavelength: sigma * rng.range(0.9, 1.3),
        decay: sigma * rng.range(2.0, 4.0),
        length,
        flat_ends: std::env::var("C17_RAW_ENDS").is_err(),
    }
}

/// C-infinity monotone map of the axis onto [a, b] that is constant outside [a, b]: composed with it, a profile is
/// exactly uniform (bulk) next to both ends of the axis, which is what the curvilinear convolvers assume at the outer end
pub fn flatten(z: f64, a: f64, b: f64) -> f64 {
    let u = (z - a) / (b - a);
    if u <= 0.0 {
        a
    } else if u >= 1.0 {
        b
    } else {
        let h = |x: f64| (-1.0 / x).exp();
        a + (b - a) * h(u) / (h(u) + h(1.0 - u))
    }
}

/// packing fraction as a function of the coordinate
pub fn eta_at(p: &ProfileSpec, z: f64) -> f64 {
    let z = if p.flat_ends && p.kind != "periodic" { flatten(z, 0.12 * p.length, 0.88 * p.length) } else { z };
    if p.kind == "periodic" {
        // smooth, positive and periodic over the axis length (two lamellae per cell)
        let x = 2.0 * std::f64::consts::PI * (z - p.z0) / p.length;
        0.55 * p.eta_hi * (1.0 + p.amp * x.cos() + 0.5 * p.amp * (2.0 * x).sin())
    } else if p.kind == "tanh" {
        p.eta_lo + (p.eta_hi - p.eta_lo) * 0.5 * (1.0 + ((z - p.z0) / p.width).tanh())
    } else {
        let avg = 0.6 * p.eta_hi;
        avg * (1.0 + p.amp * (2.0 * std::f64::consts::PI * z / p.wavelength).cos() * (-z / p.decay).exp())
    }
}

/// segment density profile (segments x grid): every segment carries the density of its component
pub fn density_profile<F: HelmholtzEnergyFunctional>(f: &F, c: &FCfg, p: &ProfileSpec, z: &Array1<f64>) -> Array2<f64> {
    let ci = f.component_index().into_owned();
    Array2::from_shape_fn((ci.len(), z.len()), |(s, k)| {
        // a slightly different interface position per component so that mixtures are not proportional profiles
        let shift = 0.15 * c.sigma * ci[s] as f64;
        eta_at(p, z[k] - shift) * c.rho_per_eta * c.x[ci[s]]
    })
}

#[derive(Clone, Debug)]
pub struct BumpSpec {
    pub centre: f64,
    pub half_width: f64,
    /// relative amplitude and wave number per segment
    pub amp: Vec<f64>,
    pub waves: Vec<f64>,
}

pub fn sample_bump(rng: &mut Rng, segments: usize, length: f64) -> BumpSpec {
    BumpSpec {
        centre: length * rng.range(0.4, 0.6),
        half_width: length * rng.range(0.15, 0.25),
        amp: (0..segments).map(|_| rng.range(0.3, 1.0) * if rng.f64() < 0.5 { -1.0 } else { 1.0 }).collect(),
        waves: (0..segments).map(|_| rng.range(0.0, 2.0)).collect(),
    }
}

/// smooth (C-infinity) perturbation with compact support inside (centre - h, centre + h): away from the boundary
pub fn bump(b: &BumpSpec, scale: &[f64], z: &Array1<f64>) -> Array2<f64> {
    Array2::from_shape_fn((b.amp.len(), z.len()), |(s, k)| {
        let u = (z[k] - b.centre) / b.half_width;
        if u.abs() >= 1.0 {
            0.0
        } else {
            scale[s] * b.amp[s] * (1.0 - 1.0 / (1.0 - u * u)).exp() * (b.waves[s] * std::f64::consts::PI * u).cos()
        }
    })
}
