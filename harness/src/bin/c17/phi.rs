//! Part 1 (route T): trace `helmholtz_energy_density<Sym>` per grid point, emit derivative-program obligations,
//! record what the real `first_partial_derivatives` / `second_partial_derivatives` return at the same points.
use crate::funcs::{self, FCfg, GridKind, Visitor};
use feos_dft::{Convolver, ConvolverFFT, FunctionalContribution, HelmholtzEnergyFunctional};
use feos_verif::cli::Cli;
use feos_verif::configs::Rng;
use feos_verif::emit;
use feos_verif::prog::{compare, extract, Prog};
use feos_verif::sym::{self, Sym};
use feos_verif::trace::fxhash;
use ndarray::{Array1, Array2, Array3, Ix1};
use serde_json::{json, Value};
use std::sync::Arc;

pub const PREC: i64 = 100;

/// phi(T, n_0..n_{nwd-1}) of one contribution at one grid point, as the code computes it
fn trace_phi<C: FunctionalContribution, const K: usize>(c: &C, t: f64, wd: &[f64]) -> Option<Prog> {
    sym::reset();
    let ts: Sym<K> = sym::var(0, t);
    let arr = Array2::from_shape_fn((wd.len(), 1), |(i, _)| sym::var::<K>(1 + i as u32, wd[i]));
    let r = std::panic::catch_unwind(std::panic::AssertUnwindSafe(|| c.helmholtz_energy_density(ts, arr.view())));
    let phi = match r {
        Ok(Ok(p)) => p,
        _ => {
            sym::take();
            return None;
        }
    };
    let outs = vec![("phi".to_string(), phi[0].0)];
    let tr = sym::take();
    Some(extract(&tr, 1 + wd.len(), &outs))
}

pub struct Group {
    pub prog: Prog,
    /// (sample index, constant table of the deduplicated program at that sample)
    pub members: Vec<(usize, Vec<f64>)>,
    pub leaks: Vec<usize>,
    pub leak_values: Vec<(f64, f64)>,
    /// the trace at a different temperature has the same shape (then temperature leaks were looked for)
    pub t_shape_same: bool,
}

/// trace at every sample; one program per distinct trace shape; constants that differ between two traces of
/// the same shape (other sample / other temperature) are state-dependent f64 values that were re-injected
fn build_groups<C: FunctionalContribution, const K: usize>(c: &C, t: f64, samples: &[Vec<f64>]) -> (Vec<Group>, Vec<usize>) {
    let mut raw: Vec<(Prog, Vec<(usize, Prog)>)> = Vec::new();
    let mut failed = Vec::new();
    for (si, wd) in samples.iter().enumerate() {
        let Some(p) = trace_phi::<C, K>(c, t, wd) else {
            failed.push(si);
            continue;
        };
        let mut placed = false;
        for (r, mem) in raw.iter_mut() {
            if compare(r, &p).same_shape {
                mem.push((si, p.clone()));
                placed = true;
                break;
            }
        }
        if !placed {
            raw.push((p.clone(), vec![(si, p)]));
        }
    }
    let mut groups = Vec::new();
    for (r, mem) in raw {
        let mut leaks: Vec<usize> = Vec::new();
        let mut leak_values = Vec::new();
        let note = |other: &Prog, leaks: &mut Vec<usize>, lv: &mut Vec<(f64, f64)>| {
            for i in compare(&r, other).leaks {
                if !leaks.contains(&i) {
                    leaks.push(i);
                    lv.push((r.consts[i], other.consts[i]));
                }
            }
        };
        for (_, p) in &mem {
            note(p, &mut leaks, &mut leak_values);
        }
        // the same point at another temperature and slightly different weighted densities
        let s0 = &samples[mem[0].0];
        let wd2: Vec<f64> = s0.iter().enumerate().map(|(i, x)| x * (1.0 + 0.003 * (1 + i % 3) as f64)).collect();
        let mut t_shape_same = false;
        if let Some(p2) = trace_phi::<C, K>(c, t * 1.0625, &wd2) {
            if compare(&r, &p2).same_shape {
                t_shape_same = true;
                note(&p2, &mut leaks, &mut leak_values);
            }
        }
        leaks.sort();
        let mut prog = r.clone();
        let remap = prog.dedup_consts_keep(&leaks);
        let members = mem
            .iter()
            .map(|(si, p)| {
                let mut cs = prog.consts.clone();
                for (i, v) in p.consts.iter().enumerate() {
                    cs[remap[i] as usize] = *v;
                }
                (*si, cs)
            })
            .collect();
        groups.push(Group { prog, members, leaks, leak_values, t_shape_same });
    }
    (groups, failed)
}

const BODY_1: &str = r#"
Definition P_n := (P_nvars + List.length P_consts)%nat.
Definition P_u (k : nat) : list (Z * Z) := map (fun j => if Nat.eqb j k then (1, 0)%Z else (0, 0)%Z) (seq 0 P_n).
Definition P_dirs := seq 1 (P_nvars - 1).
Definition P_D1 := tan_outs P_prog P_n [0%nat].
Eval vm_compute in ("LEAKS", "P", P_nleaks).
Eval vm_compute in ("E0", "P", map (fun st => ib_out (nth 0 (evalIB PREC P_prog st) IB.nai)) P_inputs).
Eval vm_compute in ("E1", "P", let d := P_D1 in map (fun st => map (fun i => ib_out (nth 0 (evalIB PREC d (st ++ P_u i)) IB.nai)) P_dirs) P_inputs).
Eval vm_compute in ("N0", "P", map (fun st => ib_out (nth 0 (evalIB 53%Z P_prog st) IB.nai)) P_inputs).
Eval vm_compute in ("N1", "P", let d := P_D1 in map (fun st => map (fun i => ib_out (nth 0 (evalIB 53%Z d (st ++ P_u i)) IB.nai)) P_dirs) P_inputs).
Lemma P_scoped : wscoped P_prog P_n = true.
Proof. vm_compute. reflexivity. Qed.
Lemma P_inputs_length : forallb (fun st => Nat.eqb (List.length st) P_n) P_inputs = true.
Proof. vm_compute. reflexivity. Qed.
Definition P_order1 a e r Ha He := C17_partial_derivative P_prog P_n [0%nat] a e r Ha He P_scoped.
Check P_order1.
"#;

const BODY_2: &str = r#"
Definition Q_n := (Q_nvars + List.length Q_consts)%nat.
Definition Q_u (k : nat) : list (Z * Z) := map (fun j => if Nat.eqb j k then (1, 0)%Z else (0, 0)%Z) (seq 0 Q_n).
Definition Q_z : list (Z * Z) := repeat (0, 0)%Z Q_n.
Definition Q_dirs := seq 1 (Q_nvars - 1).
Definition Q_pairs := flat_map (fun i => map (fun j => (i, j)) (seq i (Q_nvars - i))) Q_dirs.
Definition Q_D1 := tan_outs Q_prog Q_n [0%nat].
Definition Q_D2 := tan_outs Q_D1 (2 * Q_n) [0%nat].
Eval vm_compute in ("SIZES2", "P", (N.of_nat (List.length Q_prog), N.of_nat (List.length Q_D1), N.of_nat (List.length Q_D2))).
Eval vm_compute in ("E2", "P", let d := Q_D2 in map (fun st => map (fun ij => ib_out (nth 0 (evalIB PREC d ((st ++ Q_u (fst ij)) ++ (Q_u (snd ij) ++ Q_z))) IB.nai)) Q_pairs) Q_inputs).
Eval vm_compute in ("N2", "P", let d := Q_D2 in map (fun st => map (fun ij => ib_out (nth 0 (evalIB 53%Z d ((st ++ Q_u (fst ij)) ++ (Q_u (snd ij) ++ Q_z))) IB.nai)) Q_pairs) Q_inputs).
Lemma Q_scoped : wscoped Q_prog Q_n = true.
Proof. vm_compute. reflexivity. Qed.
Lemma Q_D1_scoped : wscoped Q_D1 (2 * Q_n) = true.
Proof. vm_compute. reflexivity. Qed.
Definition Q_order2 a e r Ha He := C17_partial_derivative Q_D1 (2 * Q_n) [0%nat] a e r Ha He Q_D1_scoped.
Check Q_order2.
"#;

fn inputs_def(name: &str, t: f64, samples: &[Vec<f64>], members: &[(usize, Vec<f64>)]) -> String {
    let rows: Vec<String> = members
        .iter()
        .map(|(si, cs)| {
            let mut x = vec![t];
            x.extend(&samples[*si]);
            x.extend(cs);
            emit::dy_list(&x)
        })
        .collect();
    format!("Definition {} : list (list (Z * Z)) := [{}].\n", name, rows.join(";\n "))
}

/// everything about one contribution: Coq text + json
fn process<C: FunctionalContribution>(c: &C, t: f64, samples: &[Vec<f64>], lim2: usize) -> (String, Value) {
    let nwd = samples[0].len();
    let k = samples.len();
    let (g1, failed1) = build_groups::<C, 1>(c, t, samples);
    let (g2, failed2) = build_groups::<C, 2>(c, t, samples);
    let part = |g: &[Group]| g.iter().map(|x| x.members.iter().map(|m| m.0).collect::<Vec<_>>()).collect::<Vec<_>>();
    let same_partition = part(&g1) == part(&g2) && failed1 == failed2;
    let mut v = emit::header(&["ProgSem", "ProgSemBig", "AD"]);
    v.push_str("From FeosProps Require Import C17.\nOpen Scope list_scope.\n");
    let mut groups = Vec::new();
    for (gi, g) in g1.iter().enumerate() {
        let pn = format!("P{gi}");
        let qn = format!("Q{gi}");
        v.push_str(&g.prog.emit_coq(&pn));
        v.push_str(&format!("Definition {pn}_nleaks : N := {}%N.\n", g.leaks.len()));
        v.push_str(&inputs_def(&format!("{pn}_inputs"), t, samples, &g.members));
        v.push_str(&BODY_1.replace("PREC", &format!("{PREC}%Z")).replace("\"P\"", &format!("\"{pn}\"")).replace("P_", &format!("{pn}_")));
        if g.leaks.is_empty() {
            v.push_str(&format!("Lemma {pn}_closed : {pn}_nleaks = 0%N.\nProof. reflexivity. Qed.\n"));
        }
        let ninstr = g.prog.instrs.len();
        let mut order2 = false;
        let mut identical_k = false;
        if same_partition && ninstr <= lim2 {
            let q = &g2[gi];
            identical_k = q.prog.instrs == g.prog.instrs && q.leaks.is_empty() && g.leaks.is_empty();
            v.push_str(&q.prog.emit_coq(&qn));
            v.push_str(&inputs_def(&format!("{qn}_inputs"), t, samples, &q.members));
            v.push_str(&BODY_2.replace("PREC", &format!("{PREC}%Z")).replace("\"P\"", &format!("\"{pn}\"")).replace("Q_", &format!("{qn}_")));
            order2 = true;
        }
        groups.push(json!({
            "name": pn, "ninstr": ninstr, "nconsts": g.prog.consts.len(), "leaks": g.leaks, "leak_values": g.leak_values,
            "members": g.members.iter().map(|m| m.0).collect::<Vec<_>>(), "order2": order2,
            "programs_identical_for_dual_and_hyperdual": identical_k,
            "n_re": g.prog.re_events.len(), "n_cmp": g.prog.cmp_events.len(),
            "t_shape_same": g.t_shape_same, "unsupported": g.prog.unsupported,
            "ninstr_k2": if same_partition { json!(g2[gi].prog.instrs.len()) } else { Value::Null },
            "leaks_k2": if same_partition { json!(g2[gi].leaks) } else { Value::Null },
        }));
    }
    // what the implementation returns (Dual seeds / HyperDual seeds), all samples at once like the real call
    let wd = Array2::from_shape_fn((nwd, k), |(a, s)| samples[s][a]);
    let mut phi = Array1::zeros(k);
    let mut pd = Array2::zeros((nwd, k));
    let r1 = std::panic::catch_unwind(std::panic::AssertUnwindSafe(|| {
        c.first_partial_derivatives(t, wd.clone(), phi.view_mut(), pd.view_mut()).is_ok()
    }))
    .unwrap_or(false);
    let mut phi2 = Array1::zeros(k);
    let mut pd1b = Array2::zeros((nwd, k));
    let mut pd2 = Array3::zeros((nwd, nwd, k));
    let r2 = std::panic::catch_unwind(std::panic::AssertUnwindSafe(|| {
        c.second_partial_derivatives(t, wd.view(), phi2.view_mut(), pd1b.view_mut(), pd2.view_mut()).is_ok()
    }))
    .unwrap_or(false);
    // conditioning of the implementation's own f64 evaluation at these points: the largest change of every reported
    // quantity when one input (T or one weighted density) is moved by one unit in the last place.  Where the evaluation is
    // ill conditioned (e.g. ln of 1 + O(1e-7) in the chain term next to vacuum) the f64 result cannot be more accurate than
    // that, whatever the formula; a wrong formula is off by O(1) relative and is unaffected by this allowance.
    let mut n_phi = Array1::<f64>::zeros(k);
    let mut n_pd = Array2::<f64>::zeros((nwd, k));
    let mut n_pd2 = Array3::<f64>::zeros((nwd, nwd, k));
    let ulp = f64::EPSILON;
    for dir in 0..=nwd {
        for sign in [1.0, -1.0] {
            let mut wdp = wd.clone();
            let mut tp = t;
            if dir == 0 {
                tp = t * (1.0 + sign * ulp);
            } else {
                wdp.row_mut(dir - 1).mapv_inplace(|x| x * (1.0 + sign * ulp));
            }
            let mut p1 = Array1::zeros(k);
            let mut q1 = Array2::zeros((nwd, k));
            let ok1 = std::panic::catch_unwind(std::panic::AssertUnwindSafe(|| {
                c.first_partial_derivatives(tp, wdp.clone(), p1.view_mut(), q1.view_mut()).is_ok()
            }))
            .unwrap_or(false);
            let mut p2 = Array1::zeros(k);
            let mut q1b = Array2::zeros((nwd, k));
            let mut q2 = Array3::zeros((nwd, nwd, k));
            let ok2 = std::panic::catch_unwind(std::panic::AssertUnwindSafe(|| {
                c.second_partial_derivatives(tp, wdp.view(), p2.view_mut(), q1b.view_mut(), q2.view_mut()).is_ok()
            }))
            .unwrap_or(false);
            let upd = |n: &mut f64, a: f64, b: f64| {
                let d = (a - b).abs();
                if d.is_finite() && d > *n {
                    *n = d;
                }
            };
            for s in 0..k {
                if ok1 && r1 {
                    upd(&mut n_phi[s], p1[s], phi[s]);
                    for a in 0..nwd {
                        upd(&mut n_pd[[a, s]], q1[[a, s]], pd[[a, s]]);
                    }
                }
                if ok2 && r2 {
                    upd(&mut n_phi[s], p2[s], phi2[s]);
                    for a in 0..nwd {
                        upd(&mut n_pd[[a, s]], q1b[[a, s]], pd1b[[a, s]]);
                        for b in 0..nwd {
                            upd(&mut n_pd2[[a, b, s]], q2[[a, b, s]], pd2[[a, b, s]]);
                        }
                    }
                }
            }
        }
    }
    let f = |x: f64| if x.is_finite() { json!(x) } else { Value::Null };
    let imp = json!({
        "ok1": r1, "ok2": r2,
        "phi": phi.iter().map(|x| f(*x)).collect::<Vec<_>>(),
        "pd": (0..k).map(|s| (0..nwd).map(|a| f(pd[[a, s]])).collect::<Vec<_>>()).collect::<Vec<_>>(),
        "phi_hd": phi2.iter().map(|x| f(*x)).collect::<Vec<_>>(),
        "pd_hd": (0..k).map(|s| (0..nwd).map(|a| f(pd1b[[a, s]])).collect::<Vec<_>>()).collect::<Vec<_>>(),
        "pd2": (0..k).map(|s| (0..nwd).map(|a| (0..nwd).map(|b| f(pd2[[a, b, s]])).collect::<Vec<_>>()).collect::<Vec<_>>()).collect::<Vec<_>>(),
        "noise": {
            "phi": n_phi.to_vec(),
            "pd": (0..k).map(|s| (0..nwd).map(|a| n_pd[[a, s]]).collect::<Vec<_>>()).collect::<Vec<_>>(),
            "pd2": (0..k).map(|s| (0..nwd).map(|a| (0..nwd).map(|b| n_pd2[[a, b, s]]).collect::<Vec<_>>()).collect::<Vec<_>>()).collect::<Vec<_>>(),
        },
    });
    let js = json!({
        "nwd": nwd, "groups": groups, "trace_failed": failed1, "same_partition_k1_k2": same_partition,
        "samples": samples, "impl": imp,
    });
    (v, js)
}

struct PhiVisitor<'a> {
    cli: &'a Cli,
    results: Vec<Value>,
}

impl<'a> Visitor for PhiVisitor<'a> {
    fn visit<F: HelmholtzEnergyFunctional + 'static>(&mut self, c: &FCfg, f: &Arc<F>) {
        let full = self.cli.full();
        let mut rng = Rng(self.cli.seed ^ fxhash(&c.name) ^ 0xC17);
        let npts = 64;
        let length = 14.0 * c.sigma;
        let grid = funcs::make_grid(GridKind::Cartesian, npts, length);
        let z = grid.grids()[0].clone();
        let wf = f.weight_functions(c.t);
        let conv: Arc<dyn Convolver<f64, Ix1>> = ConvolverFFT::plan(&grid, &wf, None);
        // a tanh interface, an oscillating profile and a tanh interface against near-vacuum (reaches the low-density
        // branches of the functionals: n3 / n0 cut-offs, Taylor expansions)
        let mut dilute = funcs::sample_profile(&mut rng, false, length, c.sigma);
        dilute.eta_lo = rng.log_range(1e-9, 1e-7);
        let profs = [funcs::sample_profile(&mut rng, false, length, c.sigma), funcs::sample_profile(&mut rng, true, length, c.sigma), dilute];
        let wds: Vec<Vec<Array2<f64>>> = profs
            .iter()
            .map(|p| conv.weighted_densities(&funcs::density_profile(f.as_ref(), c, p, &z)))
            .collect();
        let per_profile = if full { 3 } else { 2 };
        // grid points: spread over the interface region / the oscillations
        let mut pts: Vec<(usize, usize)> = Vec::new();
        for (pi, _) in profs.iter().enumerate().take(2) {
            for _ in 0..per_profile {
                pts.push((pi, npts / 8 + rng.below(3 * npts / 4)));
            }
        }
        // the dilute side (uniform part next to the low-density end) and the foot of the interface of the third profile
        pts.push((2, npts / 16));
        pts.push((2, npts / 4 + rng.below(npts / 8)));
        let lim2 = if full { 3000 } else { 900 };
        for (ci, contrib) in f.contributions().enumerate() {
            let nwd = wds[0][ci].shape()[0];
            let samples: Vec<Vec<f64>> = pts.iter().map(|(pi, k)| (0..nwd).map(|a| wds[*pi][ci][[a, *k]]).collect()).collect();
            let wd_scale: Vec<f64> =
                (0..nwd).map(|a| wds.iter().map(|w| w[ci].row(a).iter().fold(0.0f64, |m, x| m.max(x.abs()))).fold(0.0, f64::max)).collect();
            let (coq, mut js) = process(&contrib, c.t, &samples, lim2);
            let file = format!("{}__c{}", c.name, ci);
            std::fs::write(format!("{}/{}.v", self.cli.out, file), coq).unwrap();
            js["config"] = json!(c.name);
            js["contribution"] = json!(contrib.to_string());
            js["index"] = json!(ci);
            js["file"] = json!(file);
            js["t"] = json!(c.t);
            js["wd_scale"] = json!(wd_scale);
            js["points"] = json!(pts.iter().map(|(pi, k)| json!({"profile": profs[*pi].kind, "grid_index": k, "z": z[*k]})).collect::<Vec<_>>());
            self.results.push(js);
        }
    }
}

pub fn run(cli: &Cli, only: Option<&str>) -> Value {
    let mut v = PhiVisitor { cli, results: Vec::new() };
    funcs::for_each(cli.full(), only, &mut v);
    json!({"prec": PREC, "contributions": v.results})
}
