use feos_verif::cli::Cli;
use serde_json::{json, Value};
pub fn run(_cli: &Cli) -> Value { json!({}) }
