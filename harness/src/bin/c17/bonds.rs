//! Part 2 (route H tie of `BondGraphC17`): the REAL `HelmholtzEnergyFunctional::bond_integrals` on molecule graphs that are
//! fed through the real gc-PC-SAFT parameter path (`ChemicalRecord` -> `GcPcSaftFunctionalParameters::from_segments`),
//! observed through a recording `Convolver`: every `convolve` call returns a profile filled with a fresh prime, the
//! "exponential" of segment s is another prime, so the argument of every call factors uniquely into (target segment,
//! messages used) and the final product per segment tells the source of every message.
use feos::gc_pcsaft::{GcPcSaftFunctional, GcPcSaftFunctionalParameters, GcPcSaftRecord};
use feos_core::parameter::{ChemicalRecord, Identifier, ParameterHetero, SegmentRecord};
use feos_dft::{Convolver, HelmholtzEnergyFunctional, WeightFunction};
use feos_verif::cli::Cli;
use feos_verif::configs::{params, Rng};
use ndarray::{Array1, Array2, Ix1};
use serde_json::{json, Value};
use std::sync::{Arc, Mutex};

fn primes(k: usize) -> Vec<u64> {
    let mut v = Vec::new();
    let mut c = 2u64;
    while v.len() < k {
        if v.iter().all(|p| c % p != 0) {
            v.push(c);
        }
        c += 1;
    }
    v
}

struct Recorder {
    nseg: usize,
    primes: Vec<u64>,
    /// (argument value, returned prime) per call
    log: Mutex<Vec<(f64, u64)>>,
}

impl Convolver<f64, Ix1> for Recorder {
    fn convolve(&self, profile: Array1<f64>, _wf: &WeightFunction<f64>) -> Array1<f64> {
        let mut log = self.log.lock().unwrap();
        let q = self.primes[self.nseg + log.len()];
        log.push((profile[0], q));
        Array1::from_elem(profile.len(), q as f64)
    }
    fn weighted_densities(&self, _: &Array2<f64>) -> Vec<Array2<f64>> {
        unreachable!()
    }
    fn functional_derivative(&self, _: &[Array2<f64>]) -> Array2<f64> {
        unreachable!()
    }
}

/// one molecule per entry: (number of segments, bonds)
pub struct Case {
    pub name: String,
    pub molecules: Vec<(usize, Vec<[usize; 2]>)>,
}

impl Case {
    /// global numbering as `from_segments` builds it
    fn flat(&self) -> (usize, Vec<(usize, usize)>) {
        let mut off = 0;
        let mut bs = Vec::new();
        for (n, b) in &self.molecules {
            for x in b {
                bs.push((off + x[0], off + x[1]));
            }
            off += n;
        }
        (off, bs)
    }
}

fn random_molecule(rng: &mut Rng, n: usize, cyc: bool) -> (usize, Vec<[usize; 2]>) {
    // random labelled tree: random attachment + random relabelling + random orientation + shuffled bond order
    let mut perm: Vec<usize> = (0..n).collect();
    for i in (1..n).rev() {
        perm.swap(i, rng.below(i + 1));
    }
    let mut b: Vec<[usize; 2]> = Vec::new();
    for i in 1..n {
        let p = rng.below(i);
        b.push(if rng.f64() < 0.5 { [perm[p], perm[i]] } else { [perm[i], perm[p]] });
    }
    if cyc && n >= 3 {
        // one extra bond between two non-adjacent segments closes a ring
        for _ in 0..20 {
            let (a, c) = (rng.below(n), rng.below(n));
            if a != c && !b.iter().any(|x| (x[0] == a && x[1] == c) || (x[0] == c && x[1] == a)) {
                b.push([a, c]);
                break;
            }
        }
    }
    for i in (1..b.len()).rev() {
        b.swap(i, rng.below(i + 1));
    }
    (n, b)
}

fn observe(case: &Case, segs: &[SegmentRecord<GcPcSaftRecord>]) -> Value {
    let seg_names = ["CH3", "CH2", ">CH", ">C<"];
    let crs: Vec<ChemicalRecord> = case
        .molecules
        .iter()
        .enumerate()
        .map(|(mi, (n, b))| {
            ChemicalRecord::new(
                Identifier::new(None, Some(&format!("mol{mi}")), None, None, None, None),
                (0..*n).map(|i| seg_names[i % 4].to_string()).collect(),
                Some(b.clone()),
            )
        })
        .collect();
    let p = match GcPcSaftFunctionalParameters::from_segments(crs, segs.to_vec(), None) {
        Ok(p) => p,
        Err(e) => return json!({"error": format!("{e}")}),
    };
    let f = GcPcSaftFunctional::new(Arc::new(p));
    let nseg = f.component_index().len();
    let pr = primes(3 * nseg + 4 * nseg);
    let rec = Arc::new(Recorder { nseg, primes: pr.clone(), log: Mutex::new(Vec::new()) });
    let conv: Arc<dyn Convolver<f64, Ix1>> = rec.clone();
    let expo = Array2::from_shape_fn((nseg, 1), |(s, _)| pr[s] as f64);
    let prev = std::panic::take_hook();
    std::panic::set_hook(Box::new(|_| {}));
    let r = std::panic::catch_unwind(std::panic::AssertUnwindSafe(|| f.bond_integrals(300.0, &expo, &conv)));
    std::panic::set_hook(prev);
    let log = rec.log.lock().unwrap().clone();
    let factor = |mut x: u64, ps: &[u64]| -> Vec<usize> {
        let mut out = Vec::new();
        for (i, p) in ps.iter().enumerate() {
            while x % p == 0 {
                x /= p;
                out.push(i);
            }
        }
        assert!(x == 1, "unexpected factor");
        out
    };
    match r {
        Err(e) => {
            let msg = e.downcast_ref::<&str>().map(|s| s.to_string()).or_else(|| e.downcast_ref::<String>().cloned()).unwrap_or_default();
            json!({"panic": msg, "calls_before_panic": log.len()})
        }
        Ok(i) => {
            // source of every call from the final products
            let ncalls = log.len();
            let mut src = vec![usize::MAX; ncalls];
            for s in 0..nseg {
                for c in factor(i[[s, 0]] as u64, &pr[nseg..nseg + ncalls]) {
                    src[c] = s;
                }
            }
            let mut tgt = vec![usize::MAX; ncalls];
            let mut used: Vec<Vec<usize>> = vec![Vec::new(); ncalls];
            for (c, (arg, _)) in log.iter().enumerate() {
                for k in factor(*arg as u64, &pr[..nseg + ncalls]) {
                    if k < nseg {
                        tgt[c] = k;
                    } else {
                        used[c].push(k - nseg);
                    }
                }
            }
            let order: Vec<Value> = (0..ncalls)
                .map(|c| {
                    let mut d: Vec<(usize, usize)> = used[c].iter().map(|u| (src[*u], tgt[*u])).collect();
                    d.sort();
                    json!([[src[c], tgt[c]], d])
                })
                .collect();
            json!({"order": order})
        }
    }
}

pub fn run(cli: &Cli) -> Value {
    let mut rng = Rng(cli.seed ^ 0xB0_C17);
    let segs: Vec<SegmentRecord<GcPcSaftRecord>> =
        SegmentRecord::from_json(format!("{}/pcsaft/sauer2014_hetero.json", params())).unwrap();
    let mut cases = vec![
        Case { name: "propane".into(), molecules: vec![(3, vec![[0, 1], [1, 2]])] },
        Case { name: "isobutane".into(), molecules: vec![(4, vec![[0, 1], [0, 2], [0, 3]])] },
        Case { name: "neopentane".into(), molecules: vec![(5, vec![[1, 0], [2, 0], [0, 3], [0, 4]])] },
        Case { name: "cyclopropane".into(), molecules: vec![(3, vec![[0, 1], [1, 2], [2, 0]])] },
        Case { name: "ring_with_tail".into(), molecules: vec![(4, vec![[0, 1], [1, 2], [2, 0], [2, 3]])] },
        Case { name: "mixture_propane_isobutane".into(), molecules: vec![(3, vec![[0, 1], [1, 2]]), (4, vec![[1, 0], [1, 2], [3, 1]])] },
        Case { name: "ethane".into(), molecules: vec![(2, vec![[1, 0]])] },
    ];
    let nrand = if cli.full() { 60 } else { 16 };
    for k in 0..nrand {
        let nmol = if rng.f64() < 0.25 { 2 } else { 1 };
        let mut molecules = Vec::new();
        for _ in 0..nmol {
            let n = 2 + rng.below(6);
            let cyc = rng.f64() < 0.25;
            molecules.push(random_molecule(&mut rng, n, cyc));
        }
        cases.push(Case { name: format!("random{k}"), molecules });
    }
    let mut v = String::from(
        "(* generated by harness/src/bin/c17/bonds.rs on every run - do not edit *)\nFrom Coq Require Import List Arith String.\nFrom FeosVerif Require Import BondGraphC17.\nFrom FeosProps Require Import C17.\nImport ListNotations.\nSet Printing Width 1000000.\nSet Printing Depth 1000000.\nOpen Scope string_scope.\n",
    );
    let mut out = Vec::new();
    for (k, c) in cases.iter().enumerate() {
        let (n, bs) = c.flat();
        let obs = observe(c, &segs);
        let bl: Vec<String> = bs.iter().map(|(a, b)| format!("({a}, {b})")).collect();
        v.push_str(&format!("Definition g{k}_bonds : list (nat * nat) := [{}].\n", bl.join("; ")));
        v.push_str(&format!("Eval vm_compute in (\"BOND\", {k}, run_described {n} g{k}_bonds).\n"));
        v.push_str(&format!("Eval vm_compute in (\"NSTUCK\", {k}, List.length (stuck_set {n} g{k}_bonds)).\n"));
        if obs.get("order").is_some() {
            v.push_str(&format!(
                "Lemma g{k}_terminates : exists res, run_graph {n} g{k}_bonds = Some res.\nProof. apply C17_bond_tree_terminates; vm_compute; reflexivity. Qed.\n"
            ));
        } else if obs.get("panic").is_some() {
            v.push_str(&format!(
                "Lemma g{k}_panics : run_graph {n} g{k}_bonds = None.\nProof. apply (C17_bond_cycle_panics _ _ (hd 0 (stuck_set {n} g{k}_bonds))); vm_compute; [reflexivity | tauto]. Qed.\n"
            ));
        }
        out.push(json!({"index": k, "name": c.name, "segments": n, "bonds": bs, "observed": obs}));
    }
    std::fs::write(format!("{}/bonds.v", cli.out), v).unwrap();
    json!({"cases": out})
}
