//! C17 — the functional derivative is the derivative of the discretised functional.
//!
//! Part 1 (route T, `phi.rs`): every `FunctionalContribution::helmholtz_energy_density<N>` of every functional
//! configuration is traced per grid point with the recording number type `Sym` into a straight-line program
//! phi(T, n_alpha); the generated Coq file builds the derivative programs `tan_outs` (once and twice), encloses
//! them with the verified interval evaluator at sampled weighted densities (taken from REAL convolutions of
//! tanh / oscillating profiles) and the check compares them with what the real `first_partial_derivatives`
//! (Dual seeds) and `second_partial_derivatives` (HyperDual seeds) return at the same points.
//! Part 2 (`bonds.rs`): the real `bond_integrals` message passing on molecule graphs built through the real
//! gc-PC-SAFT parameter path, observed through a recording `Convolver`, vs. the Coq model `BondGraphC17`.
//! Part 3 (`support.rs`, exploration support of the hypothesis `H_adj` of `FuncDerivC17`): on small real grids
//! adjointness of `weighted_densities` / `functional_derivative`, the central-difference identity for
//! F = sum_k w_k phi_k, and the Newton second-derivative operator (hook) vs. the numerical derivative of the
//! functional derivative, incl. bond integrals.
mod bonds;
mod funcs;
mod phi;
mod support;

use feos_verif::cli::Cli;
use serde_json::json;

fn main() {
    let cli = Cli::parse("/verif/coq/gen/C17");
    let only = cli.opt("--only");
    let part = cli.opt("--part").unwrap_or_else(|| "all".into());
    let search = cli.opt("--search").and_then(|s| s.parse::<usize>().ok());
    let mut out = json!({"property": "C17", "tier": cli.tier, "seed": cli.seed});
    if part == "all" || part == "phi" {
        out["phi"] = phi::run(&cli, only.as_deref());
    }
    if part == "all" || part == "bonds" {
        out["bonds"] = bonds::run(&cli);
    }
    if part == "all" || part == "support" {
        out["support"] = support::run(&cli, only.as_deref(), search);
    }
    cli.write_impl(&out);
}
